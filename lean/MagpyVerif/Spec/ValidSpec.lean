/-
Spec/ValidSpec.lean — the documented input formats (C17), written independently of the validators.

The library documents its inputs as "array_like, shape (3,)", "shape (n,3)", "float", … and its own
error messages speak of "float compatible entries" — numbers: `None`, strings, complex numbers and other objects are
not (the repaired `make_float_array` refuses them; before it, numpy's coercion of `None` to nan and of numeric strings
was accepted).  `hasShape sh v` is that notion, checked TOP-DOWN
against a given shape (the validator model infers a shape bottom-up with `shapeOf`); `isEntry` says
which leaves are float compatible.
-/
import MagpyVerif.Model.Validators
import MagpyVerif.Model.CallArgs

namespace MagpyVerif.Valid

/-- a float-compatible entry of an array_like -/
def isEntry : PyVal → Bool
  | .bool _ => true
  | .num _ => true
  | .flt _ => true
  | .npbool _ => true
  | .nanf => true         -- nan is a float
  | _ => false

/-- "`v` is an array_like of shape `sh`": a rectangular nesting of lists/tuples whose level-i
sequences all have length `sh[i]` and whose leaves are float-compatible entries; or an ndarray of that
shape.  (An empty sequence has shape `(0,)` only.) -/
def hasShape : List Nat → PyVal → Bool
  | [], v =>
    match v with
    | .arr sh _ => sh == []
    | v => isEntry v
  | n :: s, v =>
    match v with
    | .arr sh _ => sh == n :: s
    | .seq xs => xs.length == n && (if n == 0 then s == [] else xs.all (hasShape s))
    | _ => false

/-- the documented meaning of the arguments (dims, shape_m1, length) of the generic vector validator:
the rank is one of `dims`, the last axis has size `shape_m1` (unless "any" = -1), the first axis has
size `length` (unless None = 0) -/
def shapeCond (dims : List Nat) (shapeM1 : Int) (length : Nat) (sh : List Nat) : Prop :=
  sh.length ∈ dims ∧ (shapeM1 = -1 ∨ ∃ l, sh.getLast? = some l ∧ (l : Int) = shapeM1) ∧
    (length = 0 ∨ sh.head? = some length)

/-- "a number (int, float)" -/
def isRealNumber : PyVal → Bool
  | .num _ => true
  | .flt _ => true
  | .nanf => true
  | .bool _ => true       -- Python's bool is a subclass of int
  | _ => false

/-- documented format of a scalar attribute: `None` (where allowed) or a real number, not negative
where the attribute is a size -/
def docScalar (allowNone nonNegative : Bool) : PyVal → Bool
  | .none => allowNone
  | .num n => !nonNegative || decide (0 ≤ n)
  | .flt n => !nonNegative || decide (0 ≤ n)
  | .nanf => true         -- nan is a float and is not negative (`nan < 0` is false): accepted by the code, see C17 `scalar_accepts_nan`
  | .bool _ => true
  | _ => false

/-- the float a documented scalar denotes -/
def scalarValue : PyVal → Stored
  | .num n => .scalar (.fin n)
  | .flt n => .scalar (.fin n)
  | .bool b => .scalar (.fin (if b then 1 else 0))
  | .nanf => .scalar .nan
  | _ => .none

/-- documented format "`None` or array_like of shape (k,)", all entries > 0 where the attribute is a size
(the library's wording: "cannot have values <= 0") -/
def docVec (k : Nat) (positive : Bool) (v : PyVal) : Bool :=
  match v with
  | .none => true
  | v => isArrayLike v && hasShape [k] v && (!positive || (flat v).all fun x => !x.le (.fin 0))

/-- length of the outermost axis of an array_like -/
def outerLen : PyVal → Nat
  | .seq xs => xs.length
  | .arr (n :: _) _ => n
  | _ => 0

/-- documented format "`None` or array_like of shape (n,3)" with `n = fixed` or `n ≥ nmin` -/
def docRows (fixed : Option Nat) (nmin : Nat) (v : PyVal) : Bool :=
  match v with
  | .none => true
  | v => isArrayLike v && hasShape [outerLen v, 3] v &&
      (match fixed with
       | some n => outerLen v == n
       | Option.none => decide (nmin ≤ outerLen v))

/-- a separator row of `Polyline.vertices`: the row (None, None, None) -/
def isNoneRow3 : PyVal → Bool
  | .seq [.none, .none, .none] => true
  | _ => false

/-- documented format of `Polyline.vertices`: `None`, or an ndarray of shape (n,3), or a list/tuple of n rows each of which
is an array_like of 3 numbers or the separator row (None, None, None) that splits the line into disconnected parts
(CHANGELOG 4.4.0; stored as a nan row); n ≥ 2 -/
def docPolyVertices (v : PyVal) : Bool :=
  match v with
  | .none => true
  | .arr sh _ => (match sh with
    | [n, 3] => decide (2 ≤ n)
    | _ => false)
  | .seq rows => decide (2 ≤ rows.length) && rows.all fun r => hasShape [3] r || isNoneRow3 r
  | _ => false

/-- the stored rows: a separator row is stored as three nan -/
def polyRowData (r : PyVal) : List FVal :=
  if isNoneRow3 r then [.nan, .nan, .nan] else flat r

/-- documented format of `position`: array_like of shape (3,) or (m,3), m ≥ 1 -/
def docPosition (v : PyVal) : Bool :=
  isArrayLike v && (hasShape [3] v || (hasShape [outerLen v, 3] v && decide (1 ≤ outerLen v)))

/-- the conditions on (r1, r2, h, phi1, phi2) named by the property and by the error message of the
setter, in the non-strict form the code implements -/
def segmentOK (r1 r2 h phi1 phi2 : Int) : Prop :=
  0 ≤ r1 ∧ r1 ≤ r2 ∧ 0 < r2 ∧ 0 < h ∧ phi1 ≤ phi2 ∧ phi2 - phi1 ≤ 360

instance (r1 r2 h phi1 phi2 : Int) : Decidable (segmentOK r1 r2 h phi1 phi2) := by
  unfold segmentOK; infer_instance

/-- documented format of `CylinderSegment.dimension` -/
def docSegment (v : PyVal) : Bool :=
  match v with
  | .none => true
  | v => isArrayLike v && hasShape [5] v &&
      (match flat v with
       | [.fin r1, .fin r2, .fin h, .fin p1, .fin p2] => decide (segmentOK r1 r2 h p1 p2)
       | _ => false)

/-- documented format of `Sensor.handedness` -/
def docHandedness : PyVal → Bool
  | .str s => s == "right" || s == "left"
  | _ => false

/-- documented format of `Sensor.pixel`: `None` or array_like of shape (3,) or (n1,…,nk,3) without
empty axes (the code additionally limits the rank to 19) -/
def DocPixel (v : PyVal) : Prop :=
  v = .none ∨ (isArrayLike v = true ∧ ∃ ns : List Nat, hasShape (ns ++ [3]) v = true ∧ ns.length ≤ 18 ∧ 0 ∉ ns)

/-! ### arguments of move / rotate / getB -/

/-- documented: "start: int or str, default 'auto'" -/
def docStart : PyVal → Bool
  | .num _ => true
  | .bool _ => true        -- Python's bool is an int
  | .str s => s == "auto"
  | _ => false

/-- documented: "degrees: bool" -/
def docDegrees : PyVal → Bool
  | .bool _ => true
  | _ => false

/-- documented: field is one of "B", "H", "M", "J" -/
def docField : PyVal → Bool
  | .str s => s == "B" || s == "H" || s == "M" || s == "J"
  | _ => false

/-- documented: output is "ndarray" or "dataframe" -/
def docOutput : PyVal → Bool
  | .str s => s == "ndarray" || s == "dataframe"
  | _ => false

/-- the number zero -/
def isZero : PyVal → Bool
  | .num 0 => true
  | .flt 0 => true
  | .bool false => true
  | _ => false

/-- documented: "anchor: None, 0 or array_like with shape (3,) or (n,3)", n ≥ 1 -/
def docAnchor (v : PyVal) : Bool :=
  match v with
  | .none => true
  | v => isZero v || (isArrayLike v && (hasShape [3] v || (hasShape [outerLen v, 3] v && decide (1 ≤ outerLen v))))

/-- documented: "angle: int, float or array_like with shape (n,)" -/
def docAngle (v : PyVal) : Bool :=
  isRealNumber v || (isArrayLike v && hasShape [outerLen v] v)

/-- documented: "axis: str or array_like, shape (3,)": one of "x", "y", "z" or a vector that is not (0,0,0) -/
def docAxisVec (v : PyVal) : Bool :=
  isArrayLike v && hasShape [3] v && !(flat v).all (· == .fin 0)

def docAxis : PyVal → Bool
  | .str s => s == "x" || s == "y" || s == "z"
  | v => docAxisVec v

/-- documented: "orientation: None or scipy Rotation" (with finite quaternions; for the attribute: not empty) -/
def docOrientation (isAttr : Bool) : PyVal → Bool
  | .none => true
  | .rot n finite => finite && !(isAttr && n == 0)
  | _ => false

/-- the reading of a `shape` argument with `None` entries (check_format_input_vector2): on the axes both
the array and `shape` have, a given size must be matched -/
def shapeAgrees (sh : List Nat) (shape : List (Option Nat)) : Prop :=
  ∀ (i d k : Nat), sh[i]? = some d → shape[i]? = some (some k) → d = k

/-! ### arguments that are not attribute values: pixel_agg, field_func, TriangularMesh modes, in_out, sumup / squeeze, style -/

/-- documented: "pixel_agg: str, default None — reference to a compatible numpy aggregator function like 'min' or 'mean'": `None`, or the name of
a numpy function that reduces the pixel axes, both ways `getBH_level2` calls it (over a tuple of axes / over one axis) -/
def docPixelAgg (tbl : NpTable) : PyVal → Bool
  | .none => true
  | .str s =>
    match npLookup tbl s with
    | some (_, kind, _, axTuple, axInt) => kind == "number" && axTuple && axInt
    | Option.none => false
  | _ => false

def ffOutDoc : FFOut → Bool
  | .none => true
  | .array sh => sh == [2, 3]
  | _ => false

/-- documented (CustomSource): "field_func: callable, default None — must have the two positional arguments `field` and `observers`; with
field='B' or 'H' the field must be returned (or None) as ndarray of shape (n,3) for observers of shape (n,3)" — on the test input of two
observers -/
def docFieldFunc : FFVal → Bool
  | .none => true
  | .func args b h => args.take 2 == ["field", "observers"] && ffOutDoc b && ffOutDoc h
  | _ => false

/-- documented (TriangularMesh): mode is "warn", "raise", "ignore" or "skip"; `True` translates to "warn" and `False` to "skip" -/
def docMode : PyVal → Option Mode
  | .str s => if s == "warn" then some .warn else if s == "raise" then some .raise else if s == "ignore" then some .ignore
              else if s == "skip" then some .skip else Option.none
  | .bool true => some .warn
  | .bool false => some .skip
  | _ => Option.none

/-- documented: "in_out: {'auto', 'inside', 'outside'}" -/
def docInOut : PyVal → Option IOEff
  | .str s => if s == "auto" then some .auto else if s == "inside" then some .inside else if s == "outside" then some .outside else Option.none
  | _ => Option.none

/-- documented: "sumup: bool", "squeeze: bool" -/
def docFlag : PyVal → Option Bool
  | .bool b => some b
  | _ => Option.none

/-- documented: "style: dict" (constructor), "Input must be in the form of a style dictionary" (property); `None` is the default and an object
of the class's own style class is what the getter returns -/
def docStyle : StyleArg → Bool
  | .none => true
  | .dict Option.none => true
  | .styleObj true => true
  | _ => false

/-! ### the values of `Collection.children` / `Collection.collections` -/

/-- objects that can be children together: none is the collection itself or one that contains it, none occurs twice -/
def goodObjs (os : List (Nat × ObjKind)) : Bool :=
  !(os.any fun o => o.2 == .selfOrAncestor) && !hasDup (os.map (·.1))

/-- a flat list of Magpylib objects -/
def objList (xs : List CollVal) : Option (List (Nat × ObjKind)) :=
  if xs.all (fun x => (asObj x).isSome) then some (xs.filterMap asObj) else Option.none

def keepGood (os : List (Nat × ObjKind)) : Option (List (Nat × ObjKind)) := if goodObjs os then some os else Option.none

/-- documented: "children: sources, `Sensor` or `Collection` objects — an ordered list of all children in the collection": a list / tuple of
Magpylib objects (also wrapped in one more list, as `add` takes it), or a single object, that can be children together; `some os`: the children
the assignment produces -/
def docChildren : CollVal → Option (List (Nat × ObjKind))
  | .seq [.seq ys] => (objList ys).bind keepGood
  | .seq xs => (objList xs).bind keepGood
  | .obj i k => keepGood [(i, k)]
  | .junk => Option.none

def isCollectionObj : CollVal → Bool
  | .obj _ k => k == .collection || k == .selfOrAncestor
  | _ => false

/-- documented: "collections: `Collection` objects — an ordered list of all collection objects in the collection": a (possibly nested) list all of
whose entries are Collection objects that can be children together -/
def docCollections (v : CollVal) : Option (List (Nat × ObjKind)) :=
  if (leavesC v).all isCollectionObj then keepGood ((leavesC v).filterMap asObj) else Option.none

end MagpyVerif.Valid
