import MagpyVerif.Model.Basic
import MagpyVerif.Model.Path
