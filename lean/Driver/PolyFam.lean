/- driver family `poly`: a batch of Polyline instances through the model of current_vertices_field (IEEE double) -/
import MagpyVerif.Model.Polyline
import Driver.KernFam

namespace Driver.PolyFam
open MagpyVerif MagpyVerif.Kern Driver Driver.KernFam

def inst : P (PolyInst Float) := do
  let c ← flt
  let nv ← nat
  let vs ← many nv v3
  let o ← v3
  pure { cur := c, verts := vs, obs := o }

def run : P String := do
  match (← tok) with
  | "batch" => do
      let f ← field
      let k ← nat
      let insts ← many k inst
      pure (" ".intercalate ((verticesField f insts).map out))
  | "seg" => do
      -- one row of BHJM_current_polyline (the wrapper: start == end rows, on-the-line mask, J = M = 0, B = mu0 H)
      let f ← field
      let c ← flt
      let p1 ← v3
      let p2 ← v3
      let po ← v3
      pure (out (bhjmSegment f c p1 p2 po))
  | t => throw s!"unknown poly command {t}"

def step (line : String) : String :=
  match runLine run line with
  | .error e => s!"parse-error {e}"
  | .ok s => s

end Driver.PolyFam
