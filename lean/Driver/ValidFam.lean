/- driver family `valid`: the input validators of Model/Validators.lean on values of the PyVal grammar (C17) -/
import MagpyVerif.Model.Validators
import MagpyVerif.Model.CallArgs
import Driver.Parse

namespace Driver.ValidFam
open MagpyVerif.Valid MagpyVerif.Gen Driver

/-- value encoding (prefix): N | T | F | I <int> | FL <int> | NAN | BT | BF | C | O | S:<text> | L <n> v… | A <ndim> <shape…> <n> <data…> -/
partial def value : P PyVal := do
  let t ← tok
  match t with
  | "N" => pure .none
  | "T" => pure (.bool true)
  | "F" => pure (.bool false)
  | "I" => do pure (.num (← int))
  | "FL" => do pure (.flt (← int))
  | "NAN" => pure .nanf
  | "R" => do
      let n ← nat
      let f ← nat
      pure (.rot n (f != 0))
  | "BT" => pure (.npbool true)
  | "BF" => pure (.npbool false)
  | "C" => pure .cplx
  | "O" => pure .obj
  | "L" => do
      let n ← nat
      let xs ← many n value
      pure (.seq xs)
  | "A" => do
      let nd ← nat
      let sh ← many nd nat
      let n ← nat
      let d ← many n int
      if prod sh != n then throw s!"array data does not fit shape {sh}"
      pure (.arr sh d)
  | _ =>
    if t.startsWith "S:" then pure (.str (t.drop 2).toString)
    else throw s!"bad value token {t}"

def flag : P Bool := do pure ((← nat) != 0)

def showF : FVal → String
  | .fin v => toString v
  | .nan => "nan"

def showStored : Stored → String
  | .none => "ok none"
  | .scalar x => s!"ok scalar {showF x}"
  | .text s => s!"ok text {s}"
  | .quats n => s!"ok quats {n}"
  | .array a =>
    let sh := " ".intercalate (a.shape.map toString)
    let d := " ".intercalate (a.data.map showF)
    s!"ok array {a.shape.length} {sh} : {d}".trimAscii.toString

def showRes : Except Err Stored → String
  | .ok s => showStored s
  | .error .badUserInput => "err bad"
  | .error (.foreign e) => s!"err foreign:{e}"


/-! ### call arguments (Model/CallArgs.lean) -/

def optExc (t : String) : Option String := if t == "-" then Option.none else some t

/-- N | A <nd> <shape…> | X | R:<exc> -/
def ffOut : P FFOut := do
  let t ← tok
  match t with
  | "N" => pure .none
  | "X" => pure .notArray
  | "A" => do
      let nd ← nat
      pure (.array (← many nd nat))
  | _ => if t.startsWith "R:" then pure (.raises (t.drop 2).toString) else throw s!"bad field_func result {t}"

/-- N | NC | OP | F <n> <argnames…> <outB> <outH> -/
def ffVal : P FFVal := do
  match (← tok) with
  | "N" => pure .none
  | "NC" => pure .notCallable
  | "OP" => pure .unreadable
  | "F" => do
      let n ← nat
      let args ← many n tok
      let b ← ffOut
      let h ← ffOut
      pure (.func args b h)
  | t => throw s!"bad field_func value {t}"

/-- N | D <exc or -> | SO <own> | X -/
def styleArg : P StyleArg := do
  match (← tok) with
  | "N" => pure .none
  | "D" => do pure (.dict (optExc (← tok)))
  | "SO" => do pure (.styleObj (← flag))
  | "X" => pure .other
  | t => throw s!"bad style value {t}"

def showErr : Err → String
  | .badUserInput => "err bad"
  | .foreign e => s!"err foreign:{e}"

def showUnit : Except Err Unit → String
  | .ok () => "ok"
  | .error e => showErr e

def showMode : Mode → String
  | .warn => "warn" | .raise => "raise" | .ignore => "ignore" | .skip => "skip"

def showIO : IOEff → String
  | .auto => "auto" | .inside => "inside" | .outside => "outside"

/-- O <id> <s|e|c|A> | J | L <n> v… -/
partial def collVal : P CollVal := do
  match (← tok) with
  | "J" => pure .junk
  | "O" => do
      let i ← nat
      let k ← tok
      pure (.obj i (if k == "s" then .source else if k == "e" then .sensor else if k == "c" then .collection else .selfOrAncestor))
  | "L" => do
      let n ← nat
      pure (.seq (← many n collVal))
  | t => throw s!"bad collection value {t}"

def callArgs (cmd : String) : P (Option String) := do
  match cmd with
  | "pixelagg" => do pure (some (showRes (checkPixelAgg NpNames.table (← value))))
  | "pixelagguse" => do
      let name ← tok
      let same ← flag
      pure (some (if pixelAggUse NpNames.table name same then "ok" else "err later"))
  | "fieldfunc" => do pure (some (showUnit (validateFieldFunc (← ffVal))))
  | "setfieldfunc" => do
      let ed ← flag
      let old ← ffVal
      let v ← ffVal
      let r := setFieldFunc ed old v
      pure (some (match r.2 with
        | Option.none => if r.1 == v then "ok assigned" else "ok not-assigned"
        | some e => showErr e ++ (if r.1 == old then " kept" else " changed")))
  | "mode" => do
      pure (some (match validateMode (← value) with
        | .ok s => showStored s ++ " -> " ++ showMode (modeEffect s)
        | .error e => showErr e))
  | "inout" => do
      let which ← tok
      pure (some (match inOutCall (which == "tetra") (← value) with
        | .ok e => "ok " ++ showIO e
        | .error e => showErr e))
  | "truth" => do
      pure (some (match pyTruth (← value) with
        | .ok b => if b then "ok true" else "ok false"
        | .error e => showErr e))
  | "stylesetter" => do pure (some (showUnit (styleSetter (← styleArg))))
  | "stylector" => do
      let a ← styleArg
      let hasKw ← flag
      let kwNames ← flag
      let d ← tok
      pure (some (match styleCtor a hasKw kwNames (optExc d) with
        | .error e => "ctor-" ++ showErr e
        | .ok p => match styleRealise p with
          | .ok () => "ok"
          | .error e => "late-" ++ showErr e))
  | "collval" => do
      let which ← tok
      let v ← collVal
      pure (some (match (if which == "children" then childrenSetter v else collectionsSetter v) with
        | .ok os => (" ".intercalate ("ok" :: os.map fun o => toString o.1))
        | .error e => showErr e))
  | "setterform" => do
      -- what the analysis of the regenerated statement tree says about a rejected assignment through this setter
      let c ← tok
      let attrName ← tok
      match Setters.setters.find? (fun st => st.cls == c && st.attr == attrName) with
      | Option.none => throw s!"no regenerated setter {c}.{attrName}"
      | some st =>
        pure (some (if SetterForm.vtaForm st then "all-or-nothing validate-then-assign"
          else if SetterForm.form st then "all-or-nothing assign-under-restore" else "may-change"))
  | "missing" => do
      let c ← tok
      let dn ← flag
      let en ← flag
      match mkSrc c dn en with
      | Option.none => throw s!"class {c} is not in the regenerated table"
      | some o =>
        pure (some (match level2Checks Setters.dimNames Setters.excNames [o] (fun _ => ()) with
          | .ok () => "ok"
          | .error .missingInput => "err missing"
          | .error (.input e) => showErr e))
  | _ => pure Option.none

def run : P String := do
  let t0 ← tok
  match (← callArgs t0) with
  | some r => pure r
  | Option.none =>
  match t0 with
  | "scalar" => do
      let an ← flag; let fn ← flag
      pure (showRes (checkScalar an fn (← value)))
  | "vector" => do
      let nd ← nat
      let dims ← many nd nat
      let m1 ← int
      let len ← nat
      let rs ← flag; let an ← flag; let f0 ← flag
      let cfg : Attr.Row := ⟨"", "", "check_format_input_vector", dims, m1, len, an, false, f0, rs⟩
      pure (showRes (checkVector cfg (← value)))
  | "vector2" => do
      let n ← nat
      let sh ← many n int
      let shape := sh.map fun (k : Int) => if k < 0 then Option.none else some k.toNat
      pure (showRes (checkVector2 shape (← value)))
  | "vertices" => do pure (showRes (checkVertices (← value)))
  | "cylseg" => do pure (showRes (checkCylSeg (← value)))
  | "pixel" => do pure (showRes (checkPixel (← value)))
  | "handedness" => do pure (showRes (checkHandedness (← value)))
  | "start" => do pure (showRes (checkStart (← value)))
  | "degrees" => do pure (showRes (checkDegrees (← value)))
  | "field" => do pure (showRes (checkField (← value)))
  | "output" => do pure (showRes (checkOutput (← value)))
  | "anchor" => do pure (showRes (checkAnchor (← value)))
  | "angle" => do pure (showRes (checkAngle (← value)))
  | "axis" => do pure (showRes (checkAxis (← value)))
  | "orientation" => do
      let f ← flag
      pure (showRes (checkOrientation f (← value)))
  | "triangle" => do pure (showRes (checkVector triangleCfg (← value)))
  | "tetrahedron" => do pure (showRes (checkVector tetrahedronCfg (← value)))
  | "position" => do pure (showRes (checkVector positionCfg (← value)))
  | "attr" => do
      -- a row of the generated table by class and attribute name
      let c ← tok; let a ← tok
      let v ← value
      match Attr.table.find? (fun r => r.cls == c && r.attr == a) with
      | Option.none => throw s!"no table row {c}.{a}"
      | some r =>
        if r.validator == "check_format_input_vector" then
          pure (showRes (if c == "Sensor" && a == "pixel" then checkPixel v else checkVector r v))
        else if r.validator == "check_format_input_scalar" then pure (showRes (checkScalar r.allowNone r.forbidNegative v))
        else if r.validator == "check_format_input_vertices" then pure (showRes (checkVertices v))
        else if r.validator == "check_format_input_cylinder_segment" then pure (showRes (checkCylSeg v))
        else throw s!"validator {r.validator} not modelled"
  | t => throw s!"unknown valid command {t}"

def step (line : String) : String :=
  match runLine run line with
  | .error e => s!"parse-error {e}"
  | .ok s => s

end Driver.ValidFam
