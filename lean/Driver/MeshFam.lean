/- driver family `mesh`: open edges and connected subsets of a face list -/
import MagpyVerif.Model.Mesh
import Driver.Parse

namespace Driver.MeshFam
open MagpyVerif.Mesh Driver

def faces : P (List Face) := do
  let n ← nat
  many n (do pure (← nat, ← nat, ← nat))

def sortedEdges (es : List Edge) : List Edge :=
  (es.toArray.qsort (fun a b => a.1 < b.1 || (a.1 == b.1 && a.2 < b.2))).toList

def run : P String := do
  match (← tok) with
  | "open" => do
      let fs ← faces
      let es := sortedEdges (openEdges fs)
      pure ("open " ++ " ".intercalate (es.map fun e => s!"{e.1}-{e.2}"))
  | "subsets" => do
      let fs ← faces
      let ss := subsets (fs.length + 1) fs
      let norm := ss.map fun s => (s.toArray.qsort (· < ·)).toList
      pure ("subsets " ++ " | ".intercalate (norm.map fun s => " ".intercalate (s.map toString)))
  | t => throw s!"unknown mesh command {t}"

def step (line : String) : String :=
  match runLine run line with
  | .error e => s!"parse-error {e}"
  | .ok s => s

end Driver.MeshFam
