/- driver family `mesh`: open edges and connected subsets of a face list -/
import MagpyVerif.Model.Mesh
import MagpyVerif.Model.MeshPipeline
import MagpyVerif.Model.MeshUnique
import Driver.KernFam

namespace Driver.MeshFam
open MagpyVerif.Mesh Driver

def faces : P (List Face) := do
  let n ← nat
  many n (do pure (← nat, ← nat, ← nat))

def sortedEdges (es : List Edge) : List Edge :=
  (es.toArray.qsort (fun a b => a.1 < b.1 || (a.1 == b.1 && a.2 < b.2))).toList

def run : P String := do
  match (← tok) with
  | "open" => do
      let fs ← faces
      let es := sortedEdges (openEdges fs)
      pure ("open " ++ " ".intercalate (es.map fun e => s!"{e.1}-{e.2}"))
  | "subsets" => do
      let fs ← faces
      let ss := subsets (fs.length + 1) fs
      let norm := ss.map fun s => (s.toArray.qsort (· < ·)).toList
      pure ("subsets " ++ " | ".intercalate (norm.map fun s => " ".intercalate (s.map toString)))
  | "facesubsets" => do
      -- what get_disconnected_faces_subsets returns: the FACE subsets, in order
      let fs ← faces
      let ss := facesSubsets fs
      pure ("facesubsets " ++ " | ".intercalate (ss.map fun s => " ".intercalate (s.map fun f => s!"{f.1},{f.2.1},{f.2.2}")))
  | "inwards" => do
      -- faces, then the seed verdicts as pairs (number of remaining faces at the call, verdict 0/1)
      let fs ← faces
      let k ← nat
      let vs ← many k (do pure (← nat, ← nat))
      let seed : List Nat → Bool := fun idx => match vs.find? (fun p => p.1 == idx.length) with
        | some p => p.2 != 0
        | none => false
      let st := orientLoop seed fs (2 * fs.length + 1) (orientInit fs)
      let m := inwardsMask seed fs
      let fixed := fixOrientation seed fs
      pure (s!"inwards left={st.indices.length} mask " ++ String.join (m.map fun b => if b then "1" else "0") ++ " faces " ++
        " ".intercalate (fixed.map fun f => s!"{f.1},{f.2.1},{f.2.2}"))
  | "unique" => do
      -- the soup -> (vertices, faces) glue of TriangularMesh.from_mesh / from_triangles in IEEE double (Model/MeshUnique.lean):
      -- n triangles as 9 bit patterns each; out: the unique rows (bit patterns), the faces, and whether vertices[faces] == soup
      -- row by row under the element type's `==` (what `from_mesh_roundtrip` states; false only with NaN corners)
      let n ← nat
      let soup ← many n (do pure ((← KernFam.v3), (← KernFam.v3), (← KernFam.v3)))
      let c := MagpyVerif.Kern.RowCmp.float
      let (vs, fs) := MagpyVerif.Kern.fromMesh c soup
      let back := MagpyVerif.Kern.meshArray vs fs
      let same := back.length == soup.length && (back.zip soup).all fun (a, b) =>
        MagpyVerif.Kern.rowEq c a.1 b.1 && MagpyVerif.Kern.rowEq c a.2.1 b.2.1 && MagpyVerif.Kern.rowEq c a.2.2 b.2.2
      pure (s!"unique {vs.length} " ++ " ".intercalate (vs.map KernFam.out) ++ " faces " ++
        " ".intercalate (fs.map fun f => s!"{f.1},{f.2.1},{f.2.2}") ++ s!" roundtrip {if same then 1 else 0}")
  | t => throw s!"unknown mesh command {t}"

def step (line : String) : String :=
  match runLine run line with
  | .error e => s!"parse-error {e}"
  | .ok s => s

end Driver.MeshFam
