/- driver family `level2`: marshalling of getBH_level2 on exact integer data -/
import MagpyVerif.Model.Level2
import Driver.Parse
import Driver.PathFam

namespace Driver.Level2Fam
open MagpyVerif MagpyVerif.Level2 Driver Driver.PathFam

abbrev S := Src Rot Vec
abbrev E := Entry Rot Vec
abbrev K := Sens Rot Vec

def bool : P Bool := do pure ((← nat) != 0)

def pose : P (Vec × Rot) := do let p ← vec; let r ← rot; pure (p, r)

/-- `L key npath (pos ori)*` | `C k entry*` ; field functions are affine maps `A x + b` -/
partial def entry (fs : Array (Rot × Vec)) : P E := do
  match (← tok) with
  | "L" => do
      let key ← nat
      let n ← nat
      let ps ← many n pose
      let (a, b) := fs.getD key (1, 0)
      pure (.leaf { pos := ps.map (·.1), ori := ps.map (·.2), F := fun x => a • x + b })
  | "J" => do
      -- a Cuboid evaluated for J (or M in units of 1/mu_0): fs[key] = (diag(dimension), polarization)
      let key ← nat
      let n ← nat
      let ps ← many n pose
      let (a, b) := fs.getD key (1, 0)
      pure (.leaf { pos := ps.map (·.1), ori := ps.map (·.2), F := indicatorField (boxBody ⟨a.r1.x, a.r2.y, a.r3.z⟩) b })
  | "C" => do
      let k ← nat
      pure (.coll (← many k (entry fs)))
  | t => throw s!"bad entry tag {t}"

def sens : P K := do
  let n ← nat
  let ps ← many n pose
  let left ← bool
  let nd ← nat
  let dims ← many nd nat
  let npix ← nat
  let px ← many npix vec
  pure { pos := ps.map (·.1), ori := ps.map (·.2), pixels := px, pixShape := dims, left := left }

def agg : P Agg := do
  match (← tok) with
  | "none" => pure .none
  | "sum" => pure .sum
  | "min" => pure .min
  | "max" => pure .max
  | t => throw s!"bad agg {t}"

def vmin (a b : Vec) : Vec := ⟨min a.x b.x, min a.y b.y, min a.z b.z⟩
def vmax (a b : Vec) : Vec := ⟨max a.x b.x, max a.y b.y, max a.z b.z⟩
def flipX (a : Vec) : Vec := V3.flipX a

/-- the scene part of a line: `F nf (rot vec)* S ne entry* K nk sens*` -/
def scene : P (List E × List K) := do
  let _ ← tok -- "F"
  let nf ← nat
  let fs ← many nf (do let m ← rot; let b ← vec; pure (m, b))
  let _ ← tok -- "S"
  let ne ← nat
  let es ← many ne (entry fs.toArray)
  let _ ← tok -- "K"
  let nk ← nat
  let ks ← many nk sens
  pure (es, ks)

def fmtErr : Err → String
  | .badUserInput => "err BadUserInput"
  | .missingInput => "err MissingInput"

def fmtSrcId : SrcId → String
  | .sumup n => s!"U{n}"
  | .src i => s!"S{i}"

/-- `level2 <sumup> <squeeze> <agg> scene` (ndarray output) or
`level2 df <sumup> <agg> scene` (output="dataframe": one `source path sensor pixel x y z` per row) -/
def run : P String := do
  let t ← tok
  if t == "df" then
    let sumup ← bool
    let a ← agg
    let (es, ks) ← scene
    match dataframe flipX vmin vmax es ks sumup a with
    | .error e => pure (fmtErr e)
    | .ok df =>
      if df.index.length != df.values.length then
        pure s!"err LengthMismatch {df.index.length} {df.values.length}"
      else
        let rows := (dataframeRows df).map fun ((s, m, k, p), v) => s!"{fmtSrcId s} {m} {k} {p} {fmtV v}"
        pure s!"ok df {rows.length} | {" ; ".intercalate rows}"
  else
  let sumup ← (match t.toNat? with
    | some n => pure (n != 0)
    | none => throw s!"not a flag: {t}")
  let squeeze ← bool
  let a ← agg
  let (es, ks) ← scene
  match getBH flipX vmin vmax es ks sumup squeeze a with
  | .error e => pure (fmtErr e)
  | .ok o =>
    let sh := " ".intercalate ((o.shape ++ [3]).map toString)
    let d := " ".intercalate (o.data.map fmtV)
    pure s!"ok shape {sh} | {d}"

def step (line : String) : String :=
  match runLine run line with
  | .error e => s!"parse-error {e}"
  | .ok s => s

end Driver.Level2Fam
