/- driver family `kern`: kernel ports evaluated in IEEE double; floats travel as bit patterns -/
import MagpyVerif.Model.Kernels
import MagpyVerif.Model.Cylinder
import MagpyVerif.Model.Celv
import MagpyVerif.Model.CylinderBatch
import MagpyVerif.Model.CylSegWrap
import MagpyVerif.Model.CylSegSpecial
import MagpyVerif.Gen.Const
import MagpyVerif.Model.InOut
import MagpyVerif.Model.DipoleSing
import Driver.Parse

namespace Driver.KernFam
open MagpyVerif MagpyVerif.Kern Driver

instance : Num Float where
  ofNat k := k.toFloat
  sqrt := Float.sqrt
  abs := Float.abs
  pi := 3.141592653589793
  mu0 := Float.ofBits Gen.Const.mu0Bits
  lt a b := a < b
  le a b := a <= b
  eq0 a := a == 0.0
  log := Float.log
  atan2 := Float.atan2
  sin := Float.sin
  cos := Float.cos

instance : NumX Float where
  tan := Float.tan
  atan := Float.atan
  atanh := Float.atanh
  sgn := CylSegF.sgnF
  round := CylSegF.rint
  ceil := Float.ceil
  pymod := CylSegF.pymodF
  ellipkinc := CylSegF.ellipkincF
  ellipeinc := CylSegF.ellipeincF
  el3angle := CylSegF.el3Angle

def flt : P Float := do
  let k ← nat
  pure (Float.ofBits k.toUInt64)

def v3 : P (V3 Float) := do pure ⟨← flt, ← flt, ← flt⟩

def field : P Field := do
  match (← tok) with
  | "B" => pure .B
  | "H" => pure .H
  | "J" => pure .J
  | "M" => pure .M
  | t => throw s!"bad field {t}"

def inout : P InOut := do
  match (← tok) with
  | "auto" => pure .auto
  | "inside" => pure .inside
  | "outside" => pure .outside
  | "other" => pure .other
  | t => throw s!"bad in_out {t}"

def out (v : V3 Float) : String := s!"{v.x.toBits} {v.y.toBits} {v.z.toBits}"

def run : P String := do
  match (← tok) with
  | "dipole" => do let f ← field; let m ← v3; let x ← v3; pure (out (bhjmDipole f m x))
  | "dipole0" => do
      -- BHJM_dipole with the observer AT the dipole position (the `r == 0` row): +inf / -inf / 0 per component
      let f ← field; let m ← v3
      let s := bhjmDipoleAtPosition f m
      let fl (t : Sing) : Float := match t with | .pinf => 1.0 / 0.0 | .ninf => -1.0 / 0.0 | .zero => 0.0
      pure (out ⟨fl s.x, fl s.y, fl s.z⟩)
  | "sphere" => do let f ← field; let d ← flt; let p ← v3; let x ← v3; pure (out (bhjmSphere f d p x))
  | "segment" => do let c ← flt; let p1 ← v3; let p2 ← v3; let po ← v3; pure (out (segmentH c p1 p2 po))
  | "cuboid" => do let f ← field; let d ← v3; let p ← v3; let x ← v3; pure (out (bhjmCuboid f d p x))
  | "triangle" => do
      let f ← field; let a ← v3; let b ← v3; let c ← v3; let p ← v3; let x ← v3
      pure (out (bhjmTriangle f a b c p x))
  | "tetra" => do
      let f ← field; let a ← v3; let b ← v3; let c ← v3; let d ← v3; let p ← v3; let x ← v3
      pure (out (bhjmTetra f a b c d p x))
  | "tetrainside" => do
      let a ← v3; let b ← v3; let c ← v3; let d ← v3; let x ← v3
      pure s!"{tetraInside a b c d x}"
  | "circle" => do
      let f ← field; let d ← flt; let c ← flt; let x ← v3
      match bhjmCircle 200 f d c x with
      | some v => pure (out v)
      | none => pure "no-convergence"
  | "cel0" => do
      let kc ← flt; let p ← flt; let c ← flt; let s ← flt
      match cel0 200 kc p c s with
      | some v => pure s!"{v.toBits}"
      | none => pure "none"
  | "celiter" => do
      let k ← nat
      let mut rows : List (CelRow Float) := []
      for _ in [0:k] do
        let qc ← flt; let p ← flt; let g ← flt; let cc ← flt; let ss ← flt; let em ← flt; let kk ← flt
        rows := rows ++ [{ qc := qc, p := p, g := g, cc := cc, ss := ss, em := em, kk := kk }]
      match celIterDispatch 200 rows with
      | some vs => pure (" ".intercalate (vs.map fun v => s!"{v.toBits}"))
      | none => pure "no-convergence"
  | "celbatch" => do
      -- a whole batch for `celv` (mode v), the dispatcher `cel` (mode d) or entry by entry through `celv` on one-entry batches (mode s)
      let mode ← tok
      let k ← nat
      let mut batch : List (CelArg Float) := []
      for _ in [0:k] do
        let kc ← flt; let p ← flt; let c ← flt; let s ← flt
        batch := batch ++ [{ kc := kc, p := p, c := c, s := s }]
      let res := if mode == "v" then celv 200 batch
                 else if mode == "d" then celDispatch 200 batch
                 else seqOpt (batch.map (celv1 200))
      match res with
      | some vs => pure (" ".intercalate (vs.map fun v => s!"{v.toBits}"))
      | none => pure "none"
  | "el3batch" => do
      -- `el3` on a batch, modelled entry by entry through the port of the scalar `el30` (the array routine `el3v` has the loop
      -- skeleton `MaskedLoop`, row-wise by `MaskedLoop.run_rowwise`)
      let k ← nat
      let mut vs : List Float := []
      for _ in [0:k] do
        let x ← flt; let kc ← flt; let p ← flt
        vs := vs ++ [CylSegF.el30 x kc p]
      pure (" ".intercalate (vs.map fun v => s!"{v.toBits}"))
  | "cylbatch" => do
      -- `BHJM_magnet_cylinder` on a whole batch (Model/CylinderBatch.lean), `cel` = the dispatcher `celDispatch`; mode `b`: the batch,
      -- mode `r`: every row through the one-row model `bhjmCylinder` (what a call with that row alone computes)
      let mode ← tok
      let f ← field
      let k ← nat
      let mut rows : List (CylRow Float) := []
      for _ in [0:k] do
        let d ← flt; let h ← flt; let p ← v3; let x ← v3
        rows := rows ++ [{ d := d, h := h, pol := p, x := x }]
      let res := if mode == "b" then bhjmCylinderBatch (celDispatch 200) 200 f rows
                 else seqOpt (rows.map fun row => bhjmCylinder 200 f (row.d, row.h) row.pol row.x)
      match res with
      | some vs => pure (" ".intercalate (vs.map out))
      | none => pure "none"
  | "cuboidmask" => do
      let d ← v3; let p ← v3; let x ← v3
      let m := cuboidMasks d p x
      pure s!"{m.inside} {m.general}"
  | "cylinder" => do
      let f ← field; let d ← flt; let h ← flt; let p ← v3; let x ← v3
      match bhjmCylinder 200 f (d, h) p x with
      | some v => pure (out v)
      | none => pure "none"
  | "cylmask" => do
      let d ← flt; let h ← flt; let x ← v3
      let r0 := d / 2.0
      let m := cylMasks (h / 2.0 / r0) (Float.sqrt (x.x * x.x + x.y * x.y) / r0) (x.z / r0)
      pure s!"{m.inside} {m.onEdge}"
  | "cylsegcase" => do
      let r ← flt; let phi ← flt; let z ← flt; let r1 ← flt; let phi1 ← flt; let z1 ← flt
      pure s!"{CylSeg.determine_cases r phi z r1 phi1 z1}"
  | "cylsegblock" => do
      let r ← flt; let phi ← flt; let z ← flt; let ri ← flt; let pj ← flt; let zk ← flt; let pm ← flt; let tm ← flt
      let cid := CylSeg.determine_cases r phi z ri pj zk
      match CylSeg.caseDispatch cid (CylSeg.allArgs r phi z ri pj zk pm tm) with
      | some b => pure s!"{cid} {out b.x} {out b.y} {out b.z}"
      | none => pure s!"{cid} none"
  | "cylsegH" => do
      let r ← flt; let phi ← flt; let z ← flt
      let r1 ← flt; let r2 ← flt; let p1 ← flt; let p2 ← flt; let z1 ← flt; let z2 ← flt
      let m ← flt; let pm ← flt; let tm ← flt
      match CylSeg.segH r phi z r1 r2 p1 p2 z1 z2 m pm tm with
      | some v => pure (out v)
      | none => pure "none"
  | "cylseg" => do
      let mode ← tok
      let f ← field; let x ← v3
      let r1 ← flt; let r2 ← flt; let h ← flt; let p1 ← flt; let p2 ← flt
      let pol ← v3
      let res := if mode == "int" then CylSeg.bhjmCylSegInternal 200 f x r1 r2 h p1 p2 pol
                 else CylSeg.bhjmCylSeg f x r1 r2 h p1 p2 pol
      match res with
      | some v => pure (out v)
      | none => pure "none"
  | "cylsegell" => do
      let phi ← flt; let m ← flt
      pure s!"{(CylSegF.ellipkincF phi m).toBits} {(CylSegF.ellipeincF phi m).toBits}"
  | "cylsegel3" => do
      let phi ← flt; let nn ← flt; let m ← flt
      pure s!"{(CylSegF.el3Angle phi nn m).toBits}"
  | "cylsegatan" => do
      let k ← flt; let phi ← flt
      pure s!"{(CylSeg.arctan_k_tan_2 k phi).toBits}"
  | "l1" => do
      -- the class's core function as getBH_level1 calls it when `in_out` is given (Model/InOut.lean)
      let io ← inout
      match (← tok) with
      | "cuboid" => do
          let f ← field; let d ← v3; let p ← v3; let x ← v3
          pure (match cuboidL1 io f d p x with | some v => out v | none => "unmodelled")
      | "sphere" => do
          let f ← field; let d ← flt; let p ← v3; let x ← v3
          pure (match sphereL1 io f d p x with | some v => out v | none => "unmodelled")
      | "cylinder" => do
          let f ← field; let d ← flt; let h ← flt; let p ← v3; let x ← v3
          pure (match cylinderL1 io 200 f (d, h) p x with | some (some v) => out v | some none => "none" | none => "unmodelled")
      | "tetra" => do
          let f ← field; let a ← v3; let b ← v3; let c ← v3; let d ← v3; let p ← v3; let x ← v3
          pure (match tetraL1 io f a b c d p x with | some v => out v | none => "unmodelled")
      | "cylseg" => do
          let _ ← tok  -- "int": the class's function is BHJM_cylinder_segment_internal
          let f ← field; let x ← v3
          let r1 ← flt; let r2 ← flt; let h ← flt; let p1 ← flt; let p2 ← flt
          let pol ← v3
          pure (match cylSegL1 io 200 f x r1 r2 h p1 p2 pol with | some (some v) => out v | some none => "none" | none => "unmodelled")
      | t => throw s!"unknown l1 class {t}"
  | t => throw s!"unknown kern command {t}"

def step (line : String) : String :=
  match runLine run line with
  | .error e => s!"parse-error {e}"
  | .ok s => s

end Driver.KernFam
