/- driver commands of the TriangularMesh self-intersection test (Model/MeshIntersect.lean), reached through the `trimesh`
   family: `segfacet` (one entry of segments_intersect_facets, float64 or float32 arithmetic) and `selfint`
   (get_intersecting_triangles: normalisation by the mesh size in float64, then float32 arithmetic as in the code) -/
import MagpyVerif.Model.MeshIntersect
import Driver.KernFam

namespace Driver.MeshIntersectFam
open MagpyVerif MagpyVerif.Kern Driver Driver.KernFam

/-- float32 rounding of a double: what `astype(np.float32)` does to a value, and — applied after each operation on
float32-valued doubles — float32 arithmetic -/
def rd32 (x : Float) : Float := x.toFloat32.toFloat

def tri : P (Tri Float) := do pure ((← v3), (← v3), (← v3))

def b01 (b : Bool) : String := if b then "1" else "0"

/-- `segfacet <32|64> <eps> <s0> <s1> <t0> <t1> <t2>` → verdict, then the decisive quantities g1 g2 sv0 sv1 sv2 as bit patterns;
`error` when `eps <= 0` -/
def segfacet : P String := do
  let prec ← nat
  let eps ← flt
  let s0 ← v3; let s1 ← v3; let t ← tri
  let rd : Float → Float := if prec == 32 then rd32 else id
  let (s0, s1, t) := if prec == 32 then (s0.map rd32, s1.map rd32, (t.1.map rd32, t.2.1.map rd32, t.2.2.map rd32)) else (s0, s1, t)
  match segmentsIntersectFacets rd eps [(s0, s1)] [t] with
  | none => pure "error"
  | some r =>
    let q := [planeDist rd t s0, planeDist rd t s1, signedVol rd s0 s1 t.1 t.2.1, signedVol rd s0 s1 t.2.1 t.2.2, signedVol rd s0 s1 t.2.2 t.1]
    pure (b01 (r.getD 0 false) ++ " " ++ " ".intercalate (q.map fun x => toString x.toBits))

/-- `selfint <hasR 0|1> <r> <rfactor> <eps> <nv> <verts…> <nf> <tris…>` → `idx: i j …` then `r=<bits>` (the query radius used, in units of the mesh size) -/
def selfint : P String := do
  let hasR ← nat
  let r ← flt
  let rf ← flt
  let eps ← flt
  let nv ← nat
  let vs ← many nv v3
  let nf ← nat
  let ts ← many nf (do pure (← nat, ← nat, ← nat))
  let ro := if hasR == 1 then some r else none
  let res := getIntersectingTriangles rd32 ro rf eps vs ts
  let nv := normaliseVerts ro vs
  let facets := gatherFacets (nv.2.map (V3.map rd32)) ts
  let rr := match nv.1 with
    | some r => r
    | none => rd32 (rd32 rf * maxCornerDist rd32 facets)
  pure ("idx:" ++ String.join (res.map fun k => s!" {k}") ++ s!" r={rr.toBits}")

end Driver.MeshIntersectFam
