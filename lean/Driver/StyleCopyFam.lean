/- driver family `scopy`: histories on `magpylib.defaults` and on the styles of n objects in which some operations are
   COPIES (C20), executed by Model/StyleCopy.lean (which wraps Model/StyleState.lean) on Gen/StyleSchema.lean.
   line:  hist <n> <cls>^n <m> <opC>^m
   opC:   any op of the family `sstate` (U / S / R / RS / Y / YO / G, see Driver/StyleStateFam.lean)
          |  C <i> <lab-tree>                                  new = obj_i.copy()           (lab-tree: N | L <nat>)
          |  CK <i> <lab-tree> (- | A <tree>) <kwargs tree>    new = obj_i.copy(style=…, style_k=v, …)
          |  CS <i>                                            new = X_i.copy()   (the style object alone)
   out:   per op `<outcome> @ <tree of the object touched>` (a copy: the NEW object if it was created, else the source)
          joined by ` ; `, then ` || ` and the final trees -/
import MagpyVerif.Model.StyleCopy
import MagpyVerif.Gen.StyleSchema
import Driver.StyleStateFam

namespace Driver.StyleCopyFam
open MagpyVerif.StyleNested MagpyVerif.StyleState MagpyVerif.StyleCopy Driver Driver.StyleFam Driver.StyleStateFam

def lab : P (Option Val) := do
  match (← tree) with
  | .leaf v => pure v
  | .node _ => throw "label must be a leaf"

/-- peek at the next token: the copy operations are parsed here, everything else by the `sstate` parser -/
def opC : P OpC := do
  match (← get) with
  | "C" :: _ => do
      let _ ← tok
      let i ← nat
      let l ← lab
      pure (.copy i l)
  | "CK" :: _ => do
      let _ ← tok
      let i ← nat
      let l ← lab
      let arg ← (do match (← tok) with
        | "-" => pure none
        | _ => pure (some (← tree)))
      match (← tree) with
      | .node kws => pure (.copyKw i l arg kws)
      | .leaf _ => throw "kwargs must be a dict"
  | "CS" :: _ => do
      let _ ← tok
      pure (.styleCopy (← nat))
  | _ => do pure (.base (← StyleStateFam.op))

/-- the object whose tree is reported after an operation: the target of a base operation; for a copy the new object when
the world grew, else the source -/
def shown (before after : World) : OpC → Nat
  | .base o => o.target
  | .copy i _ => if after.length > before.length then before.length else i
  | .copyKw i _ _ _ => if after.length > before.length then before.length else i
  | .styleCopy i => if after.length > before.length then before.length else i

def run : P String := do
  match (← tok) with
  | "hist" => do
      let n ← nat
      let cls ← many n nat
      let m ← nat
      let ops ← many m opC
      let T := MagpyVerif.Gen.StyleSchema.tables
      let Cs := MagpyVerif.Gen.StyleSchema.classes
      let D := MagpyVerif.Gen.StyleSchema.defaults
      let mut w := initWorld T Cs D cls
      let mut outs : Array String := #[]
      for o in ops do
        let r := stepC T Cs D w o
        outs := outs.push (showOut r.2 ++ " @ " ++ objTree r.1 (shown w r.1 o))
        w := r.1
      pure (" ; ".intercalate outs.toList ++ " || " ++ " | ".intercalate ((List.range w.length).map (objTree w)))
  | t => throw s!"unknown scopy command {t}"

def step (line : String) : String :=
  match runLine run line with
  | .error e => s!"parse-error {e}"
  | .ok s => s

end Driver.StyleCopyFam
