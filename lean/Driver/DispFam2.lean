/- driver family `disp`, second part (C19): outward winding (signed volume), the rotated arrows of a Polyline, the Sensor glyph and
   hull, user model3d traces at several path frames.  Unknown commands fall through to `DispFam.step`. -/
import MagpyVerif.Model.DisplayOutward
import MagpyVerif.Model.DisplayArrowLine
import MagpyVerif.Model.DisplaySensor
import MagpyVerif.Model.DisplayExtra
import Driver.DispFam

namespace Driver.DispFam2
open MagpyVerif.Display MagpyVerif.DisplayTrig Driver Driver.DispFam Driver.KernFam

instance : ArcCos Float := ⟨Float.acos⟩

/-- coordinate rows with NaN rows (`none`) printed as `nan` -/
def optVerts (l : List (Option (MagpyVerif.V3 Float))) : String :=
  let f (g : MagpyVerif.V3 Float → Float) := " ".intercalate (l.map fun
    | some v => toString (g v).toBits
    | none => "nan")
  s!"ok {f (·.x)} ; {f (·.y)} ; {f (·.z)}"

def pivot : P Pivot := DispFam.pivot

def fmtOut (o : PlaceOut Float) : String :=
  let d := " ".intercalate (o.kwargs.map fun (k, v) => s!"{k} {fmtTVal v}")
  let a := match o.args with | none => "none" | some l => s!"{l.length} {" ".intercalate (l.map fmtTVal)}"
  let c := match o.coordsargs with | none => "none" | some (x, y, z) => s!"{fmtCKey x} {fmtCKey y} {fmtCKey z}"
  s!"{o.kwargs.length} {d} | {a} | {c}"

def run2 (cmd : String) : P (Option String) := do
  match cmd with
  | "svol" => do
      -- six times the signed volume of the model's triangulation over the model's vertices, and the outward test of the one explicit face
      match (← tok) with
      | "prism" => do
          let N ← nat; let d ← flt; let h ← flt
          match prismTriangles N with
          | .error e => pure (some ("err " ++ errName e))
          | .ok fs => pure (some s!"ok {(meshVol6 (prismVerts N d h) fs).toBits}")
      | "seg" => do
          let vert ← nat; let r1 ← flt; let r2 ← flt; let h ← flt; let p1 ← flt; let p2 ← flt
          let r := segIJKOf vert p1 p2
          pure (some s!"ok {(meshVol6 (segVerts vert r1 r2 h p1 p2) (zip3 r.1 r.2.1 r.2.2)).toBits}")
      | "ell" => do
          let N ← nat; let a ← flt; let b ← flt; let c ← flt
          match ellipsoidTriangles N with
          | .error e => pure (some ("err " ++ errName e))
          | .ok fs => pure (some s!"ok {(meshVol6 (ellipsoidVerts N a b c) fs).toBits}")
      | "pyr" => do
          -- the open cone closed by its base fan about the base centre is not built by the code: report Σ det over the cone faces
          -- about the point on the axis at the base height (the base fan would contribute 0 there)
          let N ← nat; let d ← flt; let h ← flt; let p ← pivot
          match pyramidTriangles N with
          | .error e => pure (some ("err " ++ errName e))
          | .ok fs =>
            let vs := pyramidVerts N d h p
            let o : MagpyVerif.V3 Float := ⟨0, 0, (-h) / 2 + zShift p h⟩
            let s := fs.foldl (fun acc f => match faceOut vs f o with | some x => acc + x | none => acc) 0.0
            pure (some s!"ok {s.toBits}")
      | t => throw s!"unknown svol generator {t}"
  | "arrowr" => do
      let vec ← v3; let pos ← v3; let sign ← flt; let size ← flt; let apos ← flt; let pv ← pivot; let incl ← nat
      pure (some (optVerts (arrowedLine rotvecApply vec pos sign size apos pv (incl != 0))))
  | "arrowsv" => do
      let m ← nat
      let vs ← many m v3
      let sign ← flt; let size ← flt; let apos ← flt; let scaled ← nat; let incl ← nat
      match arrowFromVertices rotvecApply vs sign size apos (scaled != 0) (incl != 0) with
      | .error e => pure (some ("err " ++ errName e))
      | .ok l => pure (some (optVerts l))
  | "sensor" => do
      -- `sensor <left> <size x y z> <autosize? 0 | 1 a> <sizemode scaled> <haspix> <m> <pixels…> <pixel scaled> <pixel size>`
      let left ← nat
      let size ← v3
      let auto ← opt flt
      let sscaled ← nat
      let haspix ← nat
      let m ← nat
      let ps ← many m v3
      let pscaled ← nat
      let psize ← flt
      let pix := if haspix = 0 then none else some ps
      pure (some (verts (sensorTrace (left != 0) size auto (sscaled != 0) pix (pscaled != 0) psize)))
  | "extraf" => do
      -- `extraf COPY <0|1> K <n> (key val)* A <0 | 1 n val*> C <0 | 1 ckeys> S <scale> P <m> (<rot 9> <vec 3>)*m`
      let _ ← tok
      let copy := (← nat) != 0
      let _ ← tok
      let kw ← many (← nat) kv
      let _ ← tok
      let args ← opt (do many (← nat) tval)
      let _ ← tok
      let ca ← opt ckeys
      let _ ← tok
      let scale ← q64
      let _ ← tok
      let m ← nat
      let poses ← many m (do
        let R : MagpyVerif.M3 Float := ⟨← v3q, ← v3q, ← v3q⟩
        let p ← v3q
        pure (R, p))
      let u : ExtraTrace Float := { kwargs := kw, args := args, coordsargs := ca, scale := scale }
      match extraFramesWith copy u poses with
      | .error e => pure (some ("err " ++ errName e))
      | .ok (kwAfter, ts) =>
        let user := " ".intercalate (kwAfter.map fun (k, v) => s!"{k} {fmtTVal v}")
        pure (some ("ok " ++ " || ".intercalate (ts.map fmtOut) ++ s!" || USER {kwAfter.length} {user}"))
  | _ => pure none

def run : P String := do
  let t ← tok
  match (← run2 t) with
  | some r => pure r
  | none => throw "fallthrough"

def step (line : String) : String :=
  match runLine run line with
  | .ok s => s
  | .error "fallthrough" => DispFam.step line
  | .error e =>
    -- a command of this file that failed to parse, or one of DispFam
    match (line.splitOn " ").filter (· ≠ "") with
    | c :: _ => if ["svol", "arrowr", "arrowsv", "sensor", "extraf"].contains c then s!"parse-error {e}" else DispFam.step line
    | [] => DispFam.step line

end Driver.DispFam2
