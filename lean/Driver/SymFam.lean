/- driver family `sym`: kernel ports evaluated on the symbolic carrier (expression tree + shadow double).
   `sym <cmd> [field] <bits…>`: the i-th float read becomes the variable `var i` with that shadow value; the answer is
   `<n> | tree_1 | … | tree_n` in prefix notation, or `none`. -/
import MagpyVerif.Model.SymCarrier
import MagpyVerif.Model.Kernels
import MagpyVerif.Model.Cylinder
import MagpyVerif.Gen.Const
import Driver.Parse

namespace Driver.SymFam
open MagpyVerif MagpyVerif.Kern MagpyVerif.Sym Driver

instance : Num SymF := symNum (Float.ofBits Gen.Const.mu0Bits)

/-- parser with a counter for variable numbering -/
abbrev PS := StateT Nat P

def flt : PS SymF := do
  let k ← (nat : P Nat)
  let i ← get
  set (i + 1)
  pure ⟨.var i, Float.ofBits k.toUInt64⟩

def v3 : PS (V3 SymF) := do pure ⟨← flt, ← flt, ← flt⟩

def field : PS Field := do
  match (← (tok : P String)) with
  | "B" => pure .B
  | "H" => pure .H
  | "J" => pure .J
  | "M" => pure .M
  | t => throw s!"bad field {t}"

def outL (vs : List SymF) : String :=
  let parts := vs.map fun s => " ".intercalate (s.e.toks #[]).toList
  s!"{vs.length} | " ++ " | ".intercalate parts

def out (v : V3 SymF) : String := outL [v.x, v.y, v.z]

def run : PS String := do
  match (← (tok : P String)) with
  | "dipoleH" => do let m ← v3; let x ← v3; pure (out (dipoleH m x))
  | "dipole" => do let f ← field; let m ← v3; let x ← v3; pure (out (bhjmDipole f m x))
  | "sphere" => do let f ← field; let d ← flt; let p ← v3; let x ← v3; pure (out (bhjmSphere f d p x))
  | "segment" => do let c ← flt; let p1 ← v3; let p2 ← v3; let po ← v3; pure (out (segmentH c p1 p2 po))
  | "cuboidB" => do let d ← v3; let p ← v3; let x ← v3; pure (out (cuboidB d p x))
  | "cuboid" => do let f ← field; let d ← v3; let p ← v3; let x ← v3; pure (out (bhjmCuboid f d p x))
  | "triangleB" => do
      let a ← v3; let b ← v3; let c ← v3; let p ← v3; let x ← v3
      pure (out (triangleB a b c p x))
  | "triangle" => do
      let f ← field; let a ← v3; let b ← v3; let c ← v3; let p ← v3; let x ← v3
      pure (out (bhjmTriangle f a b c p x))
  | "tetra" => do
      let f ← field; let a ← v3; let b ← v3; let c ← v3; let d ← v3; let p ← v3; let x ← v3
      pure (out (bhjmTetra f a b c d p x))
  | "circle" => do
      let f ← field; let d ← flt; let c ← flt; let x ← v3
      match bhjmCircle 200 f d c x with
      | some v => pure (out v)
      | none => pure "none"
  | "circleHcyl" => do
      let r0 ← flt; let r ← flt; let z ← flt; let i0 ← flt
      match circleHcyl 200 r0 r z i0 with
      | some (a, b) => pure (outL [a, b])
      | none => pure "none"
  | "cylinder" => do
      let f ← field; let d ← flt; let h ← flt; let p ← v3; let x ← v3
      match bhjmCylinder 200 f (d, h) p x with
      | some v => pure (out v)
      | none => pure "none"
  | t => throw s!"unknown sym command {t}"

def step (line : String) : String :=
  match runLine (run.run' 0) line with
  | .error e => s!"parse-error {e}"
  | .ok s => s

end Driver.SymFam
