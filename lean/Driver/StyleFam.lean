/- driver family `style`: nested style dictionaries (C20) — magic_to_dict, linearize_dict, update_nested_dict,
   MagicProperties.update at dictionary level.
   tree grammar:  N | L <nat> | D <n> (<key> <tree>)^n      key:  s<chars> | i<int> -/
import MagpyVerif.Model.StyleNested
import Driver.Parse

namespace Driver.StyleFam
open MagpyVerif.StyleNested Driver

def key : P Key := do
  let t ← tok
  match t.toList with
  | 's' :: cs => pure (.str cs)
  | 'i' :: cs =>
    match (String.ofList cs).toInt? with
    | some i => pure (.int i)
    | none => throw s!"bad int key {t}"
  | _ => throw s!"bad key {t}"

partial def tree : P Tree := do
  match (← tok) with
  | "N" => pure (.leaf none)
  | "L" => pure (.leaf (some (← nat)))
  | "D" => do
      let n ← nat
      let kids ← many n (do let k ← key; let v ← tree; pure (k, v))
      pure (.node kids)
  | t => throw s!"bad tree token {t}"

def bool : P Bool := do pure ((← nat) != 0)
def sepChar : P Char := do pure (Char.ofNat (← nat))

def showKey : Key → String
  | .str s => "s" ++ String.ofList s
  | .int n => "i" ++ toString n

partial def showTree : Tree → String
  | .leaf none => "N"
  | .leaf (some n) => s!"L {n}"
  | .node kids => " ".intercalate (s!"D {kids.length}" :: kids.map fun kv => showKey kv.1 ++ " " ++ showTree kv.2)

def showFlat (f : FlatD) : String := showTree (.node (f.map fun kv => (kv.1, .leaf kv.2)))

def showErr : Err → String
  | .assertion => "err assertion"
  | .attribute => "err attribute"
  | .value => "err value"
  | .fuel => "err fuel"

def showRes (r : Except Err Tree) : String :=
  match r with
  | .ok t => "ok " ++ showTree t
  | .error e => showErr e

def run : P String := do
  match (← tok) with
  | "magic" => do
      let sep ← sepChar
      let t ← tree
      pure (showRes (magicToDict sep t))
  | "lin" => do
      let sep ← sepChar
      let t ← tree
      pure (match linearizeDict [sep] t with | .ok f => "ok " ++ showFlat f | .error e => showErr e)
  | "upd" => do
      let sko ← bool; let rno ← bool
      let d ← tree; let u ← tree
      pure (showRes (updateNested sko rno d u))
  | "share" => do
      let sko ← bool; let rno ← bool
      let d ← tree; let u ← tree
      let da := d.label 1
      let ua := u.label da.2
      pure (match updateNestedA sko rno da.1 ua.1 with
        | .ok r => " ".intercalate ("share" :: r.preorder.map toString)
        | .error e => showErr e)
  | "mp" => do
      let mt ← bool; let rno ← bool
      let schema ← tree; let cur ← tree
      let arg ← (do match (← tok) with
        | "-" => pure none
        | _ => pure (some (← tree)))
      let kw ← tree
      match kw with
      | .node kws => pure (showRes (mpUpdate schema cur arg kws mt rno))
      | .leaf _ => throw "kwargs must be a dict"
  | "resolve" => do
      let sep ← sepChar
      let obj ← tree; let kw ← tree; let dflt ← tree
      match kw, dflt with
      | .node kws, .node ds => pure (showRes (resolveNested sep obj kws ds))
      | _, _ => throw "kwargs and defaults must be dicts"
  | t => throw s!"unknown style command {t}"

def step (line : String) : String :=
  match runLine run line with
  | .error e => s!"parse-error {e}"
  | .ok s => s

end Driver.StyleFam
