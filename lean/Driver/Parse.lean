/- token parser shared by the driver families (core Lean only) -/
namespace Driver

abbrev P := StateT (List String) (Except String)

def tok : P String := do
  match (← get) with
  | [] => throw "unexpected end of line"
  | t :: ts => set ts; pure t

def int : P Int := do
  let t ← tok
  match t.toInt? with
  | some i => pure i
  | none => throw s!"not an int: {t}"

def nat : P Nat := do
  let i ← int
  if i < 0 then throw s!"negative: {i}" else pure i.toNat

def many {α} (n : Nat) (p : P α) : P (List α) := do
  let mut out : Array α := #[]
  for _ in [0:n] do
    out := out.push (← p)
  pure out.toList

def runLine {α} (p : P α) (line : String) : Except String α :=
  let toks := (line.splitOn " ").filter (· ≠ "")
  match p.run toks with
  | .ok (a, []) => .ok a
  | .ok (_, r) => .error s!"trailing tokens: {r}"
  | .error e => .error e

end Driver
