/- driver family `dict`: the functional interface getBH_dict_level2 (Model/DictIface.lean) on exact integer data -/
import MagpyVerif.Model.DictIface
import MagpyVerif.Gen.Ndim
import Driver.Parse
import Driver.PathFam

namespace Driver.DictFam
open MagpyVerif MagpyVerif.DictIface Driver Driver.PathFam

def arr : P (Arr Int) := do
  let nd ← nat
  let sh ← many nd nat
  let n ← nat
  let d ← many n int
  if Arr.prod sh != n then throw s!"array data does not fit shape {sh}"
  pure ⟨sh, d⟩

/-- `n <int>` number | `a <arr>` array | `s <k> <arr>*` list of arrays | `N` None | `E` [] / 0-d ndarray -/
def val : P (Val Int) := do
  match (← tok) with
  | "n" => pure (.num (← int))
  | "a" => pure (.arr (← arr))
  | "s" => do let k ← nat; pure (.seq (← many k arr))
  | "N" => pure .notSubscriptable
  | "E" => pure .emptyOrZeroDim
  | t => throw s!"bad value tag {t}"

def given {α} (p : P α) : P (Given α) := do
  match (← tok) with
  | "s" => pure (.single (← p))
  | "v" => do let k ← nat; pure (.stack (← many k p))
  | t => throw s!"bad given tag {t}"

/-- the class: `C <name>` looked up in the REGENERATED table Gen/Ndim.lean | `T <k> (key rank)*` a test class
registered by the harness with its own table -/
def registry : P (List (String × List (String × Nat)) × String) := do
  match (← tok) with
  | "C" => do pure (Gen.Ndim.table, ← tok)
  | "T" => do
      let k ← nat
      let t ← many k (do let key ← tok; let nd ← nat; pure (key, nd))
      pure (Gen.Ndim.table ++ [("VerifAffine", t)], "VerifAffine")
  | t => throw s!"bad class tag {t}"

/-- weights of one argument slice: (Σ (j+1)·d_j, Σ (j+1)²·d_j, Σ d_j) -/
def paramVec (d : List Int) : Vec :=
  let w := d.zipIdx
  ⟨(w.map fun (x, j) => ((j : Int) + 1) * x).foldl (· + ·) 0,
   (w.map fun (x, j) => ((j : Int) + 1) * ((j : Int) + 1) * x).foldl (· + ·) 0,
   d.foldl (· + ·) 0⟩

/-- the harness's field function: `A·x + b + Σ_k (k+1)·paramVec(arg_k[i])` -/
def fieldFn (A : Rot) (b : Vec) (ps : List (String × Arr Int)) (x : Vec) : Vec :=
  (ps.zipIdx).foldl (fun acc ((_, a), k) =>
      let pv := paramVec a.data
      let c : Int := (k : Int) + 1
      acc + ⟨c * pv.x, c * pv.y, c * pv.z⟩) (A • x + b)

def fmtArr (a : Arr Int) : String :=
  s!"{a.shape.length} {" ".intercalate (a.shape.map toString)} {a.data.length} {" ".intercalate (a.data.map toString)}"

def fmtConv : Conv Int → String
  | .arr a => s!"F {fmtArr a}"
  | .ragged rs => s!"O {rs.length} {" ".intercalate (rs.map fmtArr)}"

def fmtErr : CallErr → String
  | .badUserInput => "err BadUserInput"
  | .indexError => "err IndexError"
  | .valueError => "err ValueError"

/-- `dict <class> <squeeze> P <k> (key val)* O <given vec> X <given vec> R <given rot> F <rot> <vec>`
    (O observers, X position, R orientation, F the affine part of the field function) -/
def run : P String := do
  let (tables, cls) ← registry
  let squeeze := (← nat) != 0
  let _ ← tok
  let k ← nat
  let ps ← many k (do let key ← tok; let v ← val; pure (key, v))
  let _ ← tok
  let obs ← given vec
  let _ ← tok
  let pos ← given vec
  let _ ← tok
  let ori ← given rot
  let _ ← tok
  let A ← rot
  let b ← vec
  let c : Call Rot Vec Int := { params := ps, observers := obs, position := pos, orientation := ori, squeeze := squeeze }
  match call tables cls (fieldFn A b) c with
  | .error e => pure (fmtErr e)
  | .ok out =>
    -- `call` succeeded, so the lookup and `marshal` did: print what the field function received as well
    match tables.lookup cls with
    | none => pure "err Internal"
    | some table =>
      match marshal table c with
      | .error _ => pure "err Internal"
      | .ok m =>
        let args := " ; ".intercalate (m.args.map fun (key, cv) => s!"{key} {fmtConv cv}")
        let loc := " ".intercalate ((localObs m).map fmtV)
        let sh := " ".intercalate ((out.shape ++ [3]).map toString)
        pure s!"ok n {m.n} shape {sh} | {args} | {loc} | {" ".intercalate (out.data.map fmtV)}"

def step (line : String) : String :=
  match runLine run line with
  | .error e => s!"parse-error {e}"
  | .ok s => s

end Driver.DictFam
