/- driver family `path`: C09/C10 histories over exact data (V3 Int, signed-permutation M3 Int) -/
import MagpyVerif.Model.Tree
import MagpyVerif.Model.Angax
import MagpyVerif.Model.History
import MagpyVerif.Model.Level2
import Driver.KernFam
import Driver.Parse

namespace Driver.PathFam
open MagpyVerif Driver

abbrev Vec := V3 Int
abbrev Rot := M3 Int
abbrev Tree := Node Rot Vec

def vec : P Vec := do pure ⟨← int, ← int, ← int⟩
def rot : P Rot := do pure ⟨← vec, ← vec, ← vec⟩

def pathIn {α} (p : P α) : P (PathIn α) := do
  match (← tok) with
  | "s" => pure (.scalar (← p))
  | "v" => do let n ← nat; pure (.vector (← many n p))
  | t => throw s!"bad pathIn tag {t}"

def start : P (Option Int) := do
  match (← tok) with
  | "a" => pure none
  | "i" => pure (some (← int))
  | t => throw s!"bad start tag {t}"

def anchor : P (Option (PathIn Vec)) := do
  match (← tok) with
  | "n" => pure none
  | "s" => pure (some (.scalar (← vec)))
  | "v" => do let n ← nat; pure (some (.vector (← many n vec)))
  | t => throw s!"bad anchor tag {t}"

def addr : P (List Nat) := do let k ← nat; many k nat

/-- preorder child counts -/
partial def shape : P Tree := do
  let k ← nat
  let cs ← many k shape
  pure (.mk { pos := [(0 : Vec)], ori := [(1 : Rot)] } cs)

def fmtV (v : Vec) : String := s!"{v.x} {v.y} {v.z}"
def fmtR (m : Rot) : String := s!"{fmtV m.r1} {fmtV m.r2} {fmtV m.r3}"

partial def dump : Tree → String
  | .mk o cs =>
    let p := " ".intercalate (o.pos.map fmtV)
    let q := " ".intercalate (o.ori.map fmtR)
    let me := s!"P {o.pos.length} {p} O {o.ori.length} {q}"
    " | ".intercalate (me :: cs.map dump)

inductive Cmd where
  | new (t : Tree)
  | op (o : HOp Float Rot Vec)
  | unsnappable
  /-- own-sensor reading of the current tree: sources (address, affine field function `A x + b`), sensor address,
  handedness, pixels -/
  | read (srcs : List (List Nat × Rot × Vec)) (kaddr : List Nat) (left : Bool) (pixels : List Vec)

/-! `rotate_from_angax`: the conversion (Model/Angax.lean) runs in IEEE double; scipy's `from_rotvec`
is replaced by Rodrigues' matrix snapped to the integer grid (the harness snaps scipy's result in the
same way); a matrix farther than 1e-9 from the grid makes the line `unsnappable`. -/

def snapEntry (e : Float) : Option Int :=
  let r := e.round
  if (e - r).abs > 1e-9 then none else some r.toInt64.toInt

def snapV (v : V3 Float) : Option Vec := do pure ⟨← snapEntry v.x, ← snapEntry v.y, ← snapEntry v.z⟩
def snapM (m : M3 Float) : Option Rot := do pure ⟨← snapV m.r1, ← snapV m.r2, ← snapV m.r3⟩

def fromRotvecSnap (v : V3 Float) : Rot := (snapM (Angax.rotvecMatrix v)).getD 1

def axisIn : P (Angax.AxisIn Float) := do
  match (← tok) with
  | "str" => pure (.str (← tok))
  | "vec" => pure (.vec (← KernFam.v3))
  | t => throw s!"bad axis tag {t}"

/-! the six `rotate_from_*` entry points (Model/RotFrom.lean): the raw arguments travel as bit patterns, the
model classifies scalar / vector input and converts; each scipy constructor for ONE parameter set is replaced by
its closed form evaluated in IEEE double and snapped to the integer grid (the harness snaps scipy's result the
same way). -/

def snapOr1 (m : M3 Float) : Rot := (snapM m).getD 1

def driverScipy : RotFrom.Scipy Float Rot where
  fromRotvec := fromRotvecSnap
  fromQuat q := (RotFrom.quatMatrix q).map snapOr1
  fromMrp m := match RotFrom.quatMatrix (RotFrom.mrpQuat m) with
    | some M => snapOr1 M
    | none => 1
  fromMatrix M := if RotFrom.det3 M ≤ 0 then none else some (snapOr1 M)

def m3f : P (M3 Float) := do pure ⟨← KernFam.v3, ← KernFam.v3, ← KernFam.v3⟩
def q4f : P (RotFrom.Q4 Float) := do pure ⟨← KernFam.flt, ← KernFam.flt, ← KernFam.flt, ← KernFam.flt⟩

def eulerIn : P (RotFrom.EulerIn Float) := do
  match (← tok) with
  | "num" => pure (.num (← KernFam.flt))
  | "arr1" => do let k ← nat; pure (.arr1 (← many k KernFam.flt))
  | "arr2" => do
      let k ← nat; let w ← nat
      pure (.arr2 (← many k (many w KernFam.flt)))
  | t => throw s!"bad euler tag {t}"

def seqTok : P String := do
  let t ← tok
  pure (if t = "EMPTY" then "" else t)

def entry : P (RotFrom.Entry Float) := do
  match (← tok) with
  | "angax" => do
      let ang ← pathIn KernFam.flt; let ax ← axisIn; let deg ← nat
      pure (.angax ang ax (deg != 0))
  | "rotvec" => do
      let rv ← pathIn KernFam.v3; let deg ← nat
      pure (.rotvec rv (deg != 0))
  | "euler" => do
      let a ← eulerIn; let sq ← seqTok; let deg ← nat
      pure (.euler a sq (deg != 0))
  | "matrix" => do pure (.matrix (← pathIn m3f))
  | "mrp" => do pure (.mrp (← pathIn KernFam.v3))
  | "quat" => do pure (.quat (← pathIn q4f))
  | t => throw s!"bad entry tag {t}"

/-- a subtree with explicit paths, preorder: `k P n v.. O n r..` followed by the `k` children -/
partial def subtree : P Tree := do
  let k ← nat
  let _ ← tok; let np ← nat; let ps ← many np vec
  let _ ← tok; let no ← nat; let qs ← many no rot
  let cs ← many k subtree
  pure (.mk { pos := ps, ori := qs } cs)

def cmd : P Cmd := do
  match (← tok) with
  | "new" => pure (.new (← shape))
  | "move" => do
      let a ← addr; let i ← pathIn vec; let s ← start
      pure (.op (.base (.move a i s)))
  | "rot" => do
      let a ← addr; let r ← pathIn rot; let an ← anchor; let s ← start
      pure (.op (.base (.rotate a r an s)))
  | "setpos" => do
      let a ← addr; let n ← nat; let xs ← many n vec
      pure (.op (.base (.setPos a xs)))
  | "setori" => do
      let a ← addr; let n ← nat; let xs ← many n rot
      pure (.op (.base (.setOri a xs)))
  | "reset" => do
      let a ← addr
      pure (.op (.base (.reset a)))
  | "angax" => do
      let a ← addr; let ang ← pathIn KernFam.flt; let ax ← axisIn; let deg ← nat; let an ← anchor; let s ← start
      match Angax.angaxRotvecs ang ax (deg != 0) with
      | .ok rv => if rv.toList.any (fun v => (snapM (Angax.rotvecMatrix v)).isNone) then pure .unsnappable
                  else pure (.op (.rotFrom a (.angax ang ax (deg != 0)) an s))
      | .error _ => pure (.op (.rotFrom a (.angax ang ax (deg != 0)) an s))
  | "rotfrom" => do
      let a ← addr; let e ← entry; let an ← anchor; let s ← start
      pure (.op (.rotFrom a e an s))
  | "add" => do
      let a ← addr; let c ← subtree
      pure (.op (.add a c))
  | "remove" => do
      let a ← addr; let j ← nat
      pure (.op (.remove a j))
  | "bad" => pure (.op (.base .rejected))
  | "read" => do
      let ns ← nat
      let srcs ← many ns (do let a ← addr; let m ← rot; let b ← vec; pure (a, m, b))
      let ka ← addr
      let left ← nat
      let np ← nat
      let px ← many np vec
      pure (.read srcs ka (left != 0) px)
  | t => throw s!"unknown path command {t}"

def step (st : Option Tree) (line : String) : Option Tree × String :=
  match runLine cmd line with
  | .error e => (st, s!"parse-error {e}")
  | .ok (.new t) => (some t, s!"ok {dump t}")
  | .ok .unsnappable => (st, "unsnappable")
  | .ok (.read srcs ka left px) => match st with
      | some t =>
        let flipX : Vec → Vec := V3.flipX
        match t.ownTensor flipX (srcs.map fun s => (s.1, fun x => s.2.1 • x + s.2.2)) ka px [px.length] left with
        | some B => (st, s!"read {B.length} | " ++ " | ".intercalate (B.map fun row => " ".intercalate (row.map fmtV)))
        | none => (st, "read no-such-address")
      | none => (st, "no-tree")
  | .ok (.op o) => match st with
      | some t =>
        let t' := t.hstep driverScipy o
        let tag := match o with
          | .base .rejected => "err"
          | .rotFrom _ e _ _ => (match RotFrom.toRot driverScipy e with | .error _ => "err" | .ok _ => "ok")
          | _ => "ok"
        (some t', s!"{tag} {dump t'}")
      | none => (st, "no-tree")

end Driver.PathFam
