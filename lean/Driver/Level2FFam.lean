/- driver family `level2f`: the post-processing of getBH_level2 with pixel_agg as ANY numpy reduction
(`Model/Level2.getBHF` / `dataframeF` with `Model/PixelAgg.byName`), the same polymorphic model evaluated at
`M3 Float` / `V3 Float` (the scenes are the integer scenes of the `level2` family: integers and the octahedral
matrices are exact in double, so only `mean / median / std` introduce rounding).  Floats leave as bit patterns. -/
import MagpyVerif.Model.Level2
import MagpyVerif.Model.PixelAgg
import Driver.Parse
import Driver.PathFam
import Driver.KernFam

namespace Driver.Level2FFam
open MagpyVerif MagpyVerif.Level2 Driver Driver.PathFam

abbrev VF := V3 Float
abbrev RF := M3 Float

def toF (v : Vec) : VF := ⟨Float.ofInt v.x, Float.ofInt v.y, Float.ofInt v.z⟩
def toRF (m : Rot) : RF := ⟨toF m.r1, toF m.r2, toF m.r3⟩

def bool : P Bool := do pure ((← nat) != 0)
def pose : P (VF × RF) := do let p ← vec; let r ← rot; pure (toF p, toRF r)

partial def entry (fs : Array (RF × VF)) : P (Entry RF VF) := do
  match (← tok) with
  | "L" => do
      let key ← nat
      let n ← nat
      let ps ← many n pose
      let (a, b) := fs.getD key (1, 0)
      pure (.leaf { pos := ps.map (·.1), ori := ps.map (·.2), F := fun x => a • x + b })
  | "C" => do
      let k ← nat
      pure (.coll (← many k (entry fs)))
  | t => throw s!"bad entry tag {t}"

def sens : P (Sens RF VF) := do
  let n ← nat
  let ps ← many n pose
  let left ← bool
  let nd ← nat
  let dims ← many nd nat
  let npix ← nat
  let px ← many npix vec
  pure { pos := ps.map (·.1), ori := ps.map (·.2), pixels := px.map toF, pixShape := dims, left := left }

def flipX (a : VF) : VF := V3.flipX a

def scene : P (List (Entry RF VF) × List (Sens RF VF)) := do
  let _ ← tok -- "F"
  let nf ← nat
  let fs ← many nf (do let m ← rot; let b ← vec; pure (toRF m, toF b))
  let _ ← tok -- "S"
  let ne ← nat
  let es ← many ne (entry fs.toArray)
  let _ ← tok -- "K"
  let nk ← nat
  let ks ← many nk sens
  pure (es, ks)

def fmtErr : Err → String
  | .badUserInput => "err BadUserInput"
  | .missingInput => "err MissingInput"

def fmtSrcId : SrcId → String
  | .sumup n => s!"U{n}"
  | .src i => s!"S{i}"

def fmtVF (v : VF) : String := s!"{v.x.toBits} {v.y.toBits} {v.z.toBits}"

/-- `level2f <sumup> <squeeze> <agg name> scene` | `level2f df <sumup> <agg name> scene` -/
def run : P String := do
  let t ← tok
  if t == "df" then
    let sumup ← bool
    let name ← tok
    let (es, ks) ← scene
    match PixelAgg.byName (α := Float) name with
    | none => pure "err Foreign(AttributeError)"
    | some a =>
    match dataframeF flipX es ks sumup a with
    | .error e => pure (fmtErr e)
    | .ok df =>
      if df.index.length != df.values.length then
        pure s!"err LengthMismatch {df.index.length} {df.values.length}"
      else
        let rows := (dataframeRows df).map fun ((s, m, k, p), v) => s!"{fmtSrcId s} {m} {k} {p} {fmtVF v}"
        pure s!"ok df {rows.length} | {" ; ".intercalate rows}"
  else
  let sumup ← (match t.toNat? with
    | some n => pure (n != 0)
    | none => throw s!"not a flag: {t}")
  let squeeze ← bool
  let name ← tok
  let (es, ks) ← scene
  match PixelAgg.byName (α := Float) name with
  | none => pure "err Foreign(AttributeError)"
  | some a =>
  match getBHF flipX es ks sumup squeeze a with
  | .error e => pure (fmtErr e)
  | .ok o =>
    let sh := " ".intercalate ((o.shape ++ [3]).map toString)
    let d := " ".intercalate (o.data.map fmtVF)
    pure s!"ok shape {sh} | {d}"

def step (line : String) : String :=
  match runLine run line with
  | .error e => s!"parse-error {e}"
  | .ok s => s

end Driver.Level2FFam
