/- driver family `seff`: `get_style` on the state machine (C20, Model/StyleEffective.lean): a history as in `sstate`
   (executed by Model/StyleState.lean on the regenerated class structure), then the effective style of object `j`.
   line:  hist <n> <cls>^n <m> <op>^m Q <j> <object class name> <style kwargs tree>
   out:   ok <as_dict() of the resolved style> # <as_dict(flatten=True, separator="_")>   |   err <kind>
   The families are looked up in the regenerated table `Gen.StyleSchema.families` by the object class name. -/
import MagpyVerif.Model.StyleEffective
import Driver.StyleStateFam

namespace Driver.StyleEffFam
open MagpyVerif.StyleNested MagpyVerif.StyleState MagpyVerif.StyleEffective Driver Driver.StyleFam Driver.StyleStateFam

def run : P String := do
  match (← tok) with
  | "hist" => do
      let n ← nat
      let cls ← many n nat
      let m ← nat
      let ops ← many m op
      match (← tok) with
      | "Q" => do
          let j ← nat
          let name ← tok
          let kw ← tree
          let T := MagpyVerif.Gen.StyleSchema.tables
          let Cs := MagpyVerif.Gen.StyleSchema.classes
          let D := MagpyVerif.Gen.StyleSchema.defaults
          let w := exec T Cs D (initWorld T Cs D cls) ops
          match kw with
          | .leaf _ => throw "kwargs must be a dict"
          | .node kws =>
            match getStyleW w j (familiesOf name) kws with
            | .ok t => pure ("ok " ++ showTree (.node t) ++ " # " ++ showFlat (flatDict t))
            | .error e => pure ("err " ++ showKind e)
      | t => throw s!"expected Q, got {t}"
  | t => throw s!"unknown seff command {t}"

def step (line : String) : String :=
  match runLine run line with
  | .error e => s!"parse-error {e}"
  | .ok s => s

end Driver.StyleEffFam
