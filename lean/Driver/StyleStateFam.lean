/- driver family `sstate`: histories of operations on `magpylib.defaults` and on the styles of n objects (C20),
   executed by Model/StyleState.lean on the regenerated class structure Gen/StyleSchema.lean.
   line:  hist <n> <cls>^n <m> <op>^m
   op:    U <i> <path> (- | A <tree>) <kwargs tree> <match> <rno>   |  S <i> <path> <key> <tree>  |  R  |  RS
          |  Y <i> <tree>  |  YO <i> <j>  |  G <i> <path>            path: <len> <key>^len
   out:   per op `<outcome> @ <tree of the object touched>` joined by ` ; `, then ` || ` and the final trees -/
import MagpyVerif.Model.StyleState
import MagpyVerif.Gen.StyleSchema
import Driver.StyleFam

namespace Driver.StyleStateFam
open MagpyVerif.StyleNested MagpyVerif.StyleState Driver Driver.StyleFam

def path : P (List Key) := do
  let n ← nat
  many n key

def op : P Op := do
  match (← tok) with
  | "U" => do
      let i ← nat
      let p ← path
      let arg ← (do match (← tok) with
        | "-" => pure none
        | _ => pure (some (← tree)))
      let kw ← tree
      let mt ← StyleFam.bool
      let rno ← StyleFam.bool
      match kw with
      | .node kws => pure (.update i p arg kws mt rno)
      | .leaf _ => throw "kwargs must be a dict"
  | "S" => do
      let i ← nat
      let p ← path
      let k ← key
      let v ← tree
      pure (.setattr i p k v)
  | "R" => pure .reset
  | "RS" => pure .resetStyle
  | "Y" => do
      let i ← nat
      let v ← tree
      pure (.setStyle i v)
  | "YO" => do
      let i ← nat
      let j ← nat
      pure (.setStyleObj i j)
  | "G" => do
      let i ← nat
      let p ← path
      pure (.read i p)
  | t => throw s!"unknown op {t}"

def showKind : Kind → String
  | .assertion => "assertion"
  | .attribute => "attribute"
  | .value => "value"
  | .type => "type"
  | .other => "other"
  | .shadow => "shadow"
  | .fuel => "fuel"

def showOut : Out → String
  | .ok => "ok"
  | .err e => "err " ++ showKind e
  | .val t => "val " ++ showTree t

def objTree (w : World) (i : Nat) : String :=
  match w[i]? with
  | some o => showTree (.node o.tree)
  | none => "-"

def run : P String := do
  match (← tok) with
  | "hist" => do
      let n ← nat
      let cls ← many n nat
      let m ← nat
      let ops ← many m op
      let T := MagpyVerif.Gen.StyleSchema.tables
      let Cs := MagpyVerif.Gen.StyleSchema.classes
      let D := MagpyVerif.Gen.StyleSchema.defaults
      let mut w := initWorld T Cs D cls
      let mut outs : Array String := #[]
      for o in ops do
        let r := step T Cs D w o
        w := r.1
        outs := outs.push (showOut r.2 ++ " @ " ++ objTree w o.target)
      pure (" ; ".intercalate outs.toList ++ " || " ++ " | ".intercalate ((List.range w.length).map (objTree w)))
  | "init" => do
      let n ← nat
      let cls ← many n nat
      let w := initWorld MagpyVerif.Gen.StyleSchema.tables MagpyVerif.Gen.StyleSchema.classes MagpyVerif.Gen.StyleSchema.defaults cls
      pure (" | ".intercalate ((List.range w.length).map (objTree w)))
  | t => throw s!"unknown sstate command {t}"

def step (line : String) : String :=
  match runLine run line with
  | .error e => s!"parse-error {e}"
  | .ok s => s

end Driver.StyleStateFam
