/- driver family `trimesh`: the row-grouping loop of BHJM_magnet_trimesh on abstract rows
   (mesh id, core value, polarization value as integers; the inside test as a truth table mesh × row) -/
import MagpyVerif.Model.TrimeshBatch
import MagpyVerif.Model.TrimeshSum
import MagpyVerif.Model.TrimeshInside
import MagpyVerif.Model.MeshPipeline
import Driver.KernFam
import Driver.MeshIntersectFam

namespace Driver.TrimeshFam
open MagpyVerif MagpyVerif.Trimesh MagpyVerif.Kern Driver Driver.KernFam

def run : P String := do
  match (← tok) with
  | "addinside" => do
      let n ← nat
      let k ← nat
      -- rows: mesh id, core, pol; the observer of row i is represented by its index i
      let rows ← many n (do
        let m ← nat; let c ← int; let p ← int
        pure (m, c, p))
      let bits ← many (k * n) nat
      let rs : List (Row Nat Nat Int) := rows.zipIdx.map fun ((m, c, p), i) => { mesh := m, obs := i, pol := p, core := c }
      let inside (m : Nat) (i : Nat) : Bool := bits.getD (m * n + i) 0 == 1
      pure ("addinside " ++ " ".intercalate ((addInside inside rs).map toString))
  | "batch" => do
      -- the whole BHJM_magnet_trimesh in IEEE double: field, n rows (mesh id, faces, observer, polarization), K x n inside bits
      let f ← field
      let n ← nat
      let k ← nat
      let rows ← many n (do
        let m ← nat
        let nf ← nat
        let fs ← many nf (do pure ((← v3), (← v3), (← v3)))
        let o ← v3
        let p ← v3
        pure (m, ({ faces := fs, obs := o, pol := p } : MeshRow Float)))
      let bits ← many (k * n) nat
      let rs := rows.map (·.2)
      -- observers are identified by their row index through the bit table: look the row up by its position
      let idOf (r : MeshRow Float) : Nat := ((rows.zipIdx.find? fun ((_, r'), _) => r'.obs.x.toBits == r.obs.x.toBits && r'.obs.y.toBits == r.obs.y.toBits && r'.obs.z.toBits == r.obs.z.toBits).map (·.2)).getD 0
      let meshOf (r : MeshRow Float) : Nat := (rows.getD (idOf r) (0, r)).1
      let insideFn (m : Nat) (o : V3 Float) : Bool :=
        let i := ((rows.zipIdx.find? fun ((_, r'), _) => r'.obs.x.toBits == o.x.toBits && r'.obs.y.toBits == o.y.toBits && r'.obs.z.toBits == o.z.toBits).map (·.2)).getD 0
        bits.getD (m * n + i) 0 == 1
      pure (" ".intercalate ((bhjmTrimesh f meshOf insideFn rs).map out))
  | "batchio" => do
      -- `batch` with the keyword in_out as getBH_level1 passes it (Model/InOut.lean)
      let io ← inout
      -- the whole BHJM_magnet_trimesh in IEEE double: field, n rows (mesh id, faces, observer, polarization), K x n inside bits
      let f ← field
      let n ← nat
      let k ← nat
      let rows ← many n (do
        let m ← nat
        let nf ← nat
        let fs ← many nf (do pure ((← v3), (← v3), (← v3)))
        let o ← v3
        let p ← v3
        pure (m, ({ faces := fs, obs := o, pol := p } : MeshRow Float)))
      let bits ← many (k * n) nat
      let rs := rows.map (·.2)
      -- observers are identified by their row index through the bit table: look the row up by its position
      let idOf (r : MeshRow Float) : Nat := ((rows.zipIdx.find? fun ((_, r'), _) => r'.obs.x.toBits == r.obs.x.toBits && r'.obs.y.toBits == r.obs.y.toBits && r'.obs.z.toBits == r.obs.z.toBits).map (·.2)).getD 0
      let meshOf (r : MeshRow Float) : Nat := (rows.getD (idOf r) (0, r)).1
      let insideFn (m : Nat) (o : V3 Float) : Bool :=
        let i := ((rows.zipIdx.find? fun ((_, r'), _) => r'.obs.x.toBits == o.x.toBits && r'.obs.y.toBits == o.y.toBits && r'.obs.z.toBits == o.z.toBits).map (·.2)).getD 0
        bits.getD (m * n + i) 0 == 1
      pure (match trimeshL1 io f meshOf insideFn rs with | some vs => " ".intercalate (vs.map out) | none => "unmodelled")
  | "inside" => do
      -- mask_inside_trimesh for one observer in IEEE double: <nfaces> <faces…> <x>
      let nf ← nat
      let fs ← many nf (do pure ((← v3), (← v3), (← v3)))
      let x ← v3
      pure s!"{maskInsideTrimesh fs x}"
  | "box" => do
      -- mask_inside_enclosing_box for one observer (vertices = all face corners)
      let nf ← nat
      let fs ← many nf (do pure ((← v3), (← v3), (← v3)))
      let x ← v3
      pure s!"{insideEnclosingBox fs x}"
  | "lines" => do
      -- lines_end_in_trimesh for one line: <nfaces> <faces…> <l0> <l1>
      let nf ← nat
      let fs ← many nf (do pure ((← v3), (← v3), (← v3)))
      let l0 ← v3
      let l1 ← v3
      pure s!"{linesEndInTrimesh l0 l1 fs}"
  | "inwards" => do
      -- is_facet_inwards: <face> <nfaces> <faces…>
      let f ← (do pure ((← v3), (← v3), (← v3)))
      let nf ← nat
      let fs ← many nf (do pure ((← v3), (← v3), (← v3)))
      pure s!"{isFacetInwards f fs}"
  | "start" => do
      -- the start point outside that mask_inside_trimesh hands to lines_end_in_trimesh: <nfaces> <faces…>
      let nf ← nat
      let fs ← many nf (do pure ((← v3), (← v3), (← v3)))
      pure (out (startPointOutside (meshVerts fs)))
  | "reorient" => do
      -- fix_trimesh_orientation + vertices[faces] in IEEE double: <nverts> <verts…> <nfaces> <faces…>
      let nv ← nat
      let vs ← many nv v3
      let nf ← nat
      let fs ← many nf (do pure (← nat, ← nat, ← nat))
      let m := getInwardsMask vs fs
      let fixed := fixTrimeshOrientation vs fs
      let msh := reorientedMesh vs fs
      pure ("reorient mask " ++ String.join (m.map fun b => if b then "1" else "0") ++ " faces " ++
        " ".intercalate (fixed.map fun f => s!"{f.1},{f.2.1},{f.2.2}") ++ " mesh " ++
        " ".intercalate (msh.map fun t => s!"{out t.1} {out t.2.1} {out t.2.2}"))
  | "meshfield" => do
      -- the whole chain for one observer: <field> <nverts> <verts…> <nfaces> <faces…> <pol> <obs>:
      -- reorientation, vertices[faces], BHJM_magnet_trimesh (one row) with the modelled inside test
      let f ← field
      let nv ← nat
      let vs ← many nv v3
      let nf ← nat
      let fs ← many nf (do pure (← nat, ← nat, ← nat))
      let p ← v3
      let o ← v3
      let msh := reorientedMesh vs fs
      let row : MeshRow Float := { faces := msh, obs := o, pol := p }
      let r := bhjmTrimesh f (fun _ => (0 : Nat)) (fun _ x => maskInsideTrimesh msh x) [row]
      pure (s!"{maskInsideTrimesh msh o} " ++ " ".intercalate (r.map out))
  | "segfacet" => MeshIntersectFam.segfacet
  | "selfint" => MeshIntersectFam.selfint
  | t => throw s!"unknown trimesh command {t}"

def step (line : String) : String :=
  match runLine run line with
  | .error e => s!"parse-error {e}"
  | .ok s => s

end Driver.TrimeshFam
