/- driver family `trimesh`: the row-grouping loop of BHJM_magnet_trimesh on abstract rows
   (mesh id, core value, polarization value as integers; the inside test as a truth table mesh × row) -/
import MagpyVerif.Model.TrimeshBatch
import Driver.Parse

namespace Driver.TrimeshFam
open MagpyVerif.Trimesh Driver

def run : P String := do
  match (← tok) with
  | "addinside" => do
      let n ← nat
      let k ← nat
      -- rows: mesh id, core, pol; the observer of row i is represented by its index i
      let rows ← many n (do
        let m ← nat; let c ← int; let p ← int
        pure (m, c, p))
      let bits ← many (k * n) nat
      let rs : List (Row Nat Nat Int) := rows.zipIdx.map fun ((m, c, p), i) => { mesh := m, obs := i, pol := p, core := c }
      let inside (m : Nat) (i : Nat) : Bool := bits.getD (m * n + i) 0 == 1
      pure ("addinside " ++ " ".intercalate ((addInside inside rs).map toString))
  | t => throw s!"unknown trimesh command {t}"

def step (line : String) : String :=
  match runLine run line with
  | .error e => s!"parse-error {e}"
  | .ok s => s

end Driver.TrimeshFam
