/- driver family `disp` (C19): displayed path indices and the local model generators' tables -/
import MagpyVerif.Model.Display
import MagpyVerif.Model.DisplayTrig
import Driver.KernFam
import Driver.Parse

namespace Driver.DispFam
open MagpyVerif.Display Driver

def ints (l : List Int) : String := " ".intercalate (l.map toString)
def nats (l : List Nat) : String := " ".intercalate (l.map toString)

def errName : Err → String
  | .valueError => "ValueError"
  | .indexError => "IndexError"

def i3 : P I3 := do pure (← int, ← int, ← int)

def showPath : P ShowPath := do
  match (← tok) with
  | "none" => pure .none
  | "true" => pure (.bool true)
  | "false" => pure (.bool false)
  | "int" => do pure (.int (← int))
  | "list" => do
      let m ← nat
      pure (.list (← many m int))
  | "other" => pure .other
  | t => throw s!"unknown show_path kind {t}"

def ijk (r : Except Err (List Nat × List Nat × List Nat)) : String :=
  match r with
  | .error e => "err " ++ errName e
  | .ok (i, j, k) => s!"ok {nats i} ; {nats j} ; {nats k}"

/-- `int(x)` of a non-negative finite double -/
instance : MagpyVerif.DisplayTrig.FloorNat Float where
  floorNat x := x.floor.toUInt64.toNat

open MagpyVerif.DisplayTrig in
/-- coordinate rows (IEEE double, bit patterns): `ok <x…> ; <y…> ; <z…>` -/
def verts (l : List (MagpyVerif.V3 Float)) : String :=
  let f (g : MagpyVerif.V3 Float → Float) := " ".intercalate (l.map fun v => toString (g v).toBits)
  s!"ok {f (·.x)} ; {f (·.y)} ; {f (·.z)}"

open MagpyVerif.DisplayTrig KernFam in
def runTrig (cmd : String) : P String := do
  match cmd with
  | "prismv" => do let N ← nat; let d ← flt; let h ← flt; pure (verts (prismVerts N d h))
  | "pyrv" => do
      let N ← nat; let d ← flt; let h ← flt
      let p ← match (← tok) with
        | "tail" => pure Pivot.tail
        | "tip" => pure Pivot.tip
        | "middle" => pure Pivot.middle
        | t => throw s!"bad pivot {t}"
      pure (verts (pyramidVerts N d h p))
  | "segv" => do
      let vert ← nat; let r1 ← flt; let r2 ← flt; let h ← flt; let p1 ← flt; let p2 ← flt
      pure (verts (segVerts vert r1 r2 h p1 p2))
  | "ellv" => do
      let N ← nat; let a ← flt; let b ← flt; let c ← flt
      match ellipsoid N a b c with
      | .error e => pure ("err " ++ errName e)
      | .ok l => pure (verts l)
  | "circ" => do let N ← nat; let d ← flt; pure (verts (circleTrace N d))
  | "polyl" => do
      let m ← nat
      let vs ← many m KernFam.v3
      let (x, y, z) := polylineTrace vs
      let f (l : List Float) := " ".intercalate (l.map fun v => toString v.toBits)
      pure s!"ok {f x} ; {f y} ; {f z}"
  | t => throw s!"unknown disp command {t}"

def run : P String := do
  match (← tok) with
  | "inds" => do
      let n ← nat
      let sp ← showPath
      match getRotPosInds n sp with
      | .error e => pure ("err " ++ errName e)
      | .ok (inds, rows) => pure s!"ok {ints inds} | {nats rows}"
  | "cuboid" => do
      let dim ← i3
      let hasPos ← nat
      let pos ← if hasPos = 0 then pure none else (do pure (some (← i3)))
      let c := cuboidCoords2 dim pos
      pure s!"ok {ints c.1} ; {ints c.2.1} ; {ints c.2.2} ; {nats cuboidI} ; {nats cuboidJ} ; {nats cuboidK}"
  | "tetra" => do
      let p0 ← i3
      let p1 ← i3
      let p2 ← i3
      let p3 ← i3
      let pts := tetraPoints (p0, p1, p2, p3)
      let t := tetraTriangles
      pure s!"ok {ints (pts.map (·.1))} ; {ints (pts.map (·.2.1))} ; {ints (pts.map (·.2.2))} ; {nats (t.map (·.1))} ; {nats (t.map (·.2.1))} ; {nats (t.map (·.2.2))}"
  | "prism" => do pure (ijk (prismIJK (← nat)))
  | "pyramid" => do pure (ijk (pyramidIJK (← nat)))
  | t => runTrig t

def step (line : String) : String :=
  match runLine run line with
  | .error e => s!"parse-error {e}"
  | .ok s => s

end Driver.DispFam
