/- driver family `disp` (C19): displayed path indices and the local model generators' tables -/
import MagpyVerif.Model.Display
import Driver.Parse

namespace Driver.DispFam
open MagpyVerif.Display Driver

def ints (l : List Int) : String := " ".intercalate (l.map toString)
def nats (l : List Nat) : String := " ".intercalate (l.map toString)

def errName : Err → String
  | .valueError => "ValueError"
  | .indexError => "IndexError"

def i3 : P I3 := do pure (← int, ← int, ← int)

def showPath : P ShowPath := do
  match (← tok) with
  | "none" => pure .none
  | "true" => pure (.bool true)
  | "false" => pure (.bool false)
  | "int" => do pure (.int (← int))
  | "list" => do
      let m ← nat
      pure (.list (← many m int))
  | "other" => pure .other
  | t => throw s!"unknown show_path kind {t}"

def ijk (r : Except Err (List Nat × List Nat × List Nat)) : String :=
  match r with
  | .error e => "err " ++ errName e
  | .ok (i, j, k) => s!"ok {nats i} ; {nats j} ; {nats k}"

def run : P String := do
  match (← tok) with
  | "inds" => do
      let n ← nat
      let sp ← showPath
      match getRotPosInds n sp with
      | .error e => pure ("err " ++ errName e)
      | .ok (inds, rows) => pure s!"ok {ints inds} | {nats rows}"
  | "cuboid" => do
      let dim ← i3
      let hasPos ← nat
      let pos ← if hasPos = 0 then pure none else (do pure (some (← i3)))
      let c := cuboidCoords2 dim pos
      pure s!"ok {ints c.1} ; {ints c.2.1} ; {ints c.2.2} ; {nats cuboidI} ; {nats cuboidJ} ; {nats cuboidK}"
  | "tetra" => do
      let p0 ← i3
      let p1 ← i3
      let p2 ← i3
      let p3 ← i3
      let pts := tetraPoints (p0, p1, p2, p3)
      let t := tetraTriangles
      pure s!"ok {ints (pts.map (·.1))} ; {ints (pts.map (·.2.1))} ; {ints (pts.map (·.2.2))} ; {nats (t.map (·.1))} ; {nats (t.map (·.2.1))} ; {nats (t.map (·.2.2))}"
  | "prism" => do pure (ijk (prismIJK (← nat)))
  | "pyramid" => do pure (ijk (pyramidIJK (← nat)))
  | t => throw s!"unknown disp command {t}"

def step (line : String) : String :=
  match runLine run line with
  | .error e => s!"parse-error {e}"
  | .ok s => s

end Driver.DispFam
