/- driver family `disp` (C19): displayed path indices and the local model generators' tables -/
import MagpyVerif.Model.Display
import MagpyVerif.Model.DisplayTrig
import MagpyVerif.Model.DisplayIdx
import MagpyVerif.Model.DisplayGroup
import MagpyVerif.Model.DisplayArrow
import Driver.KernFam
import Driver.Parse

namespace Driver.DispFam
open MagpyVerif.Display Driver

def ints (l : List Int) : String := " ".intercalate (l.map toString)
def nats (l : List Nat) : String := " ".intercalate (l.map toString)

def errName : Err → String
  | .valueError => "ValueError"
  | .indexError => "IndexError"

def i3 : P I3 := do pure (← int, ← int, ← int)

def showPath : P ShowPath := do
  match (← tok) with
  | "none" => pure .none
  | "true" => pure (.bool true)
  | "false" => pure (.bool false)
  | "int" => do pure (.int (← int))
  | "list" => do
      let m ← nat
      pure (.list (← many m int))
  | "other" => pure .other
  | t => throw s!"unknown show_path kind {t}"

def ijk (r : Except Err (List Nat × List Nat × List Nat)) : String :=
  match r with
  | .error e => "err " ++ errName e
  | .ok (i, j, k) => s!"ok {nats i} ; {nats j} ; {nats k}"

/-- `int(x)` of a non-negative finite double -/
instance : MagpyVerif.DisplayTrig.FloorNat Float where
  floorNat x := x.floor.toUInt64.toNat

open MagpyVerif.DisplayTrig in
/-- coordinate rows (IEEE double, bit patterns): `ok <x…> ; <y…> ; <z…>` -/
def verts (l : List (MagpyVerif.V3 Float)) : String :=
  let f (g : MagpyVerif.V3 Float → Float) := " ".intercalate (l.map fun v => toString (g v).toBits)
  s!"ok {f (·.x)} ; {f (·.y)} ; {f (·.z)}"

open MagpyVerif.DisplayTrig KernFam in
def runTrig (cmd : String) : P String := do
  match cmd with
  | "prismv" => do let N ← nat; let d ← flt; let h ← flt; pure (verts (prismVerts N d h))
  | "pyrv" => do
      let N ← nat; let d ← flt; let h ← flt
      let p ← match (← tok) with
        | "tail" => pure Pivot.tail
        | "tip" => pure Pivot.tip
        | "middle" => pure Pivot.middle
        | t => throw s!"bad pivot {t}"
      pure (verts (pyramidVerts N d h p))
  | "segv" => do
      let vert ← nat; let r1 ← flt; let r2 ← flt; let h ← flt; let p1 ← flt; let p2 ← flt
      pure (verts (segVerts vert r1 r2 h p1 p2))
  | "ellv" => do
      let N ← nat; let a ← flt; let b ← flt; let c ← flt
      match ellipsoid N a b c with
      | .error e => pure ("err " ++ errName e)
      | .ok l => pure (verts l)
  | "circ" => do let N ← nat; let d ← flt; pure (verts (circleTrace N d))
  | "arrowc" => do
      let sign ← flt; let d ← flt; let size ← flt; let scaled ← nat; let ang ← flt
      pure (verts (arrowOnCircle sign d size (scaled != 0) ang))
  | "arrowl" => do
      let sign ← flt; let size ← flt; let apos ← flt; let nrm ← flt
      pure (verts (arrowedLineLocal sign size apos nrm))
  | "pixels" => do
      let scaled ← nat; let psize ← flt; let dimExt ← flt; let m ← nat
      let ps ← many m KernFam.v3
      pure (verts (sensorPixels ps (scaled != 0) psize dimExt))
  | "polyl" => do
      let m ← nat
      let vs ← many m KernFam.v3
      let (x, y, z) := polylineTrace vs
      let f (l : List Float) := " ".intercalate (l.map fun v => toString v.toBits)
      pure s!"ok {f x} ; {f y} ; {f z}"
  | t => throw s!"unknown disp command {t}"

/-! rows of Model/DisplayIdx.lean: index arrays of Ellipsoid / CylinderSegment / Arrow, trace merging, path trace, auto unit -/

/-- `int(log10(x))` of a positive finite double (C `log10`, truncation towards zero) -/
instance : MagpyVerif.Display.TruncLog10 Float where
  truncLog10 x := (Float.log10 x).toInt64.toInt

def hexOf (s : String) : String :=
  let h (b : UInt8) : String :=
    let d (k : Nat) : Char := if k < 10 then Char.ofNat (48 + k) else Char.ofNat (87 + k)
    String.ofList [d (b.toNat / 16), d (b.toNat % 16)]
  if s.isEmpty then "-" else String.join (s.toUTF8.toList.map h)

def optList {α} (p : P α) : P (Option (List α)) := do
  if (← nat) = 0 then pure none else do pure (some (← many (← nat) p))

def restKV : P (List (String × Int)) := do many (← nat) (do pure (← tok, ← int))

def meshTrace : P (MeshTrace Int) := do
  let nv ← nat
  let x ← many nv int
  let ny ← nat
  let y ← many ny int
  let nz ← nat
  let z ← many nz int
  let nf ← nat
  let i ← many nf nat
  let j ← many nf nat
  let k ← many nf nat
  let it ← optList int
  let fc ← optList int
  let rest ← restKV
  pure { x := x, y := y, z := z, i := i, j := j, k := k, intensity := it, facecolor := fc, rest := rest }

def fmtOptList (l : Option (List Int)) : String :=
  match l with
  | none => "-"
  | some l => s!"[{ints l}]"

def fmtRest (r : List (String × Int)) : String := " ".intercalate (r.map fun (k, v) => s!"{k}={v}")

def optInt : P (Option Int) := do
  match (← tok) with
  | "N" => pure none
  | t => match t.toInt? with
    | some i => pure (some i)
    | none => throw s!"not an int or N: {t}"

/-- mode token: `_` = key absent / None, `E` = empty string, else the string itself -/
def modeTok : P (Option String) := do
  match (← tok) with
  | "_" => pure none
  | "E" => pure (some "")
  | t => pure (some t)

def fmtMode : Option String → String
  | none => "_"
  | some "" => "E"
  | some s => s

def scatTrace : P (ScatterTrace Int) := do
  let x ← many (← nat) optInt
  let y ← many (← nat) optInt
  let z ← many (← nat) optInt
  let mode ← modeTok
  let rest ← restKV
  pure { x := x, y := y, z := z, mode := mode, rest := rest }

def fmtOpts (l : List (Option Int)) : String :=
  " ".intercalate (l.map fun | none => "N" | some v => toString v)

def mErrName : MErr → String
  | .indexError => "IndexError"
  | .keyError => "KeyError"

def pivot : P MagpyVerif.DisplayTrig.Pivot := do
  match (← tok) with
  | "tail" => pure .tail
  | "tip" => pure .tip
  | "middle" => pure .middle
  | t => throw s!"bad pivot {t}"

open KernFam in
def runIdx (cmd : String) : P (Option String) := do
  match cmd with
  | "ellidx" => do pure (some (ijk (ellipsoidIJK (← nat))))
  | "segidx" => do
      let vert ← nat; let p1 ← flt; let p2 ← flt
      let N := MagpyVerif.DisplayTrig.segN vert p1 p2
      let (i, j, k) := segIJKOf vert p1 p2
      pure (some s!"ok {N} {if segFull p1 p2 then 1 else 0} ; {nats i} ; {nats j} ; {nats k}")
  | "arrow" => do pure (some (ijk (arrowIJK (← nat))))
  | "group" => do
      -- `disp group <n> { <type> <facecolorNone 0/1> <m> { <key> ~<str(value)> }*m }*n`: output traces as `<type>:<member ids>`
      let n ← nat
      let mut ts : Array GTrace := #[]
      for idx in [0:n] do
        let ty ← tok; let fc ← nat; let m ← nat
        let props ← many m (do let k ← tok; let v ← tok; pure (k, (v.drop 1).toString))
        ts := ts.push { ty := ty, props := props, facecolorNone := fc != 0, id := idx }
      let show1 (o : GOut) : String := match o with
        | .single t => s!"{t.ty}:{t.id}"
        | .mergedMesh l => "mesh3d:" ++ ",".intercalate (l.map fun t => toString t.id)
        | .mergedScatter l => "scatter3d:" ++ ",".intercalate (l.map fun t => toString t.id)
      pure (some ("ok " ++ " ".intercalate ((groupTraces ts.toList).map show1)))
  | "wind" => do
      -- winding report of a generator's triangulation: directed edges not used exactly once ; directed edges without reverse
      let gen ← tok
      let fs : Except Err (List MagpyVerif.Mesh.Face) ← match gen with
        | "seg" => do let N ← nat; let full ← nat; pure (.ok (segTriangles N (full != 0)))
        | "ell" => do pure (ellipsoidTriangles (← nat))
        | "prism" => do pure (prismTriangles (← nat))
        | "pyr" => do pure (pyramidTriangles (← nat))
        | "arrow" => do pure (arrowTriangles (← nat))
        | "cuboid" => pure (.ok cuboidTriangles)
        | "tetra" => pure (.ok tetraTriangles)
        | t => throw s!"unknown generator {t}"
      let pairs (l : List MagpyVerif.Mesh.Edge) := " ".intercalate (l.map fun e => s!"{e.1}>{e.2}")
      match fs with
      | .error e => pure (some ("err " ++ errName e))
      | .ok fs => pure (some s!"ok {fs.length} ; {pairs (windingDefects fs)} ; {pairs (unmatchedEdges fs)}")
  | "arrowv" => do
      let N ← nat; let d ← flt; let h ← flt; let p ← pivot
      pure (some (verts (arrowVerts N d h p)))
  | "mmesh" => do
      let ts ← many (← nat) meshTrace
      match mergeMesh3d ts with
      | .error e => pure (some ("err " ++ mErrName e))
      | .ok m => pure (some s!"ok {ints m.x} ; {ints m.y} ; {ints m.z} ; {nats m.i} ; {nats m.j} ; {nats m.k} ; {fmtOptList m.intensity} ; {fmtOptList m.facecolor} ; {fmtRest m.rest}")
  | "mscat" => do
      let ts ← many (← nat) scatTrace
      match mergeScatter3d ts with
      | .error e => pure (some ("err " ++ mErrName e))
      | .ok m =>
        let pieces := " | ".intercalate ((splitNone m.x).map ints)
        pure (some s!"ok {fmtOpts m.x} ; {fmtOpts m.y} ; {fmtOpts m.z} ; {fmtMode m.mode} ; {fmtRest m.rest} ; {pieces}")
  | "path" => do
      let m ← nat
      let ps ← many m KernFam.v3
      let f ← flt
      pure (some (verts (pathTrace ps f)))
  | "autounit" => do
      let x ← flt
      let (u, p, e) := autoUnit x
      pure (some s!"ok {hexOf u} {p} {e} {autoDigits x}")
  | "ranges" => do
      let m ← nat
      let ps ← many m KernFam.v3
      let zo ← flt
      let r := sceneRange ps zo
      let cells := " ".intercalate (r.map fun (a, b) => s!"{a.toBits} {b.toBits}")
      let rm := rmaxOf r
      let (u, p, e) := autoUnit rm
      pure (some s!"ok {cells} ; {rm.toBits} ; {hexOf u} {p} {e}")
  | _ => pure none

/-! `place`: place_and_orient_model3d on dyadic data; every number travels as an integer multiple of 1/64 -/
def q64 : P Float := do pure (Float.ofInt (← int) / 64)
def fmtQ (x : Float) : String := toString (x * 64).round.toInt64

def tval : P (TVal Float) := do
  match (← tok) with
  | "a" => do
      let nd ← nat
      let sh ← many nd nat
      let n ← nat
      pure (.arr sh (← many n q64))
  | "o" => do pure (.other (← int))
  | t => throw s!"bad trace value tag {t}"

def fmtTVal : TVal Float → String
  | .arr sh d => s!"a {sh.length} {nats sh} {d.length} {" ".intercalate (d.map fmtQ)}"
  | .other t => s!"o {t}"

def kv : P (String × TVal Float) := do let k ← tok; let v ← tval; pure (k, v)

def opt {α} (p : P α) : P (Option α) := do
  if (← nat) = 0 then pure none else pure (some (← p))

def v3q : P (MagpyVerif.V3 Float) := do pure ⟨← q64, ← q64, ← q64⟩

def ckeys : P (CKey × CKey × CKey) := do
  match (← tok) with
  | "k" => do pure (.key (← tok), .key (← tok), .key (← tok))
  | "a" => do pure (.arg (← nat), .arg (← nat), .arg (← nat))
  | t => throw s!"bad coordsargs tag {t}"

def fmtCKey : CKey → String
  | .key k => k
  | .arg i => s!"args[{i}]"

/-- `place K <n> (key val)* A <0 | 1 n val*> R <0 | 1 rot> X <0 | 1 vec> C <0 | 1 ckeys> S <scale> F <factor>
    E <n> (key val)* RET <model_args?> <coordsargs?>` -/
def runPlace : P String := do
  let _ ← tok
  let kw ← many (← nat) kv
  let _ ← tok
  let args ← opt (do many (← nat) tval)
  let _ ← tok
  let ori ← opt (do pure (⟨← v3q, ← v3q, ← v3q⟩ : MagpyVerif.M3 Float))
  let _ ← tok
  let pos ← opt v3q
  let _ ← tok
  let ca ← opt ckeys
  let _ ← tok
  let scale ← q64
  let _ ← tok
  let f ← q64
  let _ ← tok
  let extra ← many (← nat) kv
  let _ ← tok
  let retArgs := (← nat) != 0
  let retCoords := (← nat) != 0
  match placeModel { kwargs := kw, args := args, orientation := ori, position := pos, coordsargs := ca,
                     scale := scale, lengthFactor := f, extra := extra } with
  | .error e => pure ("err " ++ errName e)
  | .ok o =>
    let d := " ".intercalate (o.kwargs.map fun (k, v) => s!"{k} {fmtTVal v}")
    let a := if retArgs then
        (match o.args with | none => "none" | some l => s!"{l.length} {" ".intercalate (l.map fmtTVal)}")
      else "-"
    let c := if retCoords then
        (match o.coordsargs with | none => "none" | some (x, y, z) => s!"{fmtCKey x} {fmtCKey y} {fmtCKey z}")
      else "-"
    pure s!"ok {o.kwargs.length} {d} | {a} | {c}"

def run : P String := do
  match (← tok) with
  | "place" => runPlace
  | "inds" => do
      let n ← nat
      let sp ← showPath
      match getRotPosInds n sp with
      | .error e => pure ("err " ++ errName e)
      | .ok (inds, rows) => pure s!"ok {ints inds} | {nats rows}"
  | "cuboid" => do
      let dim ← i3
      let hasPos ← nat
      let pos ← if hasPos = 0 then pure none else (do pure (some (← i3)))
      let c := cuboidCoords2 dim pos
      pure s!"ok {ints c.1} ; {ints c.2.1} ; {ints c.2.2} ; {nats cuboidI} ; {nats cuboidJ} ; {nats cuboidK}"
  | "tetra" => do
      let p0 ← i3
      let p1 ← i3
      let p2 ← i3
      let p3 ← i3
      let pts := tetraPoints (p0, p1, p2, p3)
      let t := tetraTriangles
      pure s!"ok {ints (pts.map (·.1))} ; {ints (pts.map (·.2.1))} ; {ints (pts.map (·.2.2))} ; {nats (t.map (·.1))} ; {nats (t.map (·.2.1))} ; {nats (t.map (·.2.2))}"
  | "prism" => do pure (ijk (prismIJK (← nat)))
  | "pyramid" => do pure (ijk (pyramidIJK (← nat)))
  | t => do
      match (← runIdx t) with
      | some r => pure r
      | none => runTrig t

def step (line : String) : String :=
  match runLine run line with
  | .error e => s!"parse-error {e}"
  | .ok s => s

end Driver.DispFam
