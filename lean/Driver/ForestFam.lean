/- driver family `forest`: C11 histories of tree-editing operations -/
import MagpyVerif.Model.Forest
import Driver.Parse

namespace Driver.ForestFam
open MagpyVerif Driver

def kind : P Kind := do
  match (← tok) with
  | "s" => pure .src
  | "e" => pure .sens
  | "c" => pure .coll
  | t => throw s!"bad kind {t}"

def bool : P Bool := do pure ((← nat) != 0)
def ids : P (List Nat) := do let n ← nat; many n nat

def dump (s : Forest) : String :=
  let one (i : Nat) : String :=
    let p := match s.parent i with | none => "-" | some p => toString p
    s!"{i}:{p} C{s.children i} S{s.srcs i} E{s.sens i} L{s.colls i}"
  " | ".intercalate ((List.range s.n).map one)

inductive Cmd where
  | init (ks : List Kind)
  | op (o : FOp)

partial def kinds : P (List Kind) := do
  match (← get) with
  | [] => pure []
  | _ => do let k ← kind; let r ← kinds; pure (k :: r)

def cmd : P Cmd := do
  match (← tok) with
  | "init" => pure (.init (← kinds))
  | "add" => do let c ← nat; let ov ← bool; let os ← ids; pure (.op (.add c os ov))
  | "remove" => do let c ← nat; let r ← bool; let e ← bool; let os ← ids; pure (.op (.remove c os r e))
  | "parent" => do
      let o ← nat; let p ← int
      pure (.op (.setParent o (if p < 0 then none else some p.toNat)))
  | "children" => do let c ← nat; let os ← ids; pure (.op (.setChildren c os))
  | "typed" => do let c ← nat; let k ← kind; let os ← ids; pure (.op (.setTyped c k os))
  | "plus" => do let a ← nat; let b ← nat; pure (.op (.plus a b))
  | "bad" => pure (.op .rejected)
  | t => throw s!"unknown forest command {t}"

def step (st : Option Forest) (line : String) : Option Forest × String :=
  match runLine cmd line with
  | .error e => (st, s!"parse-error {e}")
  | .ok (.init ks) => let s := Forest.init ks; (some s, s!"ok {dump s}")
  | .ok (.op o) => match st with
      | some s =>
        let r := s.step o
        (some r.1, s!"{if r.2 then "ok" else "err"} {dump r.1}")
      | none => (st, "no-forest")

end Driver.ForestFam
