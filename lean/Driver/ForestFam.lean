/- driver family `forest`: C11 histories of tree-editing operations, C18 `copy` steps inside such
histories, and the label iteration of `copy()` (`label` / `copylabel`, stateless) -/
import MagpyVerif.Model.Copy
import Driver.Parse

namespace Driver.ForestFam
open MagpyVerif Driver

def kind : P Kind := do
  match (← tok) with
  | "s" => pure .src
  | "e" => pure .sens
  | "c" => pure .coll
  | t => throw s!"bad kind {t}"

def bool : P Bool := do pure ((← nat) != 0)
def ids : P (List Nat) := do let n ← nat; many n nat

def dump (s : Forest) : String :=
  let one (i : Nat) : String :=
    let p := match s.parent i with | none => "-" | some p => toString p
    let k := match s.kind i with | .src => "s" | .sens => "e" | .coll => "c"
    s!"{i}{k}:{p} C{s.children i} S{s.srcs i} E{s.sens i} L{s.colls i}"
  " | ".intercalate ((List.range s.n).map one)

inductive Cmd where
  | init (ks : List Kind)
  | op (o : Forest.COp)
  | label (name : List Char)
  | copylabel (cls : List Char) (touched : Bool) (label : Option (List Char))

/-- a string as `<length> <code point>*` (any character, also none at all, survives the token protocol) -/
def chars : P (List Char) := do
  let n ← nat
  let cps ← many n nat
  pure (cps.map Char.ofNat)

def showChars (cs : List Char) : String :=
  " ".intercalate (toString cs.length :: cs.map (fun c => toString c.toNat))

partial def kinds : P (List Kind) := do
  match (← get) with
  | [] => pure []
  | _ => do let k ← kind; let r ← kinds; pure (k :: r)

def cmd : P Cmd := do
  match (← tok) with
  | "init" => pure (.init (← kinds))
  | "add" => do let c ← nat; let ov ← bool; let os ← ids; pure (.op (.base (.add c os ov)))
  | "remove" => do let c ← nat; let r ← bool; let e ← bool; let os ← ids; pure (.op (.base (.remove c os r e)))
  | "parent" => do
      let o ← nat; let p ← int
      pure (.op (.base (.setParent o (if p < 0 then none else some p.toNat))))
  | "children" => do let c ← nat; let os ← ids; pure (.op (.base (.setChildren c os)))
  | "typed" => do let c ← nat; let k ← kind; let os ← ids; pure (.op (.base (.setTyped c k os)))
  | "plus" => do let a ← nat; let b ← nat; pure (.op (.base (.plus a b)))
  | "bad" => pure (.op (.base .rejected))
  | "copy" => do let o ← nat; pure (.op (.copy o))
  | "label" => do pure (.label (← chars))
  | "copylabel" => do
      let cls ← chars; let touched ← bool; let has ← bool
      if has then pure (.copylabel cls touched (some (← chars))) else pure (.copylabel cls touched none)
  | t => throw s!"unknown forest command {t}"

def step (st : Option Forest) (line : String) : Option Forest × String :=
  match runLine cmd line with
  | .error e => (st, s!"parse-error {e}")
  | .ok (.init ks) => let s := Forest.init ks; (some s, s!"ok {dump s}")
  | .ok (.op o) => match st with
      | some s =>
        let r := s.stepC o
        (some r.1, s!"{if r.2 then "ok" else "err"} {dump r.1}")
      | none => (st, "no-forest")
  | .ok (.label name) => (st, s!"ok {showChars (addIterationSuffix name)}")
  | .ok (.copylabel cls touched label) =>
      match copyLabel cls touched label with
      | none => (st, "ok none")
      | some l => (st, s!"ok {showChars l}")

end Driver.ForestFam
