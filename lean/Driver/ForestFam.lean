/- driver family `forest`: C11 histories of tree-editing operations, C18 `copy` steps inside such
histories, and the label iteration of `copy()` (`label` / `copylabel`, stateless).
The state is the attributed forest of Model/ForestAttr.lean; `init` builds default attributes and the answers show
the tree only (C11 stream), `ainit` builds objects from explicit specs and every answer also shows all attribute
values and the sharing structure of the containers: addresses are printed as the index of their first occurrence in
any dump of the history (walk: objects in id order, slots pos, ori, a0..a3, style), so that an address that stays is
told from one that is replaced. -/
import MagpyVerif.Model.Copy
import MagpyVerif.Model.ForestAttr
import Driver.Parse

namespace Driver.ForestFam
open MagpyVerif Driver

def kind : P Kind := do
  match (← tok) with
  | "s" => pure .src
  | "e" => pure .sens
  | "c" => pure .coll
  | t => throw s!"bad kind {t}"

def bool : P Bool := do pure ((← nat) != 0)
def ids : P (List Nat) := do let n ← nat; many n nat

def dump (s : Forest) : String :=
  let one (i : Nat) : String :=
    let p := match s.parent i with | none => "-" | some p => toString p
    let k := match s.kind i with | .src => "s" | .sens => "e" | .coll => "c"
    s!"{i}{k}:{p} C{s.children i} S{s.srcs i} E{s.sens i} L{s.colls i}"
  " | ".intercalate ((List.range s.n).map one)

inductive Cmd where
  | init (ks : List Kind)
  | ainit (specs : List AForest.Spec)
  | op (o : AOp)
  | allviews
  | label (name : List Char)
  | copylabel (cls : List Char) (touched : Bool) (label : Option (List Char))

/-- a string as `<length> <code point>*` (any character, also none at all, survives the token protocol) -/
def chars : P (List Char) := do
  let n ← nat
  let cps ← many n nat
  pure (cps.map Char.ofNat)

def showChars (cs : List Char) : String :=
  " ".intercalate (toString cs.length :: cs.map (fun c => toString c.toNat))

partial def kinds : P (List Kind) := do
  match (← get) with
  | [] => pure []
  | _ => do let k ← kind; let r ← kinds; pure (k :: r)

def vec : P AVec := do pure ⟨← int, ← int, ← int⟩
def rot : P ARot := do pure ⟨← vec, ← vec, ← vec⟩
def ints : P (List Int) := do let n ← nat; many n int
def slot : P Slot := do pure (Slot.ofCode (← nat))
def pairs : P (List (Nat × Int)) := do let n ← nat; many n (do pure ((← nat), (← int)))
def sdata : P SData := do
  let has ← bool
  let l ← if has then (do pure (some (← chars))) else pure none
  pure { label := l, props := ← pairs }

def pathIn {α} (p : P α) : P (PathIn α) := do
  match (← tok) with
  | "s" => pure (.scalar (← p))
  | "v" => do let n ← nat; pure (.vector (← many n p))
  | t => throw s!"bad pathIn tag {t}"

def start : P (Option Int) := do
  match (← tok) with
  | "a" => pure none
  | "i" => pure (some (← int))
  | t => throw s!"bad start tag {t}"

def anchor : P (Option (PathIn AVec)) := do
  match (← tok) with
  | "n" => pure none
  | "s" => pure (some (.scalar (← vec)))
  | "v" => do let n ← nat; pure (some (.vector (← many n vec)))
  | t => throw s!"bad anchor tag {t}"

def spec : P AForest.Spec := do
  let k ← kind; let cls ← nat
  let np ← nat; let pos ← many np vec
  let na ← nat; let arrs ← many na (do pure ((← slot), (← ints)))
  let scal ← pairs
  let skw ← sdata
  pure { kind := k, cls := cls, pos := pos, arrs := arrs, scal := scal, skw := skw }

def ov : P AForest.Ov := do
  match (← tok) with
  | "pos" => do let n ← nat; pure (.pos (← many n vec))
  | "arr" => do let sl ← slot; pure (.arr sl (← ints))
  | "scal" => do pure (.scal (← nat) (← int))
  | "label" => do pure (.label (← chars))
  | "sprop" => do pure (.sprop (← nat) (← int))
  | "ori" => do
      match (← tok) with
      | "n" => pure (.ori none)
      | "v" => do let n ← nat; pure (.ori (some (← many n rot)))
      | t => throw s!"bad orientation tag {t}"
  | t => throw s!"bad override {t}"

/-- any copy keyword -/
def kw : P AForest.Kw := do
  match (← get) with
  | "parent" :: rest => do
      set rest
      let p ← int
      pure (.parent (if p < 0 then none else some p.toNat))
  | "children" :: rest => do set rest; pure (.children (← ids))
  | "badval" :: rest => do set rest; pure .bad
  | _ => do pure (.attr (← ov))

def cmd : P Cmd := do
  match (← tok) with
  | "init" => pure (.init (← kinds))
  | "ainit" => do let n ← nat; pure (.ainit (← many n spec))
  | "add" => do let c ← nat; let ov ← bool; let os ← ids; pure (.op (.tree (.add c os ov)))
  | "remove" => do let c ← nat; let r ← bool; let e ← bool; let os ← ids; pure (.op (.tree (.remove c os r e)))
  | "parent" => do
      let o ← nat; let p ← int
      pure (.op (.tree (.setParent o (if p < 0 then none else some p.toNat))))
  | "children" => do let c ← nat; let os ← ids; pure (.op (.tree (.setChildren c os)))
  | "childrenbare" => do
      let c ← nat; let x ← nat
      pure (.op (.tree (.setChildren c (Forest.ChildrenArg.bare x).toList)))
  | "typed" => do let c ← nat; let k ← kind; let os ← ids; pure (.op (.tree (.setTyped c k os)))
  | "plus" => do let a ← nat; let b ← nat; pure (.op (.tree (.plus a b)))
  | "bad" => pure (.op (.tree .rejected))
  | "copy" => do let o ← nat; pure (.op (.copy o []))
  | "acopy" => do let o ← nat; let n ← nat; pure (.op (.copy o (← many n kw)))
  | "asetori" => do
      let x ← nat
      match (← tok) with
      | "n" => pure (.op (.setOri x none))
      | "v" => do let n ← nat; pure (.op (.setOri x (some (← many n rot))))
      | t => throw s!"bad orientation tag {t}"
  | "amove" => do let x ← nat; let i ← pathIn vec; let s ← start; pure (.op (.move x i s))
  | "arot" => do let x ← nat; let r ← pathIn rot; let an ← anchor; let s ← start; pure (.op (.rotate x r an s))
  | "asetpos" => do let x ← nat; let n ← nat; pure (.op (.setPos x (← many n vec)))
  | "asetarr" => do let x ← nat; let sl ← slot; pure (.op (.setArr x sl (← ints)))
  | "asetscal" => do let x ← nat; pure (.op (.setScal x (← nat) (← int)))
  | "alabel" => do let x ← nat; pure (.op (.setLabel x (← chars)))
  | "aprop" => do let x ← nat; pure (.op (.setProp x (← nat) (← int)))
  | "arealise" => do pure (.op (.touchStyle (← nat)))
  | "allviews" => pure .allviews
  | "label" => do pure (.label (← chars))
  | "copylabel" => do
      let cls ← chars; let touched ← bool; let has ← bool
      if has then pure (.copylabel cls touched (some (← chars))) else pure (.copylabel cls touched none)
  | t => throw s!"unknown forest command {t}"

/-- driver state: the attributed forest, whether attributes are shown, and the addresses seen so far -/
structure FSt where
  s : AForest
  attr : Bool
  seen : List Nat

def fmtV (v : AVec) : String := s!"{v.x} {v.y} {v.z}"
def fmtR (m : ARot) : String := s!"{fmtV m.r1} {fmtV m.r2} {fmtV m.r3}"

/-- canonical index of an address (first occurrence over the whole history) -/
def canon (seen : List Nat) (a : Nat) : List Nat × Nat :=
  let i := seen.idxOf a
  if i < seen.length then (seen, i) else (seen ++ [a], seen.length)

def optInt : Option Int → String
  | none => "-"
  | some v => toString v

def dumpAttrs (s : AForest) (seen0 : List Nat) : List Nat × String := Id.run do
  let mut seen := seen0
  let mut parts : Array String := #[]
  for i in [0:s.f.n] do
    let r := s.na i
    let mut line := s!"{i} c{r.cls}"
    for sl in [Slot.pos, Slot.ori, Slot.a0, Slot.a1, Slot.a2, Slot.a3, Slot.kids] do
      match r.adr sl with
      | none => pure ()
      | some a =>
        let (sn, ix) := canon seen a
        seen := sn
        let body := match s.heap a with
          | .vecs l => s!"v{l.length} " ++ " ".intercalate (l.map fmtV)
          | .rots l => s!"r{l.length} " ++ " ".intercalate (l.map fmtR)
          | .ints l => s!"i{l.length} " ++ " ".intercalate (l.map toString)
          | .list => "l"
          | _ => "?"
        line := line ++ s!" [{sl.code}@{ix} {body}]"
    let sc := " ".intercalate (r.scal.map fun e => s!"{e.1}={e.2}")
    line := line ++ s!" S({sc})"
    match r.adr .style with
    | none => line := line ++ " Y-"
    | some a =>
      let (sn, ix) := canon seen a
      seen := sn
      line := line ++ s!" Y@{ix}"
    let v := s.styleView i
    let lab := match v.label with | none => "none" | some l => showChars l
    line := line ++ s!" K{if r.skw.nonempty then 1 else 0} L {lab} p0={optInt (v.getProp 0)} p1={optInt (v.getProp 1)}"
    parts := parts.push line
  return (seen, " | ".intercalate parts.toList)

def allViews (f : Forest) : String :=
  let one (c : Nat) : String :=
    s!"{c} A{f.flatAll (fun _ => true) f.n c} S{f.flatAll (fun k => k = .src) f.n c} " ++
    s!"E{f.flatAll (fun k => k = .sens) f.n c} L{f.flatAll (fun k => k = .coll) f.n c}"
  " | ".intercalate (((List.range f.n).filter fun c => f.kind c = .coll).map one)

def answer (st : FSt) (tag : String) : FSt × String :=
  if st.attr then
    let (seen, a) := dumpAttrs st.s st.seen
    ({ st with seen := seen }, s!"{tag} {dump st.s.f} ## {a}")
  else (st, s!"{tag} {dump st.s.f}")

def defaultSpec (k : Kind) : AForest.Spec :=
  { kind := k, cls := (match k with | .src => 0 | .sens => 4 | .coll => 5), pos := [(0 : AVec)], arrs := [], scal := [],
    skw := SData.empty }

def step (st : Option FSt) (line : String) : Option FSt × String :=
  match runLine cmd line with
  | .error e => (st, s!"parse-error {e}")
  | .ok (.init ks) =>
      let (st', out) := answer { s := AForest.init (ks.map defaultSpec), attr := false, seen := [] } "ok"
      (some st', out)
  | .ok (.ainit specs) =>
      let (st', out) := answer { s := AForest.init specs, attr := true, seen := [] } "ok"
      (some st', out)
  | .ok (.op o) => match st with
      | some t =>
        let r := t.s.step o
        let (st', out) := answer { t with s := r.1 } (if r.2 then "ok" else "err")
        (some st', out)
      | none => (st, "no-forest")
  | .ok .allviews => match st with
      | some t => (st, s!"ok {allViews t.s.f}")
      | none => (st, "no-forest")
  | .ok (.label name) => (st, s!"ok {showChars (addIterationSuffix name)}")
  | .ok (.copylabel cls touched label) =>
      match copyLabel cls touched label with
      | none => (st, "ok none")
      | some l => (st, s!"ok {showChars l}")

end Driver.ForestFam
