/- driver family `iface`: input formatting in front of getBH_level2 and the method wrappers, on exact integer data -/
import MagpyVerif.Model.Iface
import Driver.Parse
import Driver.PathFam
import Driver.Level2Fam

namespace Driver.IfaceFam
open MagpyVerif MagpyVerif.Level2 MagpyVerif.Iface Driver Driver.PathFam Driver.Level2Fam

abbrev Ob := Iface.Obj Rot Vec
abbrev In := Iface.Inp Rot Vec

/-- `S key npath (pos ori)*` | `K sensor` | `C k childid*` (children have smaller ids) -/
def object (fs : Array (Rot × Vec)) (done : Array Ob) : P Ob := do
  let id := done.size
  match (← tok) with
  | "S" => do
      let key ← nat
      let n ← nat
      let ps ← many n pose
      let (a, b) := fs.getD key (1, 0)
      pure (.src id { pos := ps.map (·.1), ori := ps.map (·.2), F := fun x => a • x + b })
  | "K" => do pure (.sens id (← sens))
  | "C" => do
      let k ← nat
      let ids ← many k nat
      let cs ← ids.mapM fun i => match done[i]? with
        | some o => pure o
        | none => throw s!"child id {i} not defined yet"
      pure (.coll id cs)
  | t => throw s!"bad object tag {t}"

def objects (fs : Array (Rot × Vec)) (n : Nat) : P (Array Ob) := do
  let mut done : Array Ob := #[]
  for _ in [0:n] do
    done := done.push (← object fs done)
  pure done

/-- `P nd dim* npts vec*` | `O id` | `L n item*` | `J` -/
partial def inp (w : Array Ob) : P In := do
  match (← tok) with
  | "P" => do
      let nd ← nat
      let dims ← many nd nat
      let n ← nat
      pure (.pos dims (← many n vec))
  | "O" => do
      let i ← nat
      match w[i]? with
      | some o => pure (.obj o)
      | none => throw s!"unknown object {i}"
  | "L" => do
      let n ← nat
      pure (.list (← many n (inp w)))
  | "J" => pure .junk
  | t => throw s!"bad input tag {t}"

def aggIn : P AggIn := do
  match (← tok) with
  | "none" => pure (.agg .none)
  | "sum" => pure (.agg .sum)
  | "min" => pure (.agg .min)
  | "max" => pure (.agg .max)
  | "bad" => pure .bad
  | t => throw s!"bad agg {t}"

/-- `F nf (rot vec)* W n object*` -/
def world : P (Array Ob) := do
  let _ ← tok -- "F"
  let nf ← nat
  let fs ← many nf (do let m ← rot; let b ← vec; pure (m, b))
  let _ ← tok -- "W"
  let n ← nat
  objects fs.toArray n

def fmtKind : ErrKind → String
  | .badUserInput => "err BadUserInput"
  | .missingInput => "err MissingInput"
  | .attributeError => "err AttributeError"
  | .valueError => "err ValueError"

def fmtOut : Except ErrKind (Out Vec) → String
  | .error e => fmtKind e
  | .ok o =>
    let sh := " ".intercalate ((o.shape ++ [3]).map toString)
    let d := " ".intercalate (o.data.map fmtV)
    s!"ok shape {sh} | {d}"

def fmtOId : OId → String
  | .user n => s!"u{n}"
  | .fresh _ => "f"

def inputs (w : Array Ob) : P (List In) := do
  let n ← nat
  many n (inp w)

def run : P String := do
  let cmd ← tok
  match cmd with
  | "dups" => do
      let n ← nat
      let ids ← many n nat
      let (new, warned) := checkDuplicates ids
      pure s!"ok {" ".intercalate (new.map toString)} | {if warned then 1 else 0}"
  | "top" => do
      let sumup ← bool; let squeeze ← bool; let a ← aggIn; let outOk ← bool
      let w ← world
      let s ← inp w
      let o ← inp w
      pure (fmtOut (getBtop flipX vmin vmax s o { sumup, squeeze, agg := a, outOk }))
  | "src" => do
      let id ← nat
      let squeeze ← bool; let a ← aggIn; let outOk ← bool
      let w ← world
      let xs ← inputs w
      match w[id]? with
      | some (.src i s) => pure (fmtOut (srcMethod flipX vmin vmax i s xs squeeze a outOk))
      | _ => throw s!"object {id} is not a source"
  | "sens" => do
      let id ← nat
      let sumup ← bool; let squeeze ← bool; let a ← aggIn; let outOk ← bool
      let w ← world
      let xs ← inputs w
      match w[id]? with
      | some (.sens i k) => pure (fmtOut (sensMethod flipX vmin vmax i k xs { sumup, squeeze, agg := a, outOk }))
      | _ => throw s!"object {id} is not a sensor"
  | "coll" => do
      let id ← nat
      let squeeze ← bool; let a ← aggIn; let outOk ← bool
      let w ← world
      let xs ← inputs w
      match w[id]? with
      | some (.coll i cs) =>
        let br := match collBranch i cs with
          | .both => "both"
          | .noSources => "noSources"
          | .noSensors => "noSensors"
        pure s!"{br} {fmtOut (collMethod flipX vmin vmax i cs xs squeeze a outOk)}"
      | _ => throw s!"object {id} is not a collection"
  | "fmtsrc" => do
      let w ← world
      let s ← inp w
      match formatSrc s with
      | .error e => pure (fmtKind e)
      | .ok sf =>
        let a := " ".intercalate (sf.sources.map fun o => toString o.id)
        let b := " ".intercalate (sf.srcList.map fun p => toString p.1)
        -- the entries handed on have the same leaves as src_list
        let n := (sf.entries.flatMap Entry.leaves).length
        pure s!"ok S {a} | L {b} | {sf.entries.length} {n}"
  | "fmtobs" => do
      let a ← aggIn
      let w ← world
      let o ← inp w
      match a with
      | .bad => throw "fmtobs needs a valid pixel_agg"
      | .agg a =>
      match formatObs o a with
      | .error e => pure (fmtKind e)
      | .ok ks =>
        let ids := " ".intercalate (ks.map fun p => fmtOId p.1)
        let shs := " ; ".intercalate (ks.map fun p => " ".intercalate (p.2.pixShape.map toString))
        pure s!"ok K {ids} | {shs}"
  | t => throw s!"bad iface command {t}"

def step (line : String) : String :=
  match runLine run line with
  | .error e => s!"parse-error {e}"
  | .ok s => s

end Driver.IfaceFam
