/- line-protocol driver: `<family> <command…>` per line in, one canonical line out -/
import Driver.PathFam
import Driver.ForestFam
import Driver.Level2Fam
import Driver.Level2FFam
import Driver.KernFam
import Driver.MeshFam
import Driver.DispFam
import Driver.DispFam2
import Driver.ValidFam
import Driver.StyleFam
import Driver.StyleStateFam
import Driver.StyleCopyFam
import Driver.StyleEffFam
import Driver.TrimeshFam
import Driver.PolyFam
import Driver.SymFam
import Driver.IfaceFam
import Driver.DictFam
import Driver.ExcFam

open Driver

structure St where
  path : Option PathFam.Tree := none
  forest : Option ForestFam.FSt := none

def stepLine (st : St) (line : String) : St × String :=
  let line := line.trimAscii.toString
  match line.splitOn " " with
  | "path" :: _ =>
    let (p, out) := PathFam.step st.path (line.drop 5).toString
    ({ st with path := p }, out)
  | "forest" :: _ =>
    let (p, out) := ForestFam.step st.forest (line.drop 7).toString
    ({ st with forest := p }, out)
  | "level2" :: _ => (st, Level2Fam.step (line.drop 7).toString)
  | "level2f" :: _ => (st, Level2FFam.step (line.drop 8).toString)
  | "kern" :: _ => (st, KernFam.step (line.drop 5).toString)
  | "mesh" :: _ => (st, MeshFam.step (line.drop 5).toString)
  | "valid" :: _ => (st, ValidFam.step (line.drop 6).toString)
  | "style" :: _ => (st, StyleFam.step (line.drop 6).toString)
  | "sstate" :: _ => (st, StyleStateFam.step (line.drop 7).toString)
  | "seff" :: _ => (st, StyleEffFam.step (line.drop 5).toString)
  | "scopy" :: _ => (st, StyleCopyFam.step (line.drop 6).toString)
  | "trimesh" :: _ => (st, TrimeshFam.step (line.drop 8).toString)
  | "poly" :: _ => (st, PolyFam.step (line.drop 5).toString)
  | "disp" :: _ => (st, DispFam2.step (line.drop 5).toString)
  | "sym" :: _ => (st, SymFam.step (line.drop 4).toString)
  | "iface" :: _ => (st, IfaceFam.step (line.drop 6).toString)
  | "dict" :: _ => (st, DictFam.step (line.drop 5).toString)
  | "exc" :: _ => (st, ExcFam.step (line.drop 4).toString)
  | _ => (st, "bad-family")

partial def loop (h : IO.FS.Stream) (out : IO.FS.Stream) (st : St) : IO Unit := do
  let line ← h.getLine
  if line.isEmpty then return ()
  let (st', o) := stepLine st line
  out.putStrLn o
  loop h out st'

def main : IO Unit := do
  let out ← IO.getStdout
  loop (← IO.getStdin) out {}
  out.flush
