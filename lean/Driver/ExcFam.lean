/- driver family `exc`: the polarization / magnetization state machine of BaseMagnet (Model/Excitation.lean) in IEEE double;
   floats travel as bit patterns -/
import MagpyVerif.Model.Excitation
import Driver.KernFam

namespace Driver.ExcFam
open MagpyVerif MagpyVerif.Kern MagpyVerif.Exc Driver Driver.KernFam

def arg : P (Arg Float) := do
  match (← tok) with
  | "N" => pure .none
  | "B" => pure .bad
  | "V" => do pure (.vec (← v3))
  | t => throw s!"bad arg tag {t}"

def op : P (Op Float) := do
  match (← tok) with
  | "P" => do pure (.setPol (← arg))
  | "M" => do pure (.setMag (← arg))
  | t => throw s!"bad op tag {t}"

def fmtOV : Option (V3 Float) → String
  | none => "N"
  | some v => out v

def fmtSt (st : St Float) : String := s!"{fmtOV (read st).1} {fmtOV (read st).2}"

def fmtErr : Err → String
  | .badUserInput => "BadUserInput"
  | .valueError => "ValueError"
  | .warningAsError => "WarningAsError"

def fmtOut : Outcome → String
  | .ok => "ok"
  | .warned => "warned"
  | .err e => s!"err:{fmtErr e}"

/-- `hist <strict> <mag arg> <pol arg> <nops> op*` → constructor outcome and state, then outcome and state after every op;
    `const` → the setters' two constants and the carrier's mu_0 as bit patterns -/
def run : P String := do
  match (← tok) with
  | "hist" => do
      let strict := (← nat) != 0
      let m ← arg
      let p ← arg
      let k ← nat
      let ops ← many k op
      match construct strict m p with
      | .error e => pure s!"ctor err:{fmtErr e}"
      | .ok (st, o) =>
        let steps := Exc.run st ops
        pure (" ; ".intercalate (s!"ctor {fmtOut o} {fmtSt st}" :: steps.map fun (s, o) => s!"{fmtOut o} {fmtSt s}"))
  | "const" =>
      pure s!"{(cMagToPol : Float).toBits} {(cPolToMag : Float).toBits} {(Num.mu0 : Float).toBits}"
  | t => throw s!"unknown exc command {t}"

def step (line : String) : String :=
  match runLine run line with
  | .error e => s!"parse-error {e}"
  | .ok s => s

end Driver.ExcFam
