"""C14 failing-input search: Gauss–Legendre flux of getB through closed boxes and circulation of getH
around closed circles, in free space, inside magnets and cutting their boundary; currents linked or not"""
import warnings

import numpy as np
from scipy.spatial.transform import Rotation as R

from oracles.quadrature import gl, grid
from oracles.sources import MAGNETS, make


def box_flux(getB, centre, half, n):
    u, v, w = grid(n)
    tot, mag = 0.0, 0.0
    for ax in range(3):
        o = [i for i in range(3) if i != ax]
        for s in (-1, 1):
            P = np.zeros((len(u), 3))
            P[:, ax] = s * half[ax]
            P[:, o[0]] = (2 * u - 1) * half[o[0]]
            P[:, o[1]] = (2 * v - 1) * half[o[1]]
            B = getB(P + centre)
            f = B[:, ax] * s * w * 4 * half[o[0]] * half[o[1]]
            tot += f.sum()
            mag += np.abs(f).sum()
    return tot, mag


def circulation(getH, centre, radius, rot, n):
    x, w = gl(n)
    ph = 2 * np.pi * x
    P = radius * np.stack([np.cos(ph), np.sin(ph), 0 * ph], axis=1)
    T = radius * 2 * np.pi * np.stack([-np.sin(ph), np.cos(ph), 0 * ph], axis=1)
    H = getH(rot.apply(P) + centre)
    f = np.einsum("kc,kc->k", H, rot.apply(T)) * w
    return f.sum(), np.abs(f).sum()


def _rect_jac(b, c, s, q):
    """Jacobian of the field of the uniformly charged rectangle |x'|<=b, |y'|<=c, z'=s (times 4 pi): python transcription
    of `rectJac` of lean/MagpyVerif/Lemmas/CuboidDiv.lean (rows: components along u, v, w; columns: d/du, d/dv, d/dw)"""
    w = q[2] - s

    def corner(u, v):
        r = np.sqrt(u * u + v * v + w * w)
        U, V = u * u + w * w, v * v + w * w
        return np.array([
            [u * v / (U * r) + u / U, -1 / r, w * v / (U * r) + w / U],
            [-1 / r, v * u / (V * r) + v / V, w * u / (V * r) + w / V],
            [v * w / (U * r), u * w / (V * r), -(u * v / (U * r) + u * v / (V * r))]])
    u1, u2, v1, v2 = q[0] - b, q[0] + b, q[1] - c, q[1] + c
    return corner(u2, v2) - corner(u2, v1) - corner(u1, v2) + corner(u1, v1)


def cuboid_jacobian(dim, pol, p):
    """`coulombJac dim pol p` of Lemmas/CuboidDiv.lean: the nine partial derivatives of magnet_cuboid_Bfield off the face
    planes (Props/C14 `cuboid_partials`)"""
    a, b, c = np.asarray(dim, float) / 2
    x, y, z = p
    cyc = lambda J: np.array([[J[2, 2], J[2, 0], J[2, 1]], [J[0, 2], J[0, 0], J[0, 1]], [J[1, 2], J[1, 0], J[1, 1]]])
    swp = lambda J: np.array([[J[0, 0], J[0, 2], J[0, 1]], [J[2, 0], J[2, 2], J[2, 1]], [J[1, 0], J[1, 2], J[1, 1]]])
    tot = (pol[0] * (cyc(_rect_jac(b, c, a, (y, z, x))) - cyc(_rect_jac(b, c, -a, (y, z, x))))
           + pol[1] * (swp(_rect_jac(a, c, b, (x, z, y))) - swp(_rect_jac(a, c, -b, (x, z, y))))
           + pol[2] * (_rect_jac(a, b, c, (x, y, z)) - _rect_jac(a, b, -c, (x, y, z))))
    return tot / (4 * np.pi)


def cuboid_local_laws(ctx, n):
    """the proved Jacobian of the Cuboid closed form against 4th-order central differences of the REAL kernel, at observers
    in all octants, outside and strictly inside, off the face planes; its trace (div B) and antisymmetric part (curl)"""
    from magpylib._src.fields.field_BH_cuboid import magnet_cuboid_Bfield
    rng, fails, worst = ctx.rng, [], 0.0
    for _ in range(n):
        nps = np.random.default_rng(rng.randrange(2**31))
        dim, pol = nps.uniform(0.3, 3.0, 3), nps.normal(size=3)
        if rng.random() < 0.4:
            p = nps.uniform(-0.9, 0.9, 3) * dim / 2          # strictly inside
        else:
            p = nps.uniform(-2.5, 2.5, 3) * dim
        gap = np.abs(np.abs(p) - dim / 2).min()
        if gap < 0.05 * dim.min():
            continue
        h = 2e-3 * gap
        B = lambda q: magnet_cuboid_Bfield(observers=np.atleast_2d(q), dimensions=np.tile(dim, (len(np.atleast_2d(q)), 1)),
                                           polarizations=np.tile(pol, (len(np.atleast_2d(q)), 1)))
        J = np.zeros((3, 3))
        for j in range(3):
            e = np.zeros(3)
            e[j] = h
            f = B(np.array([p + 2 * e, p + e, p - e, p - 2 * e]))
            J[:, j] = (-f[0] + 8 * f[1] - 8 * f[2] + f[3]) / (12 * h)
        Ja = cuboid_jacobian(dim, pol, p)
        scale = np.abs(Ja).max() + 1e-300
        err = max(np.abs(J - Ja).max(), abs(np.trace(J)), np.abs(J - J.T).max()) / scale
        worst = max(worst, float(err))
        if not err < 1e-6:
            fails.append({"key": "integral-law:cuboid-local-jacobian",
                          "desc": f"partial derivatives of magnet_cuboid_Bfield differ from the proved Jacobian / div B, curl B not zero off the face planes (relative {err:.2g})",
                          "replay": {"dimension": dim.tolist(), "polarization": pol.tolist(), "observer": p.tolist(), "rel": float(err)}})
    return fails, worst


def triangle_jacobian(v, pol, p):
    """`TriDiv.triJac v0 v1 v2 pol p` of Lemmas/TriangleDiv.lean: the nine partial derivatives of triangle_Bfield off the plane of the
    triangle (Props/C14 `triangle_partials`): sigma/(4 pi) * (n (x) grad Omega + sum_i (L_i x n) (x) grad I_i), with
    grad Omega = -sum_i beta_i R_i x L_i (Biot-Savart sum over the boundary)"""
    v, pol, p = np.asarray(v, float), np.asarray(pol, float), np.asarray(p, float)
    nn = np.cross(v[1] - v[0], v[2] - v[0])
    n = nn / np.linalg.norm(nn)
    R = v - p
    r = np.linalg.norm(R, axis=1)
    g_omega, J = np.zeros(3), np.zeros((3, 3))
    for i in range(3):
        j = (i + 1) % 3
        A, B, L = R[i], R[j], v[j] - v[i]
        l, rA, rB = np.linalg.norm(L), r[i], r[j]
        qa, qb = A @ L, B @ L
        beta = (rA + rB) / (rA * rB * (rA * rB + B @ A))
        g_omega -= beta * np.cross(A, L)
        g_i = A / (rA * (l * rA + qa)) + L / (l * (l * rA + qa)) - B / (rB * (l * rB + qb)) - L / (l * (l * rB + qb))
        J += np.outer(np.cross(L, n), g_i)
    J += np.outer(n, g_omega)
    return (n @ pol) / np.pi / 4 * J


def triangle_local_laws(ctx, n):
    """the proved Jacobian of the Triangle sheet (Props/C14 `triangle_partials`) against 4th-order central differences of the REAL
    kernel triangle_Bfield at random observers off the plane of the triangle; its trace (div B) and antisymmetric part (curl H)"""
    from magpylib._src.fields.field_BH_triangle import triangle_Bfield
    rng, fails, worst = ctx.rng, [], 0.0
    for _ in range(n):
        nps = np.random.default_rng(rng.randrange(2**31))
        v, pol = nps.uniform(-1.5, 1.5, (3, 3)), nps.normal(size=3)
        nn = np.cross(v[1] - v[0], v[2] - v[0])
        size = max(np.linalg.norm(v[1] - v[0]), np.linalg.norm(v[2] - v[1]), np.linalg.norm(v[0] - v[2]))
        if np.linalg.norm(nn) < 0.05 * size**2:
            continue                                           # sliver: skip (the closed form loses digits, not a law)
        nrm = nn / np.linalg.norm(nn)
        if rng.random() < 0.5:                                 # over / near the triangle at a moderate height (either side)
            w = nps.dirichlet(np.ones(3)) * nps.uniform(0.5, 1.6) 
            w = w / w.sum() if rng.random() < 0.5 else w
            p = w @ v + nrm * size * nps.uniform(0.1, 1.5) * rng.choice([-1, 1])
        else:
            p = v.mean(axis=0) + nps.uniform(-2.5, 2.5, 3) * size
        gap = abs((p - v[0]) @ nrm)
        if gap < 0.08 * size:
            continue
        h = 2e-3 * gap
        B = lambda q: triangle_Bfield(observers=np.atleast_2d(q), vertices=np.tile(v, (len(np.atleast_2d(q)), 1, 1)),
                                      polarizations=np.tile(pol, (len(np.atleast_2d(q)), 1)))
        J = np.zeros((3, 3))
        for j in range(3):
            e = np.zeros(3)
            e[j] = h
            f = B(np.array([p + 2 * e, p + e, p - e, p - 2 * e]))
            J[:, j] = (-f[0] + 8 * f[1] - 8 * f[2] + f[3]) / (12 * h)
        Ja = triangle_jacobian(v, pol, p)
        scale = max(np.abs(Ja).max(), np.abs(J).max()) + 1e-300
        err = max(np.abs(J - Ja).max(), abs(np.trace(J)), np.abs(J - J.T).max()) / scale
        worst = max(worst, float(err))
        if not err < 1e-6:
            fails.append({"key": "integral-law:triangle-local-jacobian",
                          "desc": f"partial derivatives of triangle_Bfield differ from the proved Jacobian / div B, curl B not zero off the plane of the triangle (relative {err:.2g})",
                          "replay": {"vertices": v.tolist(), "polarization": pol.tolist(), "observer": p.tolist(), "rel": float(err)}})
    return fails, worst


def rect_circulation(getH, a, b, axis, c, n):
    """circulation of H around the axis-aligned rectangle cut out of the box [a, b] by the plane coordinate[axis] = c, as the four
    line integrals along its sides (the form `rectCircZ4 / X4 / Y4` of lean/MagpyVerif/Lemmas/BoxLaws.lean), Gauss-Legendre with n
    nodes per side; returns (sum, sum of |terms|)"""
    x, w = gl(n)
    i, j = [(1, 2), (2, 0), (0, 1)][axis]                        # the two in-plane axes in right-handed order
    tot, mag = 0.0, 0.0
    for (ax, fixed_ax, fixed, sgn) in ((i, j, a[j], 1.0), (j, i, b[i], 1.0), (i, j, b[j], -1.0), (j, i, a[i], -1.0)):
        P = np.zeros((n, 3))
        P[:, axis] = c
        P[:, fixed_ax] = fixed
        P[:, ax] = a[ax] + x * (b[ax] - a[ax])
        f = getH(P)[:, ax] * w * (b[ax] - a[ax]) * sgn
        tot += f.sum()
        mag += np.abs(f).sum()
    return tot, mag


def tri_far_box(faces, a, b):
    """float evaluation of `BoxLaws.TriFarBox` (Lemmas/BoxLawsTriangle.lean) for every face: the eight corners of the box [a, b] on one
    side of the plane of the face with |N| >= m, 16 rho0^2 rho1^2 rho2^2 <= 1e16 m^2, 1e-30 l_i^2 |A|^2 < m^2; returns the smallest
    distance of the box from a face plane (None when the condition fails for some face)"""
    corners = np.array([[x, y, z] for z in (a[2], b[2]) for y in (a[1], b[1]) for x in (a[0], b[0])])
    dmin = np.inf
    for v0, v1, v2 in faces:
        A = np.cross(v1 - v0, v2 - v0)
        N = np.array([(v2 - c) @ np.cross(v1 - c, v0 - c) for c in corners])
        if not (np.all(N > 0) or np.all(N < 0)):
            return None
        m = np.abs(N).min()
        far2 = [sum(max((v[k] - a[k]) ** 2, (v[k] - b[k]) ** 2) for k in range(3)) for v in (v0, v1, v2)]
        if not 16 * far2[0] * far2[1] * far2[2] <= 1e16 * m * m:
            return None
        for L in (v1 - v0, v2 - v1, v0 - v2):
            if not 1e-30 * (L @ L) * (A @ A) < m * m:
                return None
        dmin = min(dmin, m / np.linalg.norm(A))
    return float(dmin)


def sheet_box_laws(ctx, n):
    """Triangle sheets, Tetrahedra and TriangularMeshes with axis-aligned boxes / rectangles that AVOID the planes of all faces and
    satisfy the proved sufficient condition `TriFarBox` face by face (Props/C14 triangle_box_flux_zero, triangle_rect_circulation_zero,
    tetra_box_flux_zero, tetra_rect_circulation_zero, trimesh_row_box_flux_zero; boxes beside a sheet, INSIDE a body and outside it):
    Gauss-Legendre flux of getB through the six faces and circulation of getH along the four sides must vanish.  Half of the cases
    evaluate the object in its own frame (the axis-aligned situation of the theorems), the other half after a random rotation and
    shift of the object (the box is then oblique in the frame of the kernel: beyond the theorems, same law)."""
    import magpylib as magpy

    rng, fails, worst, done, hyp_ok = ctx.rng, [], {}, 0, 0
    for i in range(n):
        nps = np.random.default_rng(rng.randrange(2**31))
        cls = ["Triangle", "Tetrahedron", "TriangularMesh", "Tetrahedron"][i % 4]
        want_inside = (i % 4 == 3) or (cls == "TriangularMesh" and rng.random() < 0.5)
        src = make(cls, nps)
        if cls == "Triangle":
            v = np.asarray(src.vertices, float)
            faces = [tuple(v)]
        elif cls == "Tetrahedron":
            v = np.asarray(src.vertices, float)
            faces = [(v[0], v[2], v[1]), (v[0], v[1], v[3]), (v[1], v[2], v[3]), (v[0], v[3], v[2])]
        else:
            faces = [tuple(np.asarray(t, float)) for t in np.asarray(src.mesh)]
            v = np.asarray(src.vertices, float)
        size = float(np.ptp(v, axis=0).max())
        centroid = v.mean(axis=0)
        box = None
        for _ in range(400):
            if cls == "Triangle":
                nn = np.cross(v[1] - v[0], v[2] - v[0])
                w = nps.dirichlet(np.ones(3)) * nps.uniform(0.6, 1.5)
                c = w @ v + nn / np.linalg.norm(nn) * size * nps.uniform(0.25, 1.2) * rng.choice([-1, 1])
                half = nps.uniform(0.05, 0.3, 3) * size
            elif want_inside:
                w = nps.dirichlet(np.ones(len(v)) * 3.0)
                c = 0.5 * (w @ v) + 0.5 * centroid
                half = nps.uniform(0.01, 0.1, 3) * size * nps.uniform(0.2, 1.0)
            else:
                c = centroid + nps.uniform(-1.6, 1.6, 3) * size
                half = nps.uniform(0.03, 0.2, 3) * size
            d = tri_far_box(faces, c - half, c + half)
            if d is None or d < (max(0.02 * size, 0.6 * half.max()) if want_inside else 0.12 * size):
                continue
            if cls != "Triangle":
                inside = bool(np.linalg.norm(src.getJ(c)) > 0)
                if inside != want_inside:
                    continue
            box = (c, half)
            break
        if box is None:
            continue
        hyp_ok += 1
        c, half = box
        moved = (i // 4) % 2 == 1
        if moved:
            rot, shift = R.random(rng=nps), nps.uniform(-2, 2, 3)
            src.rotate(rot, anchor=0)
            src.move(shift)
            getB = lambda P: src.getB(rot.apply(P) + shift) @ rot.as_matrix()      # field components in the object's frame
            getH = lambda P: src.getH(rot.apply(P) + shift) @ rot.as_matrix()
        else:
            getB, getH = (lambda P: src.getB(P)), (lambda P: src.getH(P))
        tot, mag = box_flux(lambda P: getB(P), c, half, 32)
        errs = {"flux": abs(tot) / (mag + 1e-300)}
        for axis in range(3):
            t2, m2 = rect_circulation(getH, c - half, c + half, axis, c[axis] + half[axis] * nps.uniform(-1, 1), 48)
            errs[f"circ{'xyz'[axis]}"] = abs(t2) / (m2 + 1e-300)
        done += 1
        where = "beside" if cls == "Triangle" else ("inside" if want_inside else "outside")
        for k, e in errs.items():
            key = f"sheet-{'flux' if k == 'flux' else 'circulation'}:{cls}:{where}"
            worst[key] = max(worst.get(key, 0.0), float(e))
            if not e < 1e-6:
                fails.append({"key": f"integral-law:{key}",
                              "desc": f"{'net flux of B through a closed box' if k == 'flux' else 'circulation of H around an axis-aligned rectangle'} "
                                      f"{where} a {cls}, off the planes of all faces, is not zero (relative {e:.2g})",
                              "replay": {"class": cls, "source": repr(src), "vertices": v.tolist(), "centre": c.tolist(), "half": half.tolist(),
                                         "moved": moved, "which": k, "rel": float(e)}})
    worst["sheet-cases"] = done
    worst["sheet-cases-with-proved-hypothesis"] = hyp_ok
    return fails, worst


def sweep(ctx, n):
    import magpylib as magpy

    rng, fails, done, worst = ctx.rng, [], 0, {}
    with warnings.catch_warnings():
        warnings.simplefilter("ignore")
        for i in range(n):
            nps = np.random.default_rng(rng.randrange(2**31))
            kind = ["flux-free", "flux-enclosing", "flux-cutting", "circ-magnet", "circ-loop-linked", "circ-loop-unlinked", "circ-polyloop", "flux-mesh-interior", "flux-segment-turns", "flux-mesh-row"][i % 10]
            if kind == "flux-mesh-row":
                # several box meshes with equal face counts evaluated in ONE call (a Collection): boxes placed inside a body,
                # across its surface and between bodies must all have zero net flux of the joint B
                from oracles.sources import mesh_row
                arrangement, meshes, cubs, dims, poss, oris = mesh_row(rng, nps, spacing=4.0)
                coll = magpy.Collection(*meshes)
                worst_err = 0.0
                for d, q in zip(dims, poss):
                    for c, half in ((q + np.array([0.05, -0.03, 0.02]) * d, np.full(3, 0.12) * d.min()),          # inside the body
                                    (q + np.array([0.0, 0.0, 0.5]) * d + [0.03, 0.02, 0.0], np.array([0.15, 0.15, 0.2]) * d.min())):  # across the top face
                        tot, mag = box_flux(lambda p: coll.getB(p), c, half, 40)
                        worst_err = max(worst_err, abs(tot) / (mag + 1e-300))
                done += 1
                worst[kind] = max(worst.get(kind, 0.0), float(worst_err))
                if not worst_err < 2e-2:
                    fails.append({"key": "integral-law:flux-mesh-row", "desc": f"net flux of the joint B of a row of box meshes ({arrangement}) through a small box inside / across a body is not zero (relative {worst_err:.2g})",
                                  "replay": {"arrangement": arrangement, "dims": [np.asarray(x).tolist() for x in dims], "rel": float(worst_err)}})
                continue
            if kind == "flux-segment-turns":
                # CylinderSegment whose angular range is written up to two full turns away from [-360, 360]: small boxes
                # across its top face at azimuths spread over the whole range; net flux of B must vanish for each
                r2, h = nps.uniform(0.8, 1.5), nps.uniform(0.5, 1.5)
                r1 = nps.uniform(0.1, 0.5) * r2
                a = nps.uniform(-180, 120) + 360.0 * rng.choice([-2, -1, 1, 2])
                b = a + nps.uniform(60, 330)
                src = magpy.magnet.CylinderSegment(dimension=(r1, r2, h, a, b), polarization=nps.uniform(-1, 1, 3))
                worst_err = 0.0
                for frac in (0.06, 0.5, 0.94):
                    ph = np.radians(a + frac * (b - a))
                    c = np.array([(r1 + r2) / 2 * np.cos(ph), (r1 + r2) / 2 * np.sin(ph), h / 2])
                    half = np.array([0.04, 0.04, 0.1]) * (1 + nps.uniform(0, 0.5, 3))
                    tot, mag = box_flux(lambda p: src.getB(p), c, half, 32)
                    worst_err = max(worst_err, abs(tot) / (mag + 1e-300))
                done += 1
                worst[kind] = max(worst.get(kind, 0.0), float(worst_err))
                if not worst_err < 2e-2:
                    fails.append({"key": "integral-law:flux-segment-turns", "desc": f"net flux of B through a small box across the top face of a CylinderSegment with a shifted angular range is not zero (relative {worst_err:.2g})",
                                  "replay": {"dimension": [float(x) for x in src.dimension], "polarization": src.polarization.tolist(), "rel": float(worst_err)}})
                continue
            if kind == "flux-mesh-interior":
                # small boxes strung along the line from the centroid to the farthest vertex of a lopsided mesh: inside the body B is
                # smooth except across its surface, so the net flux of every box is zero whether it lies inside or cuts the surface
                from oracles.sources import params
                kw = params("TriangularMesh", nps)
                while len(kw["vertices"]) == 8:  # want a pyramid / uneven hull, not the cube
                    kw = params("TriangularMesh", nps)
                src = magpy.magnet.TriangularMesh(**kw)
                v = np.asarray(src.vertices)
                c0 = v.mean(axis=0)
                far = v[np.argmax(np.linalg.norm(v - c0, axis=1))]
                worst_err = 0.0
                for tpar in (0.15, 0.35, 0.55, 0.75):
                    c = c0 + tpar * (far - c0)
                    half = np.full(3, 0.07) * (1 + nps.uniform(0, 0.5, 3))
                    tot, mag = box_flux(lambda p: src.getB(p), c, half, 60)
                    worst_err = max(worst_err, abs(tot) / (mag + 1e-300))
                done += 1
                worst[kind] = max(worst.get(kind, 0.0), float(worst_err))
                if not worst_err < 2e-2:
                    fails.append({"key": "integral-law:flux-mesh-interior", "desc": f"net flux of B through a small box inside / cutting a TriangularMesh is not zero (relative {worst_err:.2g})",
                                  "replay": {"vertices": v.tolist(), "faces": np.asarray(src.faces).tolist(), "rel": float(worst_err)}})
                continue
            if kind.startswith("flux"):
                cls = rng.choice(MAGNETS + ["Circle", "Dipole"])
                src = make(cls, nps)
                src.rotate(R.random(rng=nps))
                if kind == "flux-free":
                    c, half = nps.uniform(3, 5, 3), nps.uniform(0.3, 1.5, 3)
                elif kind == "flux-enclosing":
                    c, half = nps.uniform(-0.2, 0.2, 3), nps.uniform(2.5, 4, 3)
                elif cls in ("Tetrahedron", "TriangularMesh", "Cuboid", "Cylinder", "CylinderSegment", "Sphere") and rng.random() < 0.6:
                    # a small box around a point inside the body (anywhere, incl. its far ends): cuts the surface or lies inside
                    from oracles.sources import interior_points
                    src.orientation = None
                    c = interior_points(cls, src, nps, 1)[0] + src.position
                    half = nps.uniform(0.05, 0.3, 3)
                else:
                    c, half = nps.uniform(0.6, 1.1, 3) * rng.choice([-1, 1]), nps.uniform(0.45, 0.8, 3)
                ncell = 24 if kind != "flux-cutting" else 160
                tot, mag = box_flux(lambda p: src.getB(p), c, half, ncell)
                err = abs(tot) / (mag + 1e-300)
                tol = 1e-6 if kind != "flux-cutting" else 2e-2  # boundary-cutting faces: integrand discontinuous
                key = f"{kind}"
            else:
                if kind == "circ-magnet":
                    src = make(rng.choice(MAGNETS), nps)
                    c, rad, rot = nps.uniform(-0.5, 0.5, 3), nps.uniform(0.05, 3), R.random(rng=nps)
                    expect, ng = 0.0, 400
                elif kind == "circ-loop-linked":
                    src = magpy.current.Circle(diameter=2.0, current=nps.uniform(-3, 3))
                    # loop in the xz-plane around the wire at (1,0,0)
                    c, rad, rot = np.array([1.0, 0, 0]), nps.uniform(0.2, 0.8), R.from_euler("x", 90, degrees=True)
                    expect, ng = src.current, 200
                    sgn_probe = True
                elif kind == "circ-loop-unlinked":
                    src = magpy.current.Circle(diameter=2.0, current=nps.uniform(-3, 3))
                    c, rad, rot = np.array([3.0, 0.5, 0.2]), nps.uniform(0.2, 1.0), R.random(rng=nps)
                    expect, ng = 0.0, 200
                else:
                    # a square loop in ordinary, nanometre and kilometre numbers, and given by vertices far from the object's origin
                    lsc = rng.choice([1.0, 1.0, 1e-9, 1e-6, 1e3])
                    off = np.array([rng.choice([0.0, 0.0, 300.0, -5000.0]) * lsc, 0.0, 0.0])
                    v = np.array([(1, 1, 0), (-1, 1, 0), (-1, -1, 0), (1, -1, 0), (1, 1, 0)], float) * nps.uniform(0.8, 1.5) * lsc + off
                    src = magpy.current.Polyline(vertices=v, current=nps.uniform(-3, 3))
                    c, rad, rot = np.array([v[0, 0], 0.0, 0.0]), nps.uniform(0.2, 0.6) * lsc, R.from_euler("x", 90, degrees=True)
                    expect, ng = src.current, 200
                    if (i // 10) % 3 == 1:
                        # a finely discretised closed coil (a few hundred segments) evaluated at ALL quadrature points in one call: the
                        # number of (observer, segment) rows is in the hundreds of thousands (where implementations start to chunk)
                        nseg = int(nps.integers(300, 700))
                        ph = np.linspace(0, 2 * np.pi, nseg + 1)
                        v = np.stack([np.cos(ph), np.sin(ph), 0 * ph], axis=1) * nps.uniform(0.8, 1.5) * lsc + off
                        v[-1] = v[0]
                        src = magpy.current.Polyline(vertices=v, current=nps.uniform(0.5, 3))
                        c, rad = np.array([v[0, 0], 0.0, 0.0]), nps.uniform(0.2, 0.6) * lsc
                        expect, ng = src.current, 1200
                tot, mag = circulation(lambda p: src.getH(p), c, rad, rot, ng)
                if kind in ("circ-loop-linked", "circ-polyloop"):
                    err = abs(abs(tot) - abs(expect)) / (abs(expect) + 1e-300)
                else:
                    err = abs(tot - expect) / (mag + 1e-300)
                tol = 1e-6 if kind != "circ-magnet" else 2e-2
                if kind == "circ-magnet":
                    # a loop through a magnet crosses its faces (H jumps) and may pass close to an edge (H diverges): the Gauss-Legendre
                    # sum converges slowly there; the tolerance follows the difference between two node counts
                    tot2, mag2 = circulation(lambda p: src.getH(p), c, rad, rot, 2 * ng + 1)
                    tol = max(tol, 3.0 * abs(tot2 - tot) / (mag + 1e-300))
                key = kind
            done += 1
            worst[key] = max(worst.get(key, 0.0), float(err))
            if not err < tol:
                fails.append({"key": f"integral-law:{key}", "desc": f"flux/circulation law violated (relative {err:.2g})",
                              "replay": {"kind": kind, "source": repr(src), "centre": np.asarray(c).tolist(), "rel": float(err)}})
    # FAR surfaces and loops: a closed box whose faces lie 60 … 190 source sizes away (face centres nearer, corners farther: the
    # surface crosses any sphere r = const x size in that range) and a circle of such a radius around an elongated / flat body —
    # if the returned field switched to another expression beyond some distance, the patched field would not be source-free there
    from oracles.sources import local_size
    with warnings.catch_warnings():
        warnings.simplefilter("ignore")
        for i in range(max(6, n // 5)):
            nps = np.random.default_rng(rng.randrange(2**31))
            cls = MAGNETS[i % len(MAGNETS)]
            src = make(cls, nps)
            if cls == "Cuboid":
                src.dimension = np.array(src.dimension) * rng.choice([(1, 2, 4), (5, 4, 0.8), (1, 1, 5), (3, 1, 1)])
            src.rotate(R.random(rng=nps))
            L = float(local_size(src))
            if i % 2 == 0:
                c, half = nps.uniform(-10, 10, 3) * L, nps.uniform(60, 110, 3) * L
                tot, mag = box_flux(lambda p: src.getB(p), c, half, 32)
                key = "far-flux"
            else:
                c, rad, rot = nps.uniform(-10, 10, 3) * L, nps.uniform(70, 150) * L, R.random(rng=nps)
                c = c + rot.apply([rad * nps.uniform(0.2, 0.6), 0, 0])  # off-centre: the loop's distance from the body varies along it
                tot, mag = circulation(lambda p: src.getH(p), c, rad, rot, 200)
                key = "far-circulation"
            err = abs(tot) / (mag + 1e-300)
            done += 1
            worst[key] = max(worst.get(key, 0.0), float(err))
            # the closed forms lose digits like (distance / size)^3; the elliptic-integral forms lose more (cf. the far stratum of C01)
            if not err < {"CylinderSegment": 2e-5, "Cylinder": 3e-6}.get(cls, 2e-7):
                fails.append({"key": f"integral-law:{key}:{cls}", "desc": f"{'net flux of B through a closed box' if key == 'far-flux' else 'circulation of H around a circle'} 60 … 190 source sizes "
                              f"away from a {cls} is not zero (relative {err:.2g})", "replay": {"class": cls, "source": repr(src), "centre": np.asarray(c).tolist(), "rel": float(err)}})
    # ONE TriangularMesh made of two separate bodies, each consistently wound but the second given inside-out (a mesh assembled from
    # parts with different conventions), default reorientation: the flux of B through a closed box around a corner of EITHER body is zero
    with warnings.catch_warnings():
        warnings.simplefilter("ignore")
        for i in range(max(3, n // 12)):
            nps = np.random.default_rng(rng.randrange(2**31))
            from oracles.sources import CUBE12
            d1, d2 = nps.uniform(0.6, 1.4, 3), nps.uniform(0.6, 1.4, 3)
            corners = np.array([[x, y, z] for x in (-1, 1) for y in (-1, 1) for z in (-1, 1)], float)
            v1, v2 = corners * d1 / 2, corners * d2 / 2 + np.array([3.0, 0.4, -0.3])
            f1 = np.array(CUBE12)
            cen1 = v1.mean(axis=0)
            out1 = np.array([t if np.dot(np.cross(v1[t[1]] - v1[t[0]], v1[t[2]] - v1[t[0]]), v1[list(t)].mean(axis=0) - cen1) > 0 else [t[0], t[2], t[1]] for t in f1.tolist()])
            f2 = out1[:, ::-1] + 8  # the second body wound the other way round
            if rng.random() < 0.5:
                verts, faces = np.concatenate([v1, v2]), np.concatenate([out1, f2])
            else:
                verts, faces = np.concatenate([v1, v2]), np.concatenate([out1[:, ::-1], f2[:, ::-1]])  # first inside-out, second outwards
            mesh2 = magpy.magnet.TriangularMesh(vertices=verts, faces=faces, polarization=nps.uniform(-1, 1, 3), check_disconnected="ignore", check_selfintersecting="ignore")
            worst_err = 0.0
            for vv, dd in ((v1, d1), (v2, d2)):
                c = vv.mean(axis=0) + dd / 2 * nps.choice([-1, 1], 3) * 0.8  # a box around a point near a corner: cuts three faces
                half = dd * nps.uniform(0.25, 0.35, 3)
                tot, mag = box_flux(lambda p: mesh2.getB(p), c, half, 80)
                worst_err = max(worst_err, abs(tot) / (mag + 1e-300))
            done += 1
            worst["flux-two-bodies"] = max(worst.get("flux-two-bodies", 0.0), float(worst_err))
            if not worst_err < 2e-2:
                fails.append({"key": "integral-law:flux-two-bodies", "desc": f"a TriangularMesh of two separate boxes given with opposite windings: net flux of B through a box cutting a corner of one body is not zero (relative {worst_err:.2g})",
                              "replay": {"vertices": verts.tolist(), "faces": faces.tolist(), "rel": float(worst_err)}})
    # after the main loop (the case sequence above is unchanged): the proved Cuboid Jacobian against the real kernel
    with warnings.catch_warnings():
        warnings.simplefilter("ignore")
        f2, w2 = cuboid_local_laws(ctx, max(4, n // 4))
    fails += f2
    worst["cuboid-local-jacobian"] = w2
    # the proved Triangle Jacobian (Props/C14 triangle_partials) against the real kernel, off the plane of the sheet
    with warnings.catch_warnings():
        warnings.simplefilter("ignore")
        f3, w3 = triangle_local_laws(ctx, max(6, n // 3))
    fails += f3
    worst["triangle-local-jacobian"] = w3
    # Triangle / Tetrahedron / TriangularMesh: boxes and rectangles off the planes of all faces (Props/C14 triangle_box_flux_zero, …)
    with warnings.catch_warnings():
        warnings.simplefilter("ignore")
        f4, w4 = sheet_box_laws(ctx, max(8, n // 3))
    fails += f4
    worst.update(w4)
    return fails, {"c14_cases": done, "c14_worst": {k: float(f"{v:.3g}") for k, v in worst.items()}}
