"""C16 failing-input search on the real TriangularMesh: closed polyhedra (boxes, convex hulls, prisms, an
L-shaped non-convex union) under random face permutations, vertex renumberings and flipped subsets of
faces: status flags, outward orientation after reorientation, H outside invariant; derived meshes
(face deleted, two disjoint parts, two interpenetrating parts) must be flagged.  Since the repair of check_selfintersecting
(zero signed volume fits both signs, corner mask, r_factor 2, lengths in units of the mesh size) the bodies it used to miss are
asserted on every run — edges crossing edges (Stella octangula, cube + copy shifted by half the space diagonal), facet pairs with
far-apart centroids (two spikes, two needles), a spike through a box face — each at sizes 1e-9 … 1e9 and moved away from the origin
by 1e7 sizes; and valid closed meshes (hulls, boxes with subdivided faces, prisms, tetrahedra; rotated) at the same sizes and
offsets must not be flagged."""
import warnings

import numpy as np

from corr.mesh_family import CUBE
from oracles.sources import far_points


def box(d, off=(0, 0, 0)):
    v = np.array([[x, y, z] for x in (-1, 1) for y in (-1, 1) for z in (-1, 1)], float) * np.asarray(d) / 2 + np.asarray(off)
    return v, np.array(CUBE)


def hull(nps, n):
    from scipy.spatial import ConvexHull
    p = nps.normal(size=(n, 3))
    p /= np.linalg.norm(p, axis=1)[:, None]
    p *= nps.uniform(0.6, 1.2, (n, 1))
    h = ConvexHull(p)
    return p, h.simplices.copy()


def prism(nps, k):
    ph = np.sort(nps.uniform(0, 2 * np.pi, k))
    ring = np.stack([np.cos(ph), np.sin(ph)], axis=1)
    v = np.concatenate([np.c_[ring, -0.5 * np.ones(k)], np.c_[ring, 0.5 * np.ones(k)]])
    f = []
    for i in range(1, k - 1):
        f += [[0, i + 1, i], [k, k + i, k + i + 1]]
    for i in range(k):
        j = (i + 1) % k
        f += [[i, j, k + j], [i, k + j, k + i]]
    return v, np.array(f)


def lshape():
    # union of two boxes sharing a face, as one closed mesh: extrude an L polygon
    poly = np.array([(0, 0), (2, 0), (2, 1), (1, 1), (1, 2), (0, 2)], float)
    k = len(poly)
    v = np.concatenate([np.c_[poly, np.zeros(k)], np.c_[poly, np.ones(k)]])
    tris2d = [(0, 1, 2), (0, 2, 3), (0, 3, 5), (3, 4, 5)]
    f = []
    for a, b, c in tris2d:
        f += [[a, c, b], [k + a, k + b, k + c]]
    for i in range(k):
        j = (i + 1) % k
        f += [[i, j, k + j], [i, k + j, k + i]]
    return v, np.array(f)


def convex_copies_overlap(v, shift, margin=1e-3):
    """do conv(v) and conv(v) + shift overlap with some room?  0 lies `margin`·size inside the Minkowski difference"""
    from scipy.spatial import ConvexHull
    d = (v[:, None, :] - (v + shift)[None, :, :]).reshape(-1, 3)
    try:
        h = ConvexHull(d)
    except Exception:  # noqa: BLE001  (degenerate difference body)
        return False
    return bool(h.equations[:, 3].max() < -margin * np.ptp(v, axis=0).max())


def scramble(rng, v, f):
    perm = np.arange(len(v))
    rng.shuffle(perm)
    inv = np.argsort(perm)
    v2 = v[perm]
    f2 = inv[f]
    order = list(range(len(f2)))
    rng.shuffle(order)
    f2 = f2[order]
    out = []
    for face in f2:
        k = rng.randrange(3)
        face = np.roll(face, k)
        if rng.random() < 0.5:
            face = face[[0, 2, 1]]
        out.append(face)
    return v2, np.array(out)


def outward_ok(mesh, interior_volume_sign=1):
    """signed volume of the reoriented mesh must be positive (all faces outward for a closed mesh)"""
    m = mesh.mesh
    vol = np.einsum("ij,ij->i", m[:, 0], np.cross(m[:, 1], m[:, 2])).sum() / 6
    return vol > 0


def sweep(ctx, n):
    import magpylib as magpy

    rng, fails, done, kinds = ctx.rng, [], 0, {}

    def bad(key, desc, rep=None):
        fails.append({"key": key, "desc": desc, "replay": rep or {}})

    with warnings.catch_warnings():
        warnings.simplefilter("ignore")
        for i in range(n):
            nps = np.random.default_rng(rng.randrange(2**31))
            kind = ["box", "hull", "prism", "lshape", "wedge"][i % 5]
            if kind == "box":
                v, f = box(nps.uniform(0.5, 2, 3))
            elif kind == "hull":
                v, f = hull(nps, rng.choice([5, 8, 12, 20]))
            elif kind == "prism":
                v, f = prism(nps, rng.choice([3, 4, 6]))
            elif kind == "wedge":
                # flat wedge: the two caps are needle-shaped triangles (height/base 1e-4 … 1e-2), the sides are well shaped
                v, f = prism(nps, 3)
                v[[0, 3], :2], v[[1, 4], :2] = (0.0, 0.0), (1.0, 0.0)
                v[[2, 5], :2] = (nps.uniform(0.2, 0.8), 10.0 ** nps.uniform(-4, -2))
            else:
                v, f = lshape()
                v = v * nps.uniform(0.5, 1.5)
            pol = nps.uniform(-1, 1, 3)
            ref = magpy.magnet.TriangularMesh(vertices=v, faces=f, polarization=pol, check_selfintersecting="ignore")
            centre = v.mean(axis=0)
            obs = centre + far_points(nps, 4, lo=3, hi=6)
            Href = ref.getH(obs)
            inside_pt = v.mean(axis=0) if kind != "lshape" else v[[0, 1, 5]].mean(axis=0) * 0 + np.array([0.5, 0.5, 0.5]) * (v.max() / 2)
            Jref = magpy.getJ(ref, inside_pt)
            done += 1
            kinds[kind] = kinds.get(kind, 0) + 1
            for _ in range(3 if kind != "wedge" else 8):
                v2, f2 = scramble(rng, v, f)
                m = magpy.magnet.TriangularMesh(vertices=v2, faces=f2, polarization=pol, check_selfintersecting="warn")
                flags = (m.status_open, m.status_disconnected, m.status_selfintersecting)
                if flags != (False, False, False):
                    bad(f"status:{kind}:closed-mesh-flagged", f"closed connected mesh reported (open, disconnected, selfintersecting) = {flags}", {"vertices": v2.tolist(), "faces": f2.tolist()})
                    continue
                if not outward_ok(m):
                    bad(f"orientation:{kind}", "faces not all outwards after reorientation", {"vertices": v2.tolist(), "faces": f2.tolist()})
                H = m.getH(obs)
                if not np.allclose(H, Href, rtol=1e-8, atol=1e-10 * np.max(np.abs(Href))):
                    bad(f"field-depends-on-input-order:{kind}", "H outside depends on face order / winding / vertex numbering", {"vertices": v2.tolist(), "faces": f2.tolist()})
                if not np.allclose(magpy.getJ(m, inside_pt), Jref):
                    bad(f"inside-depends-on-input-order:{kind}", "inside/outside decision depends on face order / winding", {"vertices": v2.tolist(), "faces": f2.tolist()})
            # the same body handed over as a triangle SOUP (from_mesh / from_triangles: vertices are recovered by merging equal
            # corners), in small or large length units, with one vertex at the origin whose zeros carry mixed signs (a mirrored
            # half, negated coordinates, STL data): equal points are one vertex, the body is closed, connected, and is the body
            # the triangles describe
            if kind != "wedge":
                ssc = rng.choice([1.0, 1e-3, 1e-5, 2e-6, 1e3])
                v0 = (v - v[rng.randrange(len(v))]) * ssc
                v2, f2 = scramble(rng, v0, f)
                soup = np.array(v2[f2], dtype=float)
                zero = soup == 0.0
                soup[zero & (nps.random(soup.shape) < 0.5)] = -0.0
                via = rng.choice(["from_mesh", "from_triangles"])
                kinds[f"soup:{via}"] = kinds.get(f"soup:{via}", 0) + 1
                if via == "from_mesh":
                    ms = magpy.magnet.TriangularMesh.from_mesh(mesh=soup, polarization=pol, check_selfintersecting="ignore")
                else:
                    ms = magpy.magnet.TriangularMesh.from_triangles(triangles=[magpy.misc.Triangle(vertices=t_, polarization=pol) for t_ in soup], polarization=pol, check_selfintersecting="ignore")
                refs = magpy.magnet.TriangularMesh(vertices=v0, faces=f, polarization=pol, check_selfintersecting="ignore")
                obs_s = (obs - v[0] * 0 - (v - v0 / ssc)[0]) * ssc
                Hs, Hr = ms.getH(obs_s), refs.getH(obs_s)
                if (ms.status_open, ms.status_disconnected) != (False, False) or len(ms.vertices) != len(np.unique(f)):
                    bad(f"status:soup:{via}", f"{via} of a closed connected body ({len(np.unique(f))} distinct corners, one at the origin with mixed signed zeros, lengths x {ssc:g}): "
                        f"open={ms.status_open}, disconnected={ms.status_disconnected}, {len(ms.vertices)} vertices", {"mesh": soup.tolist(), "signed_zeros": True})
                elif not np.allclose(Hs, Hr, rtol=1e-8, atol=1e-10 * np.max(np.abs(Hr))):
                    bad(f"field:soup:{via}", f"{via}: H of the body built from its triangles differs from the body built from vertices and faces (lengths x {ssc:g}, "
                        f"rel. dev. {float(np.max(np.abs(Hs - Hr)) / np.max(np.abs(Hr))):.2g})", {"mesh": soup.tolist(), "scale": ssc})
            if kind == "box":
                # a box with one corner cut off by a tiny facet (0.1% … 1% of the box), that facet listed FIRST and wound outwards:
                # the seed of the orientation sweep is a facet whose edges are short compared with the mesh
                from scipy.spatial import ConvexHull
                d = nps.uniform(0.5, 2, 3)
                eps_c = 10.0 ** nps.uniform(-3, -2)
                corners = np.array([[x, y, z] for x in (0, 1) for y in (0, 1) for z in (0, 1)], float)
                cut = np.array([[1 - eps_c, 1, 1], [1, 1 - eps_c, 1], [1, 1, 1 - eps_c]])
                vc = np.concatenate([corners[:-1], cut]) * d
                hf = ConvexHull(vc).simplices
                cen = vc.mean(axis=0)
                nrm = np.cross(vc[hf[:, 1]] - vc[hf[:, 0]], vc[hf[:, 2]] - vc[hf[:, 0]])
                flip = np.einsum("ij,ij->i", nrm, vc[hf].mean(axis=1) - cen) < 0
                hf[flip] = hf[flip][:, ::-1]  # all outwards
                tiny = int(np.argmin(np.linalg.norm(nrm, axis=1)))
                order = [tiny] + [j for j in range(len(hf)) if j != tiny]
                fc = hf[order]
                if rng.random() < 0.5:  # some of the OTHER faces given inside-out
                    sel = nps.random(len(fc)) < 0.3
                    sel[0] = False
                    fc[sel] = fc[sel][:, ::-1]
                mc = magpy.magnet.TriangularMesh(vertices=vc, faces=fc, polarization=pol, check_selfintersecting="ignore")
                kinds["chamfer"] = kinds.get("chamfer", 0) + 1
                if not outward_ok(mc):
                    bad("orientation:chamfer", f"a box with a corner cut off by a facet of {eps_c:.2g} box sizes, listed first and wound outwards: faces are not all outwards after reorientation",
                        {"vertices": vc.tolist(), "faces": fc.tolist()})
            if kind == "prism":
                # a prism one of whose side walls is a SLIVER (two base corners 1e-2 … 1e-4 of the size apart), that wall's two facets
                # listed first and starting with their short edge, wound outwards: the seed of the orientation sweep must not be
                # judged by a check point that falls inside the ray test's own touch tolerance (repaired in /repo ed093b8)
                kk = rng.choice([3, 4, 5])
                ang = np.sort(nps.uniform(0, 2 * np.pi, kk))
                ang = np.concatenate([ang, [ang[-1] + 10.0 ** nps.uniform(-4, -2)]])
                ring = np.stack([np.cos(ang), np.sin(ang)], axis=1)
                nn = len(ring)
                vp = np.array([[x_, y_, z_] for z_ in (-0.5, 0.5) for x_, y_ in ring]) * nps.uniform(0.5, 2)
                fp = [[nn - 1 + nn, nn - 1, nn - 2], [nn - 1 + nn, nn - 2, nn - 2 + nn]]  # the sliver wall between ring corners nn-2 and nn-1
                for k_ in range(nn):
                    k2 = (k_ + 1) % nn
                    if k_ != nn - 2:
                        fp += [[k_, k2, nn + k2], [k_, nn + k2, nn + k_]]
                fp += [[0, k_ + 1, k_] for k_ in range(1, nn - 1)] + [[nn, nn + k_, nn + k_ + 1] for k_ in range(1, nn - 1)]
                fp = np.array(fp)
                cenp = vp.mean(axis=0)
                for j_ in range(len(fp)):  # all outwards; the two sliver facets start with their short (vertical edge is long) edge
                    t_ = vp[fp[j_]]
                    if np.dot(np.cross(t_[1] - t_[0], t_[2] - t_[0]), t_.mean(axis=0) - cenp) < 0:
                        fp[j_] = fp[j_][::-1]
                for j_ in (0, 1):
                    t_ = vp[fp[j_]]
                    k0 = int(np.argmin([np.linalg.norm(t_[k_] - t_[(k_ + 1) % 3]) for k_ in range(3)]))
                    fp[j_] = fp[j_][[k0, (k0 + 1) % 3, (k0 + 2) % 3]]
                if rng.random() < 0.5:
                    sel = nps.random(len(fp)) < 0.3
                    sel[0] = False
                    fp[sel] = fp[sel][:, ::-1]
                mp = magpy.magnet.TriangularMesh(vertices=vp, faces=fp, polarization=pol, check_selfintersecting="ignore")
                kinds["sliver-first"] = kinds.get("sliver-first", 0) + 1
                if (mp.status_open, mp.status_disconnected) != (False, False) or not outward_ok(mp):
                    bad("orientation:sliver-first", "a prism with a sliver side wall whose facets are listed first, start with their short edge and are wound outwards: "
                        f"open={mp.status_open}, disconnected={mp.status_disconnected}, faces are not all outwards after reorientation", {"vertices": vp.tolist(), "faces": fp.tolist()})
            # derived meshes
            fdel = np.delete(f, rng.randrange(len(f)), axis=0)
            m = magpy.magnet.TriangularMesh(vertices=v, faces=fdel, polarization=pol, check_open="ignore", check_disconnected="ignore", reorient_faces="ignore", check_selfintersecting="ignore")
            m.check_open(mode="ignore")
            if m.status_open is not True:
                bad(f"status:{kind}:open-not-detected", "mesh with a deleted face not reported open")
            v3, f3 = np.concatenate([v, v + np.array([10.0, 0, 0])]), np.concatenate([f, f + len(v)])
            m = magpy.magnet.TriangularMesh(vertices=v3, faces=f3, polarization=pol, check_disconnected="ignore", check_selfintersecting="ignore")
            m.check_disconnected(mode="ignore")
            if m.status_disconnected is not True:
                bad(f"status:{kind}:disconnected-not-detected", "two disjoint parts not reported disconnected")
            shift = (v.max(axis=0) - v.min(axis=0)) * np.array([0.37, 0.21, 0.13])
            v4, f4 = np.concatenate([v, v + shift]), np.concatenate([f, f + len(v)])
            m = magpy.magnet.TriangularMesh(vertices=v4, faces=f4, polarization=pol, check_disconnected="ignore", check_selfintersecting="ignore", reorient_faces="ignore")
            m.check_selfintersecting(mode="ignore")
            # the copies of a thin convex body translated by a fixed fraction of the bounding box can be DISJOINT (thin prisms, flat
            # hulls: the two formerly recorded "findings" were such cases): demand a flag only when they properly overlap
            if m.status_selfintersecting is not True and (kind == "lshape" or convex_copies_overlap(v, shift)):
                bad(f"status:{kind}:selfintersection-not-detected", "two interpenetrating parts not reported self-intersecting")
        # bodies made of several disjoint closed parts where WHOLE parts are given inside-out (every directed edge still occurs
        # once): after the default reorientation every part must point outwards and H equals the sum of the Cuboid fields
        for trial in range(max(2, n // 8)):
            nps = np.random.default_rng(rng.randrange(2**31))
            nparts = rng.choice([2, 2, 3])
            dims = [nps.uniform(0.5, 1.5, 3) for _ in range(nparts)]
            offs = [np.array([3.0 * j, 0.0, 0.0]) for j in range(nparts)]
            flips = [rng.random() < 0.5 for _ in range(nparts)]
            if all(flips) or not any(flips):
                flips[rng.randrange(nparts)] = not flips[0]
            vv, ff = [], []
            for d, o, fl in zip(dims, offs, flips):
                v, f = box(d)
                if fl:
                    f = f[:, [0, 2, 1]]
                ff.append(f + sum(len(x) for x in vv))
                vv.append(v + o)
            vv, ff = np.concatenate(vv), np.concatenate(ff)
            ff = ff[nps.permutation(len(ff))]
            pol = nps.uniform(-1, 1, 3)
            m = magpy.magnet.TriangularMesh(vertices=vv, faces=ff, polarization=pol, check_disconnected="ignore", check_selfintersecting="ignore")
            done += 1
            kinds["parts-flipped"] = kinds.get("parts-flipped", 0) + 1
            tri = m.mesh
            okparts = True
            for d, o in zip(dims, offs):
                sel = np.all(np.abs(tri.reshape(len(tri), -1, 3) - o) <= d / 2 + 1e-9, axis=(1, 2))
                t = tri[sel] - o
                vol = np.einsum("ij,ij->i", t[:, 0], np.cross(t[:, 1], t[:, 2])).sum() / 6
                if not vol > 0:
                    okparts = False
            obs = far_points(nps, 4, lo=6, hi=9) + np.array([3.0 * (nparts - 1) / 2, 0, 0])
            Href = sum(magpy.magnet.Cuboid(dimension=d, polarization=pol, position=o).getH(obs) for d, o in zip(dims, offs))
            if not okparts or not np.allclose(m.getH(obs), Href, rtol=1e-8, atol=1e-10 * np.max(np.abs(Href))):
                bad("orientation:parts-flipped", "a mesh of several disjoint boxes with whole boxes given inside-out is not oriented outwards part by part after reorientation",
                    {"dims": [x.tolist() for x in dims], "flipped_parts": flips, "faces": ff.tolist()})
        # a thin spike piercing the interior of one triangle of a box face (no mutual edge crossings), for every
        # relative order of spike faces and box faces
        for trial in range(max(2, n // 8)):
            nps = np.random.default_rng(rng.randrange(2**31))
            v, f = box((2.0, 2.0, 2.0))
            # triangle [4,6,7] of the x=+1 face has vertices (1,-1,-1),(1,1,-1),(1,1,1): pick a point well inside it
            w = nps.dirichlet((3, 3, 3))
            tri = v[[4, 6, 7]]
            c = w @ tri
            e = 0.03
            spike = np.array([c + (1.5, 0, 0), c + (-0.6, e, 0), c + (-0.6, -e, e), c + (-0.6, -e, -e)])
            sf = np.array([[0, 1, 2], [0, 2, 3], [0, 3, 1], [1, 3, 2]])
            for order in ("spike-first", "box-first", "shuffled"):
                if order == "spike-first":
                    vv, ff = np.concatenate([spike, v]), np.concatenate([sf, f + 4])
                elif order == "box-first":
                    vv, ff = np.concatenate([v, spike]), np.concatenate([f, sf + 8])
                else:
                    vv, ff = np.concatenate([v, spike]), np.concatenate([f, sf + 8])
                    ff = ff[nps.permutation(len(ff))]
                m = magpy.magnet.TriangularMesh(vertices=vv, faces=ff, polarization=(0, 0, 1), check_disconnected="ignore", check_selfintersecting="ignore", reorient_faces="ignore")
                m.check_selfintersecting(mode="ignore")
                done += 1
                kinds["spike"] = kinds.get("spike", 0) + 1
                if m.status_selfintersecting is not True:
                    bad(f"status:spike:{order}:selfintersection-not-detected", "a spike piercing a box face is not reported as self-intersection", {"vertices": vv.tolist(), "faces": ff.tolist()})
        # ---- the self-intersecting bodies the code missed before its repair, and valid bodies it flagged: every size, far from the origin
        from oracles.known import C16_MESHES
        from scipy.spatial.transform import Rotation

        def verdict(v, f):
            m = magpy.magnet.TriangularMesh(vertices=v, faces=f, polarization=(0, 0, 1), check_open="ignore", check_disconnected="ignore", check_selfintersecting="ignore", reorient_faces="ignore")
            m.check_selfintersecting(mode="ignore")
            return bool(m.status_selfintersecting)

        scales = (1e-9, 1e-6, 1e-3, 1.0, 1e3, 1e6, 1e9)
        nps = np.random.default_rng(rng.randrange(2**31))
        bodies = {k: (np.array(C16_MESHES[k][0], float), np.array(C16_MESHES[k][1])) for k in ("stella-octangula", "cube-half-diagonal", "two-spikes", "spike-box-micro", "two-needles")}
        for name, (v, f) in bodies.items():
            generic = name in ("two-spikes", "spike-box-micro", "two-needles")  # no exact edge-through-edge incidence: any pose will do
            for sc in scales:
                for off in (0.0, 1e7):
                    vv = Rotation.random(random_state=int(nps.integers(2**31))).apply(v) if generic and off == 0.0 and sc != 1.0 else v
                    vv = (vv + off * np.array([1.0, -2.0, 3.0])) * sc
                    ff = f[nps.permutation(len(f))]
                    done += 1
                    kinds[name] = kinds.get(name, 0) + 1
                    if not verdict(vv, ff):
                        bad(f"status:{name}:selfintersection-not-detected", f"self-intersecting body not reported at size factor {sc:g}, offset {off:g} sizes", {"vertices": vv.tolist(), "faces": ff.tolist()})
        for trial in range(max(3, n // 6)):
            from corr.selfint_family import gridbox
            kind = ["hull", "gridbox", "prism", "tetra", "box"][trial % 5]
            if kind == "hull":
                v, f = hull(nps, rng.choice([8, 12, 30]))
            elif kind == "gridbox":
                v, f = gridbox(rng.choice([2, 2, 3]), nps.uniform(0.5, 2, 3))
            elif kind == "prism":
                v, f = prism(nps, rng.choice([3, 6, 16]))
            elif kind == "tetra":
                v, f = nps.normal(size=(4, 3)), np.array([[0, 2, 1], [0, 1, 3], [1, 2, 3], [0, 3, 2]])
            else:
                v, f = box(nps.uniform(0.5, 2, 3))
            v = Rotation.random(random_state=int(nps.integers(2**31))).apply(v)
            for sc in scales:
                for off in (0.0, 1e7):
                    done += 1
                    kinds["valid-" + kind] = kinds.get("valid-" + kind, 0) + 1
                    vv = (v + off * np.array([1.0, -2.0, 3.0])) * sc
                    if verdict(vv, f):
                        bad(f"status:{kind}-scaled:valid-mesh-flagged-selfintersecting", f"valid closed mesh reported self-intersecting at size factor {sc:g}, offset {off:g} sizes", {"vertices": vv.tolist(), "faces": f.tolist()})
    return fails, {"c16_meshes": done, "c16_kinds": kinds}
