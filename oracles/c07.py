"""C07 failing-input search: every public way of asking for the same field must return the same numbers"""
import warnings

import numpy as np
from scipy.spatial.transform import Rotation as R

from oracles.sources import CLASSES, far_points, field_scale, make, params

CORE = {  # class -> (core function name, field it returns, argument builder)
    "Cuboid": ("magnet_cuboid_Bfield", "B", lambda s, o: dict(observers=o, dimensions=np.tile(s.dimension, (len(o), 1)), polarizations=np.tile(s.polarization, (len(o), 1)))),
    "Sphere": ("magnet_sphere_Bfield", "B", lambda s, o: dict(observers=o, diameters=np.full(len(o), s.diameter), polarizations=np.tile(s.polarization, (len(o), 1)))),
    "Dipole": ("dipole_Hfield", "H", lambda s, o: dict(observers=o, moments=np.tile(s.moment, (len(o), 1)))),
    "Circle": ("current_circle_Hfield", "H", lambda s, o: dict(r0=np.full(len(o), s.diameter / 2), r=np.hypot(o[:, 0], o[:, 1]), z=o[:, 2], i0=np.full(len(o), s.current))),
    "Triangle": ("triangle_Bfield", "B", lambda s, o: dict(observers=o, vertices=np.tile(s.vertices, (len(o), 1, 1)), polarizations=np.tile(s.polarization, (len(o), 1)))),
}


def dict_kwargs(cls, src):
    if cls == "TriangularMesh":
        return {"mesh": src.mesh, "polarization": src.polarization}
    out = {}
    for k in ("dimension", "diameter", "vertices", "polarization", "current", "moment"):
        if hasattr(src, k):
            out[k] = getattr(src, k)
    return out


def sweep(ctx, n):
    import magpylib as magpy

    rng, fails, done, forms = ctx.rng, [], 0, {}

    def bad(key, desc, rep):
        fails.append({"key": key, "desc": desc, "replay": rep})

    for i in range(n):
        nps = np.random.default_rng(rng.randrange(2**31))
        cls = CLASSES[i % len(CLASSES)]
        lsc = [1.0, 1e-9, 1.0, 1e4, 1e-6, 1.0, 1e-3][(i // len(CLASSES)) % 7]  # the same configuration in very small / large length units, every class at every scale
        src = make(cls, nps, scale=lsc)
        pos, ori = nps.uniform(-1, 1, 3) * lsc, R.random(rng=nps)
        src.position, src.orientation = pos, ori
        obs = far_points(nps, 4, scale=lsc, lo=4, hi=8)
        sens = magpy.Sensor(pixel=obs)
        X = rng.choice("BHJM")
        get = getattr(magpy, "get" + X)
        with warnings.catch_warnings():
            warnings.simplefilter("ignore")
            ref = get(src, obs)
            sc = float(np.max(np.abs(ref))) + field_scale(src) * 1e-9
            eq = lambda a: np.shape(a) == np.shape(ref) and np.allclose(a, ref, rtol=1e-9, atol=1e-9 * sc)
            cands = {
                "src.getX(obs)": lambda: getattr(src, "get" + X)(obs),
                "sens.getX(src)": lambda: getattr(sens, "get" + X)(src),
                "getX(src,sens)": lambda: get(src, sens),
                "coll(src).getX(obs)": lambda: getattr(magpy.Collection(src.copy()), "get" + X)(obs),
                "coll(sens).getX(src)": lambda: getattr(magpy.Collection(sens.copy()), "get" + X)(src),
                "coll(src,sens).getX()": lambda: getattr(magpy.Collection(src.copy(), sens.copy()), "get" + X)(),
                "dict-single": lambda: get(cls, obs, position=pos, orientation=ori, **dict_kwargs(cls, src)),
                "dict-stacked": lambda: get(cls, obs, position=np.tile(pos, (4, 1)), orientation=R.from_quat(np.tile(ori.as_quat(), (4, 1))),
                                            **{k: ([v] * 4 if k in ("vertices", "mesh") else np.array([v] * 4)) for k, v in dict_kwargs(cls, src).items()}),
            }
            for name, f in cands.items():
                forms[name] = forms.get(name, 0) + 1
                try:
                    val = f()
                except Exception as e:
                    bad(f"interface:{cls}:{name}", f"{name} raised {type(e).__name__}: {str(e)[:120]}", {"class": cls, "field": X, "form": name})
                    continue
                if not eq(np.asarray(val)):
                    bad(f"interface:{cls}:{name}", f"{name} differs from get{X}(src, obs)", {"class": cls, "field": X, "form": name,
                        "max_abs_diff": float(np.max(np.abs(np.asarray(val) - ref))) if np.shape(val) == np.shape(ref) else "shape"})
            # the functional interface called for several fields in a row with the SAME caller-owned float64 arrays
            # (full per-instance shapes): every call must agree with the object-oriented result, whatever ran before
            stk = {k: (np.array([v] * 4, dtype=float) if k not in ("mesh",) else [v] * 4) for k, v in dict_kwargs(cls, src).items()}
            spos, sori = np.tile(pos, (4, 1)), R.from_quat(np.tile(ori.as_quat(), (4, 1)))
            order = list("JMBH")
            rng.shuffle(order)
            forms["dict-stacked-sequence"] = forms.get("dict-stacked-sequence", 0) + 1
            for Y in order:
                want = getattr(magpy, "get" + Y)(src, obs)
                try:
                    got = getattr(magpy, "get" + Y)(cls, obs, position=spos, orientation=sori, **stk)
                except Exception as e:
                    bad(f"interface:{cls}:dict-stacked-sequence", f"get{Y} in the sequence {''.join(order)} raised {type(e).__name__}: {str(e)[:120]}", {"class": cls, "order": order})
                    break
                scy = float(np.max(np.abs(want))) + field_scale(src) * 1e-9 * (1 if Y in "BJ" else 1 / magpy.mu_0)
                if np.shape(got) != np.shape(want) or not np.allclose(got, want, rtol=1e-9, atol=1e-9 * scy):
                    bad(f"interface:{cls}:dict-stacked-sequence", f"functional get{Y} differs from the object-oriented result when called in the sequence {''.join(order)} with the same arrays",
                        {"class": cls, "order": order, "field": Y})
                    break
            # a sensor with a moving / rotating / mirrored-orientation path vs one static sensor per path step
            if i % 2 == 0:
                mlen = rng.choice([2, 3, 4])
                a = nps.uniform(0.2, 1.2)
                ax = np.eye(3)[rng.randrange(3)]
                kind = rng.choice(["mirrored", "rotating", "translating"])
                oris = R.from_rotvec([ax * a * (-1) ** j for j in range(mlen)]) if kind == "mirrored" else (
                    R.random(mlen, rng=nps) if kind == "rotating" else R.from_quat(np.tile(R.random(rng=nps).as_quat(), (mlen, 1))))
                ppos = far_points(nps, mlen, scale=lsc, lo=5, hi=8)
                pix = nps.uniform(-0.3, 0.3, (2, 3)) * lsc
                moving = magpy.Sensor(position=ppos, orientation=oris, pixel=pix)
                full = get(src, moving, squeeze=False)[0, :, 0]
                forms[f"sensor-path:{kind}"] = forms.get(f"sensor-path:{kind}", 0) + 1
                for j in range(mlen):
                    static = magpy.Sensor(position=ppos[j], orientation=oris[j], pixel=pix)
                    step = get(src, static, squeeze=False)[0, 0, 0]
                    if not np.allclose(full[j], step, rtol=1e-9, atol=1e-9 * sc):
                        bad(f"interface:{cls}:sensor-path:{kind}", f"sensor with a {kind} path differs at step {j} from a static sensor at that pose", {"class": cls, "field": X, "kind": kind})
                        break
            # a collection and one of its own members listed again in the same call (comparing a part with the whole), in either
            # order: every entry equals what the entry gives when asked alone
            if i % 3 == 1:
                other = make(CLASSES[(i + 5) % len(CLASSES)], nps, scale=lsc)
                other.position = nps.uniform(-1, 1, 3) * lsc
                member = src.copy()
                assembly = magpy.Collection(member, other) if rng.random() < 0.5 else magpy.Collection(other, member)
                part = rng.choice([member, other])
                entries = [assembly, part] if rng.random() < 0.6 else [part, assembly]
                got = get(entries, obs, squeeze=False)
                want = [get(e_, obs, squeeze=False)[0] for e_ in entries]
                forms["part-and-whole"] = forms.get("part-and-whole", 0) + 1
                scw = max(float(np.max(np.abs(w_))) for w_ in want) + field_scale(src) * 1e-9
                for j_, w_ in enumerate(want):
                    if not np.allclose(got[j_], w_, rtol=1e-9, atol=1e-9 * scw):
                        bad(f"interface:{cls}:part-and-whole", f"get{X}([{', '.join(type(e_).__name__ for e_ in entries)}], obs): entry {j_} differs from the same entry asked alone "
                            "(a collection listed together with one of its own members)", {"class": cls, "field": X, "entry": j_, "order": [type(e_).__name__ for e_ in entries]})
                        break
            # user-defined sources, each with its OWN field function, side by side: every form gives each its own field
            if i % 4 == 3:
                A1, A2 = nps.uniform(-1, 1, (3, 3)), nps.uniform(-1, 1, (3, 3))
                c1 = magpy.misc.CustomSource(field_func=lambda field, observers, A=A1: observers @ A.T)
                c2 = magpy.misc.CustomSource(field_func=lambda field, observers, A=A2: -2.0 * (observers @ A.T) + 1.0)
                XB = rng.choice("BH")
                getc = getattr(magpy, "get" + XB)
                want = np.array([getc(c1, obs), getc(c2, obs)])
                forms["custom-sources-side-by-side"] = forms.get("custom-sources-side-by-side", 0) + 1
                cf = {"getX([c1,c2],obs)": lambda: getc([c1, c2], obs), "sens.getX(c1,c2)": lambda: getattr(sens, "get" + XB)(c1, c2),
                      "getX([c1,src,c2],obs)[[0,2]]": lambda: np.asarray(getc([c1, src, c2], obs))[[0, 2]],
                      "sumup": lambda: getc([c1, c2], obs, sumup=True), "collection": lambda: getc(magpy.Collection(c1.copy(), c2.copy()), obs)}
                for name, f in cf.items():
                    try:
                        val = np.asarray(f())
                    except Exception as e:
                        bad(f"interface:CustomSource:{name}", f"{name} raised {type(e).__name__}: {str(e)[:120]}", {"field": XB, "form": name})
                        continue
                    exp_ = want.sum(axis=0) if name in ("sumup", "collection") else want
                    if val.shape != exp_.shape or not np.allclose(val, exp_, rtol=1e-9, atol=1e-12):
                        bad(f"interface:CustomSource:{name}", f"{name}: two CustomSources with different field functions in one call do not each give their own field", {"field": XB, "form": name})
            # a NESTED collection as observers, with a sub-collection listed before a sensor of the upper level: the sensor axis
            # follows coll.sensors_all (pre-order) in every call form, and equals asking sensor by sensor
            if i % 3 == 2:
                sl = [magpy.Sensor(position=p_) for p_ in far_points(nps, 5, scale=lsc, lo=4, hi=8)]
                shape = rng.choice(["a(bc)d", "(ab)c(d)e", "a((bc)d)e"])
                if shape == "a(bc)d":
                    oc, pre = magpy.Collection(sl[0], magpy.Collection(sl[1], sl[2]), sl[3]), sl[:4]
                elif shape == "(ab)c(d)e":
                    oc, pre = magpy.Collection(magpy.Collection(sl[0], sl[1]), sl[2], magpy.Collection(sl[3]), sl[4]), sl[:5]
                else:
                    oc, pre = magpy.Collection(sl[0], magpy.Collection(magpy.Collection(sl[1], sl[2]), sl[3]), sl[4]), sl[:5]
                want = np.array([get(src, s_) for s_ in pre])
                forms["nested-observers:" + shape] = forms.get("nested-observers:" + shape, 0) + 1
                nest = {"getX(src,coll)": lambda: get(src, oc), "src.getX(coll)": lambda: getattr(src, "get" + X)(oc), "coll.getX(src)": lambda: getattr(oc, "get" + X)(src),
                        "getX(src,sensors_all)": lambda: get(src, oc.sensors_all), "getX(src,[coll])": lambda: get(src, [oc])}
                scn = float(np.max(np.abs(want))) + field_scale(src) * 1e-9
                for name, f in nest.items():
                    try:
                        val = np.asarray(f())
                    except Exception as e:
                        bad(f"interface:{cls}:nested-observers:{name}", f"{name} raised {type(e).__name__}: {str(e)[:120]}", {"class": cls, "field": X, "shape": shape})
                        continue
                    if val.shape != want.shape or not np.allclose(val, want, rtol=1e-9, atol=1e-9 * scn):
                        bad(f"interface:{cls}:nested-observers:{name}", f"{name} with a nested observer collection {shape}: the sensor axis is not the pre-order of the sensors asked one by one",
                            {"class": cls, "field": X, "shape": shape, "form": name})
            # the SAME object asked again after it was edited (attribute assignment; for a mesh: faces repaired by
            # reorient_faces() after a first evaluation): every object-oriented form must follow the object's current
            # attributes, i.e. agree with the functional interface fed with the values read back from the object
            if i % 3 == 0:
                esrc, what = src.copy(), None  # (a copy: the later comparisons of this case still use `src` as it was)
                if cls == "TriangularMesh":
                    v, f = np.asarray(src.vertices, float), np.array(src.faces)
                    flip = nps.random(len(f)) < 0.4
                    flip[0] = True
                    f[flip] = f[flip][:, ::-1]
                    esrc = magpy.magnet.TriangularMesh(vertices=v, faces=f, polarization=src.polarization, position=pos, orientation=ori,
                                                       reorient_faces="skip", check_open="skip", check_disconnected="skip", check_selfintersecting="skip")
                    get(esrc, obs)  # first evaluation with the faces as given
                    esrc.reorient_faces()
                    what = "reorient_faces() after a first evaluation"
                else:
                    get(esrc, obs)
                    attr = rng.choice([a for a in ("dimension", "diameter", "vertices", "polarization", "current", "moment") if getattr(esrc, a, None) is not None])
                    old = np.asarray(getattr(esrc, attr), float)
                    new = old * nps.uniform(1.2, 1.7) if attr in ("diameter", "current") else old * nps.uniform(1.2, 1.7, old.shape)
                    if cls == "CylinderSegment" and attr == "dimension":
                        new = old * np.array([1.3, 1.3, 1.5, 1.0, 1.0])
                    setattr(esrc, attr, new)
                    what = f"{attr} re-assigned after a first evaluation"
                kw = dict_kwargs(cls, esrc)
                if cls == "TriangularMesh":
                    kw["mesh"] = np.asarray(esrc.vertices)[np.asarray(esrc.faces)]
                want = get(cls, obs, position=pos, orientation=ori, **kw)
                sc2 = float(np.max(np.abs(want))) + field_scale(esrc) * 1e-9
                forms["after-edit"] = forms.get("after-edit", 0) + 1
                for name, f2 in {"getX(src,obs)": lambda: get(esrc, obs), "src.getX(obs)": lambda: getattr(esrc, "get" + X)(obs),
                                 "sens.getX(src)": lambda: getattr(sens, "get" + X)(esrc), "coll(src).getX(obs)": lambda: getattr(magpy.Collection(esrc.copy()), "get" + X)(obs)}.items():
                    val = np.asarray(f2())
                    if np.shape(val) != np.shape(want) or not np.allclose(val, want, rtol=1e-9, atol=1e-9 * sc2):
                        bad(f"interface:{cls}:after-edit:{name}", f"{name} after {what} differs from the functional interface fed with the object's current attribute values",
                            {"class": cls, "field": X, "form": name, "edit": what})
                        break
            # core function in the source frame
            if cls == "Polyline":
                # core function per segment, summed (every top-level interface goes through the same wrapper; the core does not)
                local = ori.inv().apply(obs - pos)
                v = np.asarray(src.vertices, float)
                raw = sum(magpy.core.current_polyline_Hfield(observers=local, segments_start=np.tile(a_, (len(local), 1)), segments_end=np.tile(b_, (len(local), 1)),
                                                             currents=np.full(len(local), src.current)) for a_, b_ in zip(v[:-1], v[1:]) if not np.array_equal(a_, b_))
                want = magpy.getH(src, obs)
                forms["core"] = forms.get("core", 0) + 1
                if not np.allclose(ori.apply(raw), want, rtol=1e-8, atol=1e-9 * (float(np.max(np.abs(ori.apply(raw)))) + 1e-300)):
                    bad("interface:Polyline:core", f"sum of core.current_polyline_Hfield over the segments differs from get{X}", {"class": cls, "field": X, "length_scale": lsc})
            if cls in CORE and X in "BH":
                fname, fld, build = CORE[cls]
                local = ori.inv().apply(obs - pos)
                raw = getattr(magpy.core, fname)(**build(src, local))
                if cls == "Circle":
                    hr, hz = raw[0], raw[2]
                    phi = np.arctan2(local[:, 1], local[:, 0])
                    raw = np.stack([hr * np.cos(phi), hr * np.sin(phi), hz], axis=1)
                coref = ori.apply(raw)
                outside_free = cls in ("Dipole", "Circle", "Triangle") or True  # observers are far outside: B = mu0 H
                want = ref if fld == X else (ref * magpy.mu_0 if (fld, X) == ("B", "H") else ref / magpy.mu_0)
                forms["core"] = forms.get("core", 0) + 1
                if not np.allclose(coref, want, rtol=1e-8, atol=1e-9 * (float(np.max(np.abs(want))) + 1e-300)):
                    bad(f"interface:{cls}:core", f"core.{fname} differs from get{X}", {"class": cls, "field": X})
            # dataframe order
            if i % 4 == 0:
                s2 = make(CLASSES[(i + 3) % len(CLASSES)], nps, scale=lsc, path=2)
                k2 = magpy.Sensor(pixel=obs[:2], position=np.array((0.1, 0.2, 0.3)) * lsc)
                arr = get([src, s2], [sens.copy(pixel=obs[:2]), k2], squeeze=False)
                df = get([src, s2], [sens.copy(pixel=obs[:2]), k2], output="dataframe")
                cols = [X + c for c in "xyz"]
                forms["dataframe"] = forms.get("dataframe", 0) + 1
                ok = np.allclose(df[cols].to_numpy(), arr.reshape(-1, 3), rtol=1e-12, atol=0)
                L, M, K, P = arr.shape[:4]
                idx = [(l, m, k, p) for l in range(L) for m in range(M) for k in range(K) for p in range(P)]
                ok = ok and list(df["path"]) == [t[1] for t in idx] and list(df["pixel"]) == [t[3] for t in idx] and len(set(df["source"])) == L
                if not ok:
                    bad("interface:dataframe", "dataframe values/order differ from the ndarray output", {"class": cls, "field": X})
        done += 1
    return fails, {"c07_cases": done, "c07_forms": forms}
