"""C18 failing-input search in the real interpreter: copies of every class and of collection trees —
equal attributes, same field, no parent, disjoint reachable mutable graphs, mutation of either side
invisible to the other, keyword overrides on the copy only, label iteration, original tree untouched."""
import types
import warnings

import numpy as np
from scipy.spatial.transform import Rotation as R

from oracles.sources import CLASSES, far_points, make

ATOMS = (int, float, str, bytes, bool, type(None), complex, types.FunctionType, types.BuiltinFunctionType, type, types.ModuleType, frozenset)


def reach(obj, stop_at=()):
    """ids of mutable objects reachable through __dict__/containers; stops at modules, classes, functions, atoms"""
    seen, stack, out = set(), [obj], {}
    while stack:
        o = stack.pop()
        if isinstance(o, ATOMS) or id(o) in seen or any(o is s for s in stop_at):
            continue
        seen.add(id(o))
        if isinstance(o, np.ndarray):
            out[id(o)] = o
            continue
        if isinstance(o, R):
            out[id(o)] = o
            continue
        out[id(o)] = o
        if isinstance(o, dict):
            stack += list(o.values())
        elif isinstance(o, (list, tuple, set)):
            stack += list(o)
        elif hasattr(o, "__dict__"):
            stack += list(vars(o).values())
    return out


def public_state(o):
    d = {"type": type(o).__name__, "pos": o._position.tolist(), "quat": np.round(o._orientation.as_quat(), 15).tolist()}
    for a in ("dimension", "diameter", "vertices", "faces", "polarization", "magnetization", "current", "moment", "pixel", "handedness"):
        if hasattr(o, a):
            v = getattr(o, a)
            d[a] = v.tolist() if isinstance(v, np.ndarray) else v
    st = o.style.as_dict()
    st.pop("label", None)
    d["style"] = repr(st)
    if hasattr(o, "children"):
        d["children"] = [public_state(c) for c in o.children]
    return d


def sweep(ctx, n):
    import magpylib as magpy

    rng, fails, done, kinds = ctx.rng, [], 0, {}

    def bad(key, desc, rep=None):
        fails.append({"key": key, "desc": desc, "replay": rep or {}})

    with warnings.catch_warnings():
        warnings.simplefilter("ignore")
        for i in range(n):
            nps = np.random.default_rng(rng.randrange(2**31))
            kind = ["leaf", "leaf-with-parent", "sensor", "collection", "nested-collection", "lazy-style", "kwargs", "label"][i % 8]
            cls = CLASSES[i % len(CLASSES)]
            done += 1
            kinds[kind] = kinds.get(kind, 0) + 1
            if kind in ("leaf", "leaf-with-parent", "lazy-style", "kwargs", "label"):
                o = make(cls, nps, path=rng.choice([1, 2, 3]))
            elif kind == "sensor":
                o = magpy.Sensor(pixel=nps.uniform(-1, 1, (2, 3)), position=nps.uniform(-1, 1, (2, 3)), handedness=rng.choice(["left", "right"]))
            else:
                kids = [make(rng.choice(CLASSES), nps, path=2) for _ in range(rng.choice([1, 2, 3]))] + [magpy.Sensor(position=(4, 4, 4))]
                if kind == "nested-collection":
                    kids = [magpy.Collection(*kids[:2], position=nps.uniform(-1, 1, 3))] + kids[2:]
                o = magpy.Collection(*kids, position=nps.uniform(-1, 1, (2, 3)), orientation=R.random(2, rng=nps))
            parent = None
            if kind in ("leaf-with-parent", "collection") and rng.random() < 0.7:
                parent = magpy.Collection(o, magpy.Sensor())
            if kind != "lazy-style":
                o.style.color = "red"
                o.style.label = rng.choice(["thing", "thing_07", "a9", "x_"])
            before_orig = public_state(o)
            parent_children = None if parent is None else [id(c) for c in parent.children]
            kw = {}
            if kind == "kwargs":
                kw = {"position": (9.0, 8.0, 7.0), "style_color": "blue"}
                if (i // 8) % 2 == 1:
                    # any documented attribute value may be an override — also None where None is a value (orientation=None is the unit
                    # rotation, pixel=None one pixel at the origin) —, in any order: the copy is what a plain copy becomes when the same
                    # values are assigned to it one after the other
                    o.orientation = R.random(len(o._position), rng=nps)
                    pool = [("position", nps.uniform(-3, 3, 3)), ("position", nps.uniform(-3, 3, (rng.choice([2, 3]), 3))), ("orientation", None), ("orientation", R.random(rng=nps)),
                            ("orientation", R.random(2, rng=nps)), ("style_color", "blue"), ("style_opacity", 0.5), ("style_label", "other")]
                    for a_ in ("dimension", "diameter", "polarization", "current", "moment"):
                        if getattr(o, a_, None) is not None:
                            val_ = np.asarray(getattr(o, a_), dtype=float) * 1.5 if a_ != "current" else float(o.current) * 1.5
                            if a_ == "dimension" and np.size(val_) == 5:  # CylinderSegment: lengths scaled, angles kept
                                val_[3:] = np.asarray(o.dimension, dtype=float)[3:]
                            pool.append((a_, val_))
                    picks = rng.sample(pool, rng.choice([1, 2, 3]))
                    kw = {}
                    for k_, v_ in picks:
                        kw[k_] = v_
                    twin = o.copy()
                    for k_, v_ in kw.items():
                        if k_.startswith("style_"):
                            twin.style.update(**{k_[6:]: v_})
                        else:
                            setattr(twin, k_, v_)
                    cg = o.copy(**kw)
                    kinds["kwargs:general"] = kinds.get("kwargs:general", 0) + 1
                    if public_state(cg) != public_state(twin) or ("style_label" in kw and cg.style.label != "other"):
                        bad(f"copy-kwargs:{'+'.join(kw)}", f"copy({', '.join(k_ + '=' + ('None' if v_ is None else type(v_).__name__) for k_, v_ in kw.items())}) is not a plain copy with these values assigned in this order",
                            {"class": type(o).__name__, "keywords": list(kw)})
                    kw = {"position": (9.0, 8.0, 7.0), "style_color": "blue"}
                    before_orig = public_state(o)  # (the original got a new orientation above)
            c = o.copy(**kw)
            # class / attributes / style equal (apart from label and overrides)
            if kind != "kwargs" and public_state(c) != before_orig:
                bad(f"copy-differs:{kind}:{type(o).__name__}", "copy's attributes/paths/style differ from the original")
            if kind == "kwargs":
                if not (np.allclose(c.position, (9, 8, 7)) and c.style.color == "blue"):
                    bad("copy-kwargs-not-applied", "copy keyword arguments not applied to the copy")
            if public_state(o) != before_orig:
                bad(f"copy-changed-original:{kind}", "copy() changed the original (attributes, style or children)")
            if c.parent is not None:
                bad(f"copy-has-parent:{kind}", "copy has a parent")
            if parent is not None and ([id(x) for x in parent.children] != parent_children or o.parent is not parent):
                bad(f"copy-touched-tree:{kind}", "copy() changed the original's parent/children links")
            # a copy that is REFUSED (a keyword value its setter rejects, a misspelt style keyword): it raises, and the original — its
            # attributes, its place in its parent, the parent's children — is exactly as before
            if parent is not None or i % 2 == 0:
                badkw = rng.choice([{"position": "bad"}, {"orientation": 5}, {"style_colour": "red"}, {"position": (1, 2)}, {"style_opacity": "thick"},
                                    {"position": (1.0, 2.0, 3.0), "orientation": "bad"}])
                before_fail = public_state(o)
                pc_before = None if parent is None else [id(x) for x in parent.children]
                try:
                    o.copy(**badkw)
                    refused = False
                except Exception:  # noqa: BLE001
                    refused = True
                kinds["refused-copy"] = kinds.get("refused-copy", 0) + 1
                if refused and (public_state(o) != before_fail or o.parent is not parent or (parent is not None and [id(x) for x in parent.children] != pc_before)
                                or (parent is not None and not any(o is x for x in parent.children))):
                    bad(f"refused-copy-changed-original:{kind}", f"copy({', '.join(badkw)}) raised and left the original changed (parent kept: {o.parent is parent}; "
                        f"still listed by its parent: {parent is None or any(o is x for x in parent.children)})", {"class": type(o).__name__, "keywords": list(badkw)})
            # subtree consistency inside the copy
            if hasattr(c, "children"):
                for ch in c.children_all:
                    if ch.parent is None or not any(ch is x for x in ch.parent.children) or any(ch is x for x in o.children_all):
                        bad(f"copy-subtree:{kind}", "copied subtree has inconsistent or shared children")
                        break
            # label iteration
            if kind != "lazy-style":
                lab, cl = o.style.label, c.style.label
                import re
                m = re.search(r"\d+$", lab)
                exp = (lab[: -len(m.group())] + f"{int(m.group()) + 1:0{len(m.group())}}") if m else lab + ("" if lab.endswith("_") else "_") + "01"
                if cl != exp:
                    bad(f"copy-label:{lab}", f"label of the copy is {cl!r}, expected {exp!r}")
            # same field
            if not isinstance(o, magpy.Sensor) and (not hasattr(o, "children") or o.sources_all) and kind != "kwargs":
                obs = far_points(nps, 3, lo=5, hi=8)
                if not np.array_equal(magpy.getB(o, obs), magpy.getB(c, obs)):
                    bad(f"copy-field:{type(o).__name__}", "copy produces a different field")
            # heap disjointness
            ro, rc = reach(o, stop_at=(parent,)), reach(c)
            shared = [type(ro[k]).__name__ for k in ro.keys() & rc.keys()]
            arrs_o = [a for a in ro.values() if isinstance(a, np.ndarray)]
            arrs_c = [a for a in rc.values() if isinstance(a, np.ndarray)]
            mem = any(np.shares_memory(a, b) for a in arrs_o for b in arrs_c if a.size and b.size)
            if shared or mem:
                bad(f"copy-shares-state:{type(o).__name__}", f"copy and original share mutable objects {shared[:4]} / array memory={mem}")
            # mutate each side, diff the other
            snap_o = public_state(o)
            c.move((1, 2, 3))
            c.style.opacity = 0.3
            if hasattr(c, "polarization") and c.polarization is not None:
                c.polarization = (9, 9, 9)
            if hasattr(c, "children") and c.children:
                c.remove(c.children[0])
            if public_state(o) != snap_o:
                bad(f"copy-mutation-leaks:{kind}", "mutating the copy changed the original")
            snap_c = public_state(c)
            o.rotate_from_angax(33, "y")
            o.style.opacity = 0.6
            if hasattr(o, "children") and o.children:
                o.add(magpy.Sensor())
            if public_state(c) != snap_c:
                bad(f"orig-mutation-leaks:{kind}", "mutating the original changed the copy")
        # originals whose style is still lazily un-initialised, copied with the same style dict plus overrides
        for cls in CLASSES[:6]:
            nps = np.random.default_rng(rng.randrange(2**31))
            d = {"color": "red", "opacity": 0.5}
            from oracles.sources import params as _params
            ctor = getattr(magpy.magnet, cls, None) or getattr(magpy.current, cls, None) or getattr(magpy.misc, cls)
            o = ctor(**_params(cls, nps), style=d)
            c = o.copy(style=d, style_color="blue", style_opacity=0.9)
            done += 1
            if d != {"color": "red", "opacity": 0.5}:
                bad("copy-kwargs-mutate-caller-dict", "copy(style=d, style_color=...) changed the caller's dict d", {"class": cls, "dict_after": d})
            if o.style.color != "red" or o.style.opacity != 0.5:
                bad("copy-kwargs-leak-into-original", f"copy keyword overrides leaked into the original (color {o.style.color!r}, opacity {o.style.opacity!r})", {"class": cls})
            if c.style.color != "blue":
                bad("copy-kwargs-not-applied", "copy keyword arguments not applied to the copy", {"class": cls})
        # lazily un-initialised styles holding mutable values (custom 3d traces): nothing may be shared after copy()
        for cls in CLASSES[:5]:
            nps = np.random.default_rng(rng.randrange(2**31))
            from oracles.sources import params as _params
            ctor = getattr(magpy.magnet, cls, None) or getattr(magpy.current, cls, None) or getattr(magpy.misc, cls)
            trace = magpy.graphics.Trace3d(backend="generic", constructor="Scatter3d", kwargs={"x": [0, 1], "y": [0, 1], "z": [0, 1]}, show=True)
            o = ctor(**_params(cls, nps), style_model3d_data=[trace], style_label="withtrace")
            parent = magpy.Collection(o) if rng.random() < 0.5 else None
            c = o.copy()
            done += 1
            ro, rc = reach(o, stop_at=(parent,)), reach(c)
            shared = [type(ro[k]).__name__ for k in ro.keys() & rc.keys()]
            c.style.model3d.data[0].show = False
            c.style.model3d.data[0].kwargs["x"] = [5, 6]
            if shared or o.style.model3d.data[0].show is not True or o.style.model3d.data[0].kwargs["x"] != [0, 1]:
                bad("copy-shares-state:lazy-style-values", f"copy of an object with an un-initialised style shares mutable style values with it ({shared[:3]})", {"class": cls})
        # initialised styles holding mutable values (custom 3d traces with arrays), objects and children of copied collections:
        # nothing may be shared after copy(); an in-place edit of a trace on either side must stay on that side
        for j, cls in enumerate(CLASSES[:6]):
            nps = np.random.default_rng(rng.randrange(2**31))
            from oracles.sources import params as _params
            ctor = getattr(magpy.magnet, cls, None) or getattr(magpy.current, cls, None) or getattr(magpy.misc, cls)
            o = ctor(**_params(cls, nps))
            o.style.label = "traced"          # style realised before the trace is attached
            xs = np.array([0.0, 1.0, 2.0])
            o.style.model3d.add_trace(backend="generic", constructor="Scatter3d", kwargs={"x": xs, "y": [0, 1, 2], "z": [0, 1, 2]}, show=True)
            o.style.model3d.add_trace(backend="matplotlib", constructor="plot", args=([0, 1], [0, 1], [0, 1]), kwargs={"ls": "--"})
            target = o
            if j % 2:
                target = magpy.Collection(o, magpy.Sensor())
            c = target.copy()
            oc = c.children[0] if j % 2 else c
            done += 1
            ro, rc = reach(o, stop_at=(target if j % 2 else None,)), reach(oc, stop_at=(c if j % 2 else None,))
            shared = [type(ro[k]).__name__ for k in ro.keys() & rc.keys()]
            mem = any(np.shares_memory(a, b) for a in ro.values() for b in rc.values()
                      if isinstance(a, np.ndarray) and isinstance(b, np.ndarray) and a.size and b.size)
            side_a, side_b = (o, oc) if j % 3 else (oc, o)
            t = side_a.style.model3d.data[0]
            t.show = False
            t.kwargs["x"][0] = 77.0
            t.kwargs["extra"] = 1
            side_a.style.model3d.data[1].kwargs["ls"] = ":"
            u = side_b.style.model3d.data[0]
            leaked = (u.show is not True) or float(np.asarray(u.kwargs["x"])[0]) != 0.0 or "extra" in u.kwargs or side_b.style.model3d.data[1].kwargs["ls"] != "--"
            if shared or mem or leaked:
                bad("copy-shares-state:model3d-traces", f"copy shares custom 3d-model traces with the original (shared objects {shared[:3]}, array memory {mem}, in-place edit leaked {leaked})",
                    {"class": cls, "inside_collection": bool(j % 2)})
        # empty label
        s = magpy.Sensor(style_label="")
        try:
            s.copy()
        except Exception as e:
            bad("copy-label:empty", f"copy() of an object with label '' raised {type(e).__name__}", {"reproduce": "magpylib.Sensor(style_label='').copy()"})
    return fails, {"c18_copies": done, "c18_kinds": kinds}
