"""C10 failing-input search on the real code: random collection trees with generic float poses
(all members sharing the path length), random operations on a random collection of the tree;
after each operation every descendant's pose in the collection frame must equal its old
relative pose at the index the new entry is based on; nodes outside the operated subtree must
be bit-identical."""
import numpy as np
from scipy.spatial.transform import Rotation as R

from oracles.c09 import window, clamp


def build(rng, nps, n, far=False):
    """`far`: a millimetre-sized assembly a long way from the origin — all members within 1e-3..1e-2 of one point whose
    coordinates are 1e2..1e5 (member offsets are small compared with the coordinates, not with the assembly)"""
    import magpylib as magpy

    centre = nps.uniform(-1, 1, 3) * 10.0 ** nps.uniform(2, 5) if far else np.zeros(3)
    spread = 10.0 ** nps.uniform(-3, -2) / 2 if far else 1.0

    def pos():
        return centre + spread * nps.uniform(-2, 2, (n, 3))

    def leaf():
        k = rng.random()
        kw = dict(position=pos(), orientation=R.random(n, rng=nps))
        if k < 0.4:
            return magpy.Sensor(**kw)
        if k < 0.7:
            return magpy.magnet.Cuboid(polarization=(0.1, 0.2, 0.3), dimension=(1, 2, 3), **kw)
        return magpy.current.Circle(current=1.3, diameter=1.1, **kw)

    def coll(depth):
        kids = []
        for _ in range(rng.choice([1, 2, 3])):
            kids.append(coll(depth - 1) if depth > 0 and rng.random() < 0.4 else leaf())
        return magpy.Collection(*kids, position=pos(), orientation=R.random(n, rng=nps))

    return coll(2)


def all_nodes(root):
    out = [root]
    for c in getattr(root, "children", []):
        out += all_nodes(c)
    return out


def snapshot(n):
    return np.array(n._position), n._orientation.as_quat().reshape(-1, 4).copy()


def rel(cp, cq, dp, dq, i):
    rc = R.from_quat(cq[i])
    return rc.inv().apply(dp[i] - cp[i]), (rc.inv() * R.from_quat(dq[i])).as_matrix()


def sweep(ctx, n_trees, n_ops):
    import magpylib as magpy

    rng = ctx.rng
    fails, done, kinds = [], 0, {}
    for _ in range(n_trees):
        nps = np.random.default_rng(rng.randrange(2**31))
        n = rng.choice([1, 2, 3, 4])
        far = rng.random() < 0.3
        root = build(rng, nps, n, far=far)
        if far:
            kinds["far-assembly"] = kinds.get("far-assembly", 0) + 1
        hist = []
        for _ in range(n_ops):
            nodes = all_nodes(root)
            colls = [x for x in nodes if isinstance(x, magpy.Collection)]
            # operate on the root (keeps the equal-length hypothesis) or, with scalar ops, on any collection
            target = root if rng.random() < 0.6 else rng.choice(colls)
            N = len(target._position)
            before = {id(x): snapshot(x) for x in nodes}
            sub = all_nodes(target)
            if any(len(x._position) != N for x in sub):
                break
            kind = rng.choice(["move", "rot", "rot", "angax", "setpos", "setori", "reset"])
            scalar_only = target is not root
            start = None if rng.random() < 0.4 else rng.randint(-N - 2, N + 2)
            idx = None
            if kind == "move":
                disp = nps.uniform(-2, 2, 3) if (scalar_only or rng.random() < 0.5) else nps.uniform(-2, 2, (rng.choice([1, 2, 3]), 3))
                target.move(disp, start="auto" if start is None else start)
                sc = disp.ndim == 1
                b, s0, n2, stop = window(sc, N, 1 if sc else len(disp), start)
                idx = [clamp(i - b, N) for i in range(n2)]
                hist.append(("move", disp.tolist(), start))
            elif kind in ("rot", "angax"):
                if kind == "angax":
                    ang = float(nps.uniform(-170, 170)) if (scalar_only or rng.random() < 0.5) else nps.uniform(-170, 170, rng.choice([1, 2, 3]))
                    ax = nps.uniform(-1, 1, 3)
                    rv = np.radians(ang)[..., None] * ax / np.linalg.norm(ax) if np.ndim(ang) else np.radians(ang) * ax / np.linalg.norm(ax)
                    rot = R.from_rotvec(rv)
                else:
                    rot = R.random(rng=nps) if (scalar_only or rng.random() < 0.5) else R.random(rng.choice([1, 2, 3]), rng=nps)
                a = rng.random()
                anchor = None if a < 0.4 else (0 if a < 0.5 else (nps.uniform(-2, 2, 3) if (a < 0.8 or scalar_only) else nps.uniform(-2, 2, (rng.choice([1, 2, 3]), 3))))
                anchor_arg = anchor
                if rng.random() < 0.2 and (N == 1 or not scalar_only):
                    # the anchor handed over is the LIVE position array of a member of the rotated tree (or of the collection
                    # itself), as in `col.rotate(rot, anchor=col.children[0].position)`; it names the same points as a copy of it
                    anchor_arg = rng.choice(sub).position
                    anchor = np.array(anchor_arg, dtype=float)
                    kinds["live-anchor"] = kinds.get("live-anchor", 0) + 1
                if kind == "angax":
                    target.rotate_from_angax(ang, ax, anchor=anchor_arg, start="auto" if start is None else start)
                else:
                    target.rotate(rot, anchor=anchor_arg, start="auto" if start is None else start)
                rsc = rot.as_quat().ndim == 1
                asc = anchor is None or np.ndim(anchor) <= 1
                L = max(0 if rsc else len(rot.as_quat()), 0 if asc else len(anchor))
                b, s0, n2, stop = window(rsc and asc, N, L, start)
                idx = [clamp(i - b, N) for i in range(n2)]
                hist.append((kind, rot.as_quat().tolist(), None if anchor is None else np.asarray(anchor).tolist(), start))
            elif kind == "setpos":
                M = N if scalar_only else rng.choice([1, 2, 3, 5])
                v = nps.uniform(-2, 2, (M, 3))
                target.position = v
                idx = [i + (N - M) if M <= N else min(i, N - 1) for i in range(M)]
                hist.append(("setpos", v.tolist()))
            elif kind == "setori":
                M = N if scalar_only else rng.choice([1, 2, 3, 5])
                r = R.random(M, rng=nps)
                how_o = rng.random()
                if how_o < 0.35 and not scalar_only:
                    # an assignment that keeps the orientation VALUES but changes the path length (None on a never-rotated collection
                    # with a longer path, the last entries of the current orientation, the current orientation padded): still an
                    # assignment — every descendant follows to the new length
                    cur = target._orientation
                    M = rng.choice([1, 2, max(1, N - 1), N + 2])
                    qc = cur.as_quat().reshape(-1, 4)
                    qn = np.array([qc[i + (N - M)] if M <= N else qc[min(i, N - 1)] for i in range(M)])
                    r = R.from_quat(qn)
                    kinds["setori-same-values-other-length"] = kinds.get("setori-same-values-other-length", 0) + 1
                elif how_o < 0.45 and not scalar_only:
                    r, M = None, 1
                    kinds["setori-none"] = kinds.get("setori-none", 0) + 1
                target.orientation = r
                if r is None:
                    r = R.identity(1)
                idx = [i + (N - M) if M <= N else min(i, N - 1) for i in range(M)]
                hist.append(("setori", r.as_quat().tolist()))
            else:
                if scalar_only and N != 1:
                    continue
                target.reset_path()
                idx = [N - 1]
                hist.append(("reset",))
            kinds[kind] = kinds.get(kind, 0) + 1
            done += 1
            bad = None
            cp0, cq0 = before[id(target)]
            cp1, cq1 = snapshot(target)
            subids = {id(x) for x in sub}
            for x in nodes:
                p1, q1 = snapshot(x)
                if id(x) not in subids:
                    p0, q0 = before[id(x)]
                    if not (np.array_equal(p0, p1) and np.array_equal(q0, q1)):
                        bad = "node outside the operated subtree changed"
                    continue
                if x is target:
                    continue
                p0, q0 = before[id(x)]
                if len(p1) != len(cp1) or len(q1) != len(cp1) or len(cp1) != len(idx):
                    bad = f"path lengths differ after op: child {len(p1)}, collection {len(cp1)}, expected {len(idx)}"
                    break
                for i, i0 in enumerate(idx):
                    rp1, rq1 = rel(cp1, cq1, p1, q1, i)
                    rp0, rq0 = rel(cp0, cq0, p0, q0, i0)
                    if not (np.allclose(rp1, rp0, atol=1e-8) and np.allclose(rq1, rq0, atol=1e-8)):
                        bad = f"relative pose of a descendant changed at index {i}"
                        break
                if bad:
                    break
            if bad:
                fails.append({"key": f"relative-pose:{kind}", "desc": bad, "replay": {"path_length": n, "history": hist}})
                break
        if len(fails) >= 3:
            break
    return fails, {"oracle_trees": n_trees, "oracle_ops": done, "oracle_kinds": kinds}


def own_sensor_sweep(ctx, n):
    """field of a collection seen by one of its own sensors is invariant under collection ops"""
    import magpylib as magpy

    rng = ctx.rng
    fails, done = [], 0
    for _ in range(n):
        nps = np.random.default_rng(rng.randrange(2**31))
        src = magpy.magnet.Cuboid(polarization=tuple(nps.uniform(-1, 1, 3)), dimension=(1, 2, 3), position=nps.uniform(-1, 1, 3), orientation=R.random(rng=nps))
        loop = magpy.current.Circle(current=2.0, diameter=1.5, position=nps.uniform(-3, -2, 3))
        sens = magpy.Sensor(position=nps.uniform(2.5, 4, 3), orientation=R.random(rng=nps))
        inner = magpy.Collection(loop, position=nps.uniform(-1, 1, 3))
        coll = magpy.Collection(src, sens, inner, position=nps.uniform(-1, 1, 3), orientation=R.random(rng=nps))
        b0 = coll.getB(sens) if False else magpy.getB(coll, sens)
        ops = []
        for _ in range(rng.choice([1, 2, 3])):
            k = rng.choice(["move", "rot", "rot0", "setpos", "setori", "euler"])
            ops.append(k)
            if k == "move":
                coll.move(nps.uniform(-3, 3, 3))
            elif k == "rot":
                coll.rotate(R.random(rng=nps), anchor=nps.uniform(-2, 2, 3))
            elif k == "rot0":
                coll.rotate(R.random(rng=nps))
            elif k == "setpos":
                coll.position = nps.uniform(-3, 3, 3)
            elif k == "setori":
                coll.orientation = R.random(rng=nps)
            else:
                coll.rotate_from_euler(float(nps.uniform(-180, 180)), "y", anchor=0)
        b1 = magpy.getB(coll, sens)
        done += 1
        if not np.allclose(b0, b1, rtol=1e-8, atol=1e-12 * float(np.max(np.abs(b0)) + 1e-30)):
            fails.append({"key": "own-sensor-field", "desc": "field seen by the collection's own sensor changed", "replay": {"ops": ops, "B_before": b0.tolist(), "B_after": b1.tolist()}})
    return fails, {"own_sensor_cases": done}
