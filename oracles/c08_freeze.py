"""C08, dynamic side of the write-set analysis (translate/writeset.py): every numpy array that exists BEFORE the call — every
ndarray attribute of every involved object (paths, geometry, excitation, pixel, mesh) and every array handed in by the caller — is
made read-only (`arr.flags.writeable = False`), then getB/getH/getJ/getM is called through every interface.  numpy raises
`ValueError: assignment destination is read-only` at the first in-place write into such memory, so a site that the translator
classifies `fresh` but that reaches pre-existing array memory on an executed path shows up as a failing input here (this checks the
TRUSTED points-to classification on the paths that are run; it cannot see writes to python lists / attributes — those are the
snapshot oracle's, oracles/c08.py).  The result must equal the result of the same call before freezing (bit for bit)."""
import warnings

import numpy as np

from oracles.c08 import all_objs, snap_obj
from oracles.sources import CLASSES, far_points, make, params


def _arrays_of(o, seen):
    out = []
    for a, v in vars(o).items():
        if isinstance(v, np.ndarray) and id(v) not in seen:
            seen.add(id(v))
            out.append((type(o).__name__ + "." + a, v))
    for c in getattr(o, "_children", []):
        out += _arrays_of(c, seen)
    return out


def _freeze(named):
    frozen = []
    for name, v in named:
        base = v
        while isinstance(base.base, np.ndarray):
            base = base.base
        for x in (base, v):
            if x.flags.writeable:
                x.flags.writeable = False
                frozen.append(x)
    return frozen


def _same(a, b):
    if hasattr(a, "equals"):  # DataFrame: the numeric columns (a position-vector observer is wrapped in a new Sensor whose id is its label)
        return bool(a.select_dtypes("number").equals(b.select_dtypes("number")))
    return np.array_equal(np.asarray(a), np.asarray(b), equal_nan=True)


def sweep(ctx, n):
    import magpylib as magpy

    rng, fails, stats = ctx.rng, [], {"freeze_calls": 0, "freeze_arrays_frozen": 0, "freeze_interfaces": {}, "freeze_classes": {}, "freeze_errors": {}}
    for i in range(n):
        nps = np.random.default_rng(rng.randrange(2**31))
        iface = ["top", "source", "sensor", "collection", "dict"][i % 5]
        field = rng.choice(["B", "H", "J", "M"])
        kw = {}
        objs = []
        if iface != "dict":
            classes = [rng.choice(CLASSES) for _ in range(rng.choice([1, 2, 3]))]
            if i % 7 == 0:
                classes += ["Polyline", "Polyline"]  # vertex arrays of different lengths: object-dtype stack holding the sources' own arrays
            if i % 11 == 0:
                classes += ["TriangularMesh", "TriangularMesh"]
            srcs = [make(c, nps, path=rng.choice([1, 1, 2, 3])) for c in classes]
            for s, c in zip(srcs, classes):
                if c == "Tetrahedron" and rng.random() < 0.7:
                    v = np.array(s.vertices)
                    if np.linalg.det(v[1:] - v[0]) > 0:
                        s.vertices = v[[0, 1, 3, 2]]  # left-handed: check_chirality swaps in place in what it is given
            sens = [magpy.Sensor(position=far_points(nps, rng.choice([1, 2, 4]), lo=4, hi=8), pixel=rng.choice([None, nps.uniform(-0.2, 0.2, (2, 3))]),
                                 handedness=rng.choice(["right", "left"])) for _ in range(rng.choice([1, 2]))]
            caller = []
            if rng.random() < 0.3:
                kw["pixel_agg"] = rng.choice(["mean", "max"])
            if rng.random() < 0.2:
                kw["output"] = "dataframe"
            if iface == "top":
                obs = sens
                if rng.random() < 0.5:
                    obs = far_points(nps, 3, lo=4, hi=8)
                    caller.append(("observers", obs))
                if rng.random() < 0.3:
                    srcs = [magpy.Collection(*srcs[:2])] + srcs[2:]
                call = lambda: getattr(magpy, "get" + field)(srcs, obs, sumup=bool(i % 2), **kw)  # noqa: E731
                objs = srcs + (sens if obs is sens else [])
            elif iface == "source":
                call = lambda: getattr(srcs[0], "get" + field)(*sens, **kw)  # noqa: E731
                objs = [srcs[0]] + sens
            elif iface == "sensor":
                call = lambda: getattr(sens[0], "get" + field)(*srcs, **kw)  # noqa: E731
                objs = srcs + [sens[0]]
            else:
                inner = list(srcs)
                if rng.random() < 0.6:  # nested collections: the wrapper walks the tree (format_obj_input) before the computation
                    inner = [magpy.Collection(magpy.Collection(*srcs[:1]), *srcs[1:2])] + srcs[2:]
                col = magpy.Collection(*inner, *sens)
                call = lambda: getattr(col, "get" + field)(**kw)  # noqa: E731
                objs = [col]
            named = caller
            seen = set()
            for o in objs:
                named = named + _arrays_of(o, seen)
            label = "+".join(sorted(set(classes)))
        else:
            pool = CLASSES + ["Tetrahedron", "Tetrahedron", "Tetrahedron"]  # the one class whose core function writes into what it is given
            cls = pool[(i // 5) % len(pool)]
            k = rng.choice([1, 2, 2, 3])
            arrays = {}
            for _ in range(k):
                for a, v in params(cls, nps).items():
                    if a != "faces":
                        arrays.setdefault(a, []).append(np.asarray(v, float))
            if cls == "TriangularMesh":
                arrays = {"mesh": [magpy.magnet.TriangularMesh(**params(cls, nps)).mesh.copy() for _ in range(k)], "polarization": arrays["polarization"]}
            if cls == "Tetrahedron":
                for vtx in arrays["vertices"]:
                    if rng.random() < 0.8 and np.linalg.det(vtx[1:] - vtx[0]) > 0:  # left-handed
                        vtx[[2, 3]] = vtx[[3, 2]]
            try:
                stacked = {a: np.array(v, dtype=float) for a, v in arrays.items()}
            except ValueError:
                continue
            obs = far_points(nps, k, lo=4, hi=8)
            pos = nps.uniform(-1, 1, (k, 3))
            named = [(a, v) for a, v in {**stacked, "observers": obs, "position": pos}.items()]
            call = lambda: getattr(magpy, "get" + field)(cls, obs, position=pos, **stacked)  # noqa: E731
            label = cls
        pyobjs = all_objs(objs) if iface != "dict" else []
        with warnings.catch_warnings():
            warnings.simplefilter("ignore")
            before = [snap_obj(o) for o in pyobjs]
            # the frozen call comes FIRST: an in-place repair of the input (vertex swap of a left-handed tetrahedron) would not be
            # repeated by a second call
            frozen = _freeze(named)
            err = res = None
            try:
                res = call()
            except Exception as e:  # noqa: BLE001
                err = e
            finally:
                for x in frozen:
                    x.flags.writeable = True
            after = [snap_obj(o) for o in pyobjs]
            changed = sorted({(type(o).__name__, k_) for o, b_, a_ in zip(pyobjs, before, after) for k_ in b_ if b_[k_] != a_.get(k_)})
            if changed:
                fails.append({"key": f"mutation:{iface}-interface:{changed[0][1]}", "desc": f"get{field} through the {iface} interface ({label}) changed {changed[:4]}",
                              "replay": {"interface": iface, "classes": label, "field": field, "changed": changed[:8]}})
            try:
                ref = call()
            except Exception as e:  # noqa: BLE001  (e.g. ragged meshes through the functional interface): not what is tested here
                stats["freeze_errors"][type(e).__name__] = stats["freeze_errors"].get(type(e).__name__, 0) + 1
                if err is not None and "read-only" not in str(err):
                    continue
                ref = res
        stats["freeze_calls"] += 1
        stats["freeze_arrays_frozen"] += len(frozen)
        stats["freeze_interfaces"][iface] = stats["freeze_interfaces"].get(iface, 0) + 1
        stats["freeze_classes"][label] = stats["freeze_classes"].get(label, 0) + 1
        if err is not None:
            ro = "read-only" in str(err)
            fails.append({"key": f"{'write-into-preexisting-array' if ro else 'frozen-call-raised'}:{iface}:{label}",
                          "desc": f"get{field} through the {iface} interface ({label}) with every pre-existing array read-only raised {type(err).__name__}: {str(err)[:120]}",
                          "replay": {"interface": iface, "classes": label, "field": field, "kwargs": {k_: str(v) for k_, v in kw.items()}, "error": str(err)[:300]}})
        elif not _same(ref, res):
            fails.append({"key": f"second-call-differs:frozen:{iface}", "desc": "the call with read-only inputs returned a different result than the call before",
                          "replay": {"interface": iface, "classes": label, "field": field}})
    return fails, stats
