import warnings
"""failing-input searches on the real code for C03, C04, C05, C06 (all source classes)"""
import numpy as np
from scipy.spatial.transform import Rotation as R

from oracles.sources import CLASSES, far_points, field_scale, make


def _close(a, b, scale, rtol=1e-8):
    return np.allclose(a, b, rtol=rtol, atol=rtol * scale)


def special_rotation(rng, nps, m=1):
    """orientations a tolerance or shortcut could mistake for something else: tiny tilts off the
    identity, off a half turn, off an axis permutation; m > 1 gives a sweep through the special pose"""
    kind = rng.choice(["tiny-tilt", "tiny-tilt", "near-half-turn", "near-axis-perm", "sweep-through-identity"])
    axis = nps.normal(size=3)
    axis /= np.linalg.norm(axis)
    ang = np.deg2rad(10.0 ** nps.uniform(-6, 0, m)) * nps.choice([-1, 1], m)
    if kind == "sweep-through-identity" and m > 1:
        ang = np.deg2rad(np.linspace(-1, 1, m) * 10.0 ** nps.uniform(-3, 0))
    tilt = R.from_rotvec(ang[:, None] * axis[None, :])
    if kind == "near-half-turn":
        base = R.from_rotvec(np.pi * np.eye(3)[rng.randrange(3)])
    elif kind == "near-axis-perm":
        base = R.from_matrix(np.array([[0, 0, 1], [1, 0, 0], [0, 1, 0]], float))
    else:
        base = R.identity()
    out = tilt * base
    return kind, (out if m > 1 else out[0])


def c03_sweep(ctx, n):
    import magpylib as magpy

    rng, fails, done, per = ctx.rng, [], 0, {}
    for i in range(n):
        nps = np.random.default_rng(rng.randrange(2**31))
        cls = CLASSES[i % len(CLASSES)]
        src = make(cls, nps, path=rng.choice([1, 1, 2, 3]))
        okind = "random"
        if rng.random() < 0.4:  # special orientations of the source itself
            okind, ori = special_rotation(rng, nps, len(src._position))
            src.orientation = ori
        per["ori:" + okind] = per.get("ori:" + okind, 0) + 1
        obs = far_points(nps, 4, lo=4, hi=9)
        field = rng.choice(["B", "H"])
        f0 = magpy.getB(src, obs, squeeze=False) if field == "B" else magpy.getH(src, obs, squeeze=False)
        Q, t = R.random(rng=nps), nps.uniform(-5, 5, 3)
        moved = src.copy()
        moved.rotate(Q, anchor=0).move(t)
        obs2 = Q.apply(obs) + t
        f1 = magpy.getB(moved, obs2, squeeze=False) if field == "B" else magpy.getH(moved, obs2, squeeze=False)
        exp = Q.apply(f0.reshape(-1, 3)).reshape(f0.shape)
        done += 1
        per[cls] = per.get(cls, 0) + 1
        sc = float(np.max(np.abs(f0))) + 1e-300
        if not _close(f1, exp, sc, 1e-7):
            fails.append({"key": f"covariance:{cls}" if okind == "random" else f"covariance:{okind}", "desc": f"get{field} not covariant under a common rigid motion (source orientation: {okind})",
                          "replay": {"class": cls, "field": field, "source_orientation_quat": src.orientation.as_quat().tolist(), "quat": Q.as_quat().tolist(), "t": t.tolist(),
                                     "max_abs_err": float(np.max(np.abs(f1 - exp))), "scale": sc, "source": repr(src.__dict__)[:600]}})
        # position and orientation are honoured as "local frame placed in the global frame", path index by path index:
        # the field at step m is R_m F_local(R_m^-1 (x - p_m)) with F_local the field of the same source at the identity pose
        getf = magpy.getB if field == "B" else magpy.getH
        base0 = src.copy(position=(0, 0, 0), orientation=None)
        ok_place = True
        for m_ in range(len(src._position)):
            Rm, pm = src._orientation[m_], src._position[m_]
            expm = Rm.apply(getf(base0, Rm.inv().apply(obs - pm), squeeze=False).reshape(-1, 3))
            if not _close(f0[0, m_, 0].reshape(-1, 3), expm, sc, 1e-7):
                ok_place = False
        if not ok_place:
            fails.append({"key": f"placement:{cls}", "desc": f"get{field} along a path is not the local field placed with that step's position and orientation",
                          "replay": {"class": cls, "field": field, "path_length": len(src._position), "n_observers": len(obs)}})
        # the same with a Sensor as observer (its own path of orientations: rotating, mirrored, almost static): moving source and
        # sensor by one rigid motion leaves the sensor's readings unchanged
        if i % 2 == 0:
            ms = rng.choice([2, 3])
            skind = rng.choice(["rotating", "mirrored", "wobble"])
            if skind == "rotating":
                sori = R.random(ms, rng=nps)
            elif skind == "wobble":
                sori = wobble(rng, nps, ms)
            else:
                a_, ax_ = nps.uniform(0.2, 1.2), np.eye(3)[rng.randrange(3)]
                sori = R.from_rotvec([ax_ * a_ * (-1) ** j for j in range(ms)])
            # the reading is taken in the sensor's own frame: component-wise NON-LINEAR pixel reductions (max, min, median, std) and
            # a left-handed sensor are part of the reading and must not see the global axes either
            agg = rng.choice([None, None, "max", "min", "median", "std", "mean"])
            hand = rng.choice(["right", "right", "left"])
            sens = magpy.Sensor(position=far_points(nps, ms, lo=4, hi=9), orientation=sori, pixel=nps.uniform(-0.3, 0.3, (rng.choice([2, 3, 4]), 3)), handedness=hand)
            r0 = getf(src, sens, squeeze=False, pixel_agg=agg)
            sens2 = sens.copy()
            sens2.rotate(Q, anchor=0).move(t)
            r1 = getf(moved, sens2, squeeze=False, pixel_agg=agg)
            per["sensor:" + skind] = per.get("sensor:" + skind, 0) + 1
            per[f"sensor:agg={agg}"] = per.get(f"sensor:agg={agg}", 0) + 1
            per["sensor:hand=" + hand] = per.get("sensor:hand=" + hand, 0) + 1
            if r0.shape != r1.shape or not _close(r1, r0, float(np.max(np.abs(r0))) + 1e-300, 1e-7):
                fails.append({"key": f"covariance:sensor:{skind}", "desc": f"get{field} seen by a Sensor changes when source and sensor are moved by one rigid motion (sensor orientation path: {skind})",
                              "replay": {"class": cls, "field": field, "sensor_quats": sori.as_quat().tolist(), "quat": Q.as_quat().tolist(), "t": t.tolist(), "pixel_agg": agg, "handedness": hand}})
    # observers on the special loci of a body's own frame (the axis of a Cylinder / CylinderSegment, the planes of its end faces, the
    # half-planes of its side faces, the prolongation of its hull; the face planes and edge lines of a Cuboid — all OFF the surface),
    # seen after the whole setup was turned by a generic rotation and carried tens to hundreds of sizes away from the origin: the
    # frame change puts such an observer back onto its locus only up to round-off, and the field must still be the rotated field
    import magpylib as _mp
    for i in range(max(6, n // 5)):
        nps = np.random.default_rng(rng.randrange(2**31))
        clsx = ["CylinderSegment", "Cylinder", "Cuboid", "CylinderSegment"][i % 4]
        pol = nps.uniform(-1, 1, 3)
        if clsx == "CylinderSegment":
            r1, r2, h = float(nps.uniform(0.3, 0.9)), float(nps.uniform(1.2, 2.0)), float(nps.uniform(0.6, 2))
            p1 = float(nps.uniform(-170, 100)); p2 = p1 + float(nps.uniform(30, 250))
            srcx = _mp.magnet.CylinderSegment(dimension=(r1, r2, h, p1, p2), polarization=pol)
            a1 = np.radians(p1)
            loc = np.array([[0, 0, 0.3 * h], [0, 0, 1.7 * h], [0, 0, -h], [2.5 * r2, 0.4, h / 2], [-1.7 * r2, 0.9, -h / 2], [2.2 * r2 * np.cos(a1), 2.2 * r2 * np.sin(a1), 0.3 * h],
                            [r2 * np.cos(a1 + 0.3), r2 * np.sin(a1 + 0.3), 1.4 * h], [r1 * np.cos(a1 + 0.5), r1 * np.sin(a1 + 0.5), -1.6 * h]])
            size = r2
        elif clsx == "Cylinder":
            d_, h = float(nps.uniform(1, 3)), float(nps.uniform(0.6, 2))
            srcx = _mp.magnet.Cylinder(dimension=(d_, h), polarization=pol)
            loc = np.array([[0, 0, 1.3 * h], [0, 0, -2 * h], [d_, 0.3, h / 2], [-0.9 * d_, 0.7, -h / 2], [d_ / 2, 0, 1.5 * h], [0.3 * d_, 0.4 * d_, -1.2 * h]])
            size = d_
        else:
            dim = nps.uniform(0.5, 2, 3)
            srcx = _mp.magnet.Cuboid(dimension=dim, polarization=pol)
            loc = np.array([[dim[0] / 2, 2 * dim[1], 0.3 * dim[2]], [1.7 * dim[0], dim[1] / 2, -dim[2] / 2], [dim[0] / 2, dim[1] / 2, 2.2 * dim[2]], [-dim[0] / 2, -1.8 * dim[1], dim[2] / 2],
                            [0.2 * dim[0], 0.1 * dim[1], 1.5 * dim[2]]])
            size = float(np.max(dim))
        f_loc = _mp.getB(srcx, loc), _mp.getH(srcx, loc)
        Q, t = R.random(rng=nps), nps.uniform(-1, 1, 3) * size * 10.0 ** nps.uniform(1, 2.5)
        moved = srcx.copy()
        moved.rotate(Q, anchor=0).move(t)
        glob = Q.apply(loc) + t
        done += 1
        per["special-loci:" + clsx] = per.get("special-loci:" + clsx, 0) + 1
        for nm, fl, fg in (("B", f_loc[0], _mp.getB(moved, glob)), ("H", f_loc[1], _mp.getH(moved, glob))):
            exp = Q.apply(fl)
            sc = float(np.max(np.abs(exp))) + 1e-300
            if not (np.isfinite(fg).all() and _close(fg, exp, sc, 1e-6)):
                fails.append({"key": f"covariance:special-loci:{clsx}", "desc": f"get{nm} at observers on the special loci of a {clsx}'s own frame (axis, face planes, side half-planes, hull prolongation; off the surface) "
                              f"is not the rotated field after the setup was turned and carried {np.linalg.norm(t) / size:.0f} sizes away (rel. dev. {float(np.nanmax(np.abs(fg - exp)) / sc):.2g}, finite: {bool(np.isfinite(fg).all())})",
                              "replay": {"class": clsx, "dimension": np.asarray(srcx.dimension).tolist(), "quat": Q.as_quat().tolist(), "t": t.tolist(), "local_observers": loc.tolist()}})
                break
    # nested compounds moved as a whole through the collection API (rotate about own centre / anchor, then move)
    for i in range(max(6, n // 6)):
        nps = np.random.default_rng(rng.randrange(2**31))
        mlen = rng.choice([1, 2, 3])
        def leaf():
            return make(rng.choice(CLASSES), nps, path=mlen)
        inner = magpy.Collection(leaf(), leaf(), position=nps.uniform(-2, 2, (mlen, 3)), orientation=R.random(mlen, rng=nps))
        outer = magpy.Collection(leaf(), inner, position=nps.uniform(-1, 1, (mlen, 3)))
        obs = far_points(nps, 4, lo=8, hi=12)
        f0 = magpy.getB(outer, obs, squeeze=False)
        Q, t = R.random(rng=nps), nps.uniform(-3, 3, 3)
        moved = outer.copy()
        use_anchor = rng.random() < 0.5
        anchor = nps.uniform(-2, 2, 3) if use_anchor else None
        pivot = np.tile(anchor, (mlen, 1)) if use_anchor else np.array(moved._position)
        moved.rotate(Q, anchor=anchor).move(t)
        ok = True
        for m in range(mlen):
            obs2 = Q.apply(obs - pivot[m]) + pivot[m] + t
            f1 = magpy.getB(moved, obs2, squeeze=False)[0, m, 0]
            exp = Q.apply(f0[0, m, 0])
            if not _close(f1, exp, float(np.max(np.abs(exp))) + 1e-300, 1e-7):
                ok = False
        done += 1
        per["nested"] = per.get("nested", 0) + 1
        if not ok:
            fails.append({"key": f"covariance:nested:{'anchor' if use_anchor else 'own-centre'}", "desc": "a nested collection moved as a whole (rotate + move) is not covariant",
                          "replay": {"anchor": None if anchor is None else anchor.tolist(), "quat": Q.as_quat().tolist(), "t": t.tolist(), "path_length": mlen}})
    # the whole setup (two sources and a sensor) turned about the sensor — the anchor handed over is the sensor's LIVE position
    # array, the same array object for every rotate call, the sensor itself included — and then shifted: the sensor reads the same
    for i in range(max(4, n // 8)):
        nps = np.random.default_rng(rng.randrange(2**31))
        objs = [make(rng.choice(CLASSES), nps), make(rng.choice(CLASSES), nps)]
        for o in objs:
            o.position, o.orientation = nps.uniform(-2, 2, 3), R.random(rng=nps)
        sens = magpy.Sensor(position=far_points(nps, 1, lo=5, hi=8)[0], orientation=R.random(rng=nps), pixel=nps.uniform(-0.3, 0.3, (2, 3)))
        f0 = magpy.getB(objs, sens, squeeze=False)
        Q, t = R.random(rng=nps), nps.uniform(-3, 3, 3)
        order = [sens] + objs if rng.random() < 0.5 else objs + [sens]
        for o in order:
            o.rotate(Q, anchor=sens.position)
        for o in order:
            o.move(t)
        f1 = magpy.getB(objs, sens, squeeze=False)
        done += 1
        per["live-anchor-setup"] = per.get("live-anchor-setup", 0) + 1
        if not _close(f1, f0, float(np.max(np.abs(f0))) + 1e-300, 1e-7):
            fails.append({"key": "covariance:live-anchor", "desc": "sources and sensor turned about the sensor (anchor = the sensor's live position array) and shifted together: the sensor reading changed",
                          "replay": {"quat": Q.as_quat().tolist(), "t": t.tolist(), "order": [type(o).__name__ for o in order]}})
    # the same compound placed through the pose setters / copy keywords: a compound built in its own frame (collection pose =
    # identity) and then given orientation Q and position t must produce Q B_local(Q^-1 (x - t)) — at every nesting level
    for i in range(max(6, n // 6)):
        nps = np.random.default_rng(rng.randrange(2**31))
        def leaf():
            return make(rng.choice(CLASSES), nps, path=1)
        inner = magpy.Collection(leaf(), leaf(), position=nps.uniform(-2, 2, 3), orientation=R.random(rng=nps))
        innermost = magpy.Collection(leaf(), position=nps.uniform(-1, 1, 3))
        if rng.random() < 0.5:
            inner.add(innermost)
        outer = magpy.Collection(leaf(), inner)
        obs = far_points(nps, 4, lo=8, hi=12)
        f0 = magpy.getB(outer, obs)
        Q, t = R.random(rng=nps), nps.uniform(-3, 3, 3)
        how = rng.choice(["setters", "copy-keywords", "setters-reversed"])
        if how == "setters":
            placed = outer.copy()
            placed.orientation = Q
            placed.position = t
        elif how == "setters-reversed":
            placed = outer.copy()
            placed.position = t
            placed.orientation = Q
        else:
            placed = outer.copy(position=t, orientation=Q)
        f1 = magpy.getB(placed, Q.apply(obs) + t)
        exp = Q.apply(f0)
        done += 1
        per["nested-setters"] = per.get("nested-setters", 0) + 1
        if not _close(f1, exp, float(np.max(np.abs(exp))) + 1e-300, 1e-7):
            fails.append({"key": f"covariance:nested:{how}", "desc": f"a nested collection placed through {how} (orientation Q, position t) does not give Q B_local(Q^-1 (x - t))",
                          "replay": {"how": how, "quat": Q.as_quat().tolist(), "t": t.tolist(), "depth": 3 if innermost.parent is inner else 2}})
    return fails, {"c03_cases": done, "c03_per_class": per}


def wobble(rng, nps, m):
    """orientation path of length m whose entries differ from the first by 3e-4 .. 0.3 degrees (any base orientation)"""
    axis = nps.normal(size=3)
    axis /= np.linalg.norm(axis)
    ang = np.deg2rad(10.0 ** nps.uniform(-3.5, -0.5)) * np.arange(m) * rng.choice([-1, 1])
    base = R.random(rng=nps) if rng.random() < 0.7 else R.identity()
    return R.from_rotvec(ang[:, None] * axis[None, :]) * base


def c04_sweep(ctx, n):
    import magpylib as magpy

    rng, fails, done, kinds = ctx.rng, [], 0, {}
    for i in range(n):
        nps = np.random.default_rng(rng.randrange(2**31))
        cls = CLASSES[i % len(CLASSES)]
        src = make(cls, nps)
        m = rng.choice([1, 2, 3])
        kind = rng.choice(["static", "translating", "rotating", "negquat", "mirrored", "wobble", "wobble"])
        pos = far_points(nps, m, lo=5, hi=8)
        if kind == "static":
            pos, ori = pos[:1], R.random(rng=nps)
        elif kind == "translating":
            ori = R.random(rng=nps)
        elif kind == "negquat":
            pos, ori = pos[:1], R.from_quat([0, 0, 0, -1.0])
        elif kind == "wobble":  # an orientation path that stays within a fraction of a degree of its first entry
            m = max(m, 2)
            pos = far_points(nps, m, lo=5, hi=8) if rng.random() < 0.5 else np.repeat(far_points(nps, 1, lo=5, hi=8), m, axis=0)
            ori = wobble(rng, nps, m)
        elif kind == "mirrored":  # orientations whose quaternions differ only in the signs of components
            a = nps.uniform(0.2, 1.2)
            ax = np.eye(3)[rng.randrange(3)]
            m = max(m, 2)
            pos = far_points(nps, m, lo=5, hi=8)
            ori = R.from_rotvec([ax * a * (-1) ** j for j in range(m)])
        else:
            ori = R.random(m, rng=nps)
        shape = rng.choice([None, (3,), (2, 3), (2, 2, 3), (1, 3, 3)])
        pixel = None if shape is None else nps.uniform(-0.4, 0.4, shape)
        left = rng.random() < 0.4
        sens = magpy.Sensor(position=pos, orientation=ori, pixel=pixel, handedness="left" if left else "right")
        if pixel is not None and np.ndim(pixel) > 1 and rng.random() < 0.35:
            # the pixel array is edited IN PLACE through the getter after the sensor was built — on the sensor itself, on a copy()
            # of it, or on a sensor whose pixel came in as a non-contiguous array: the sensor reads the field at the pixels it
            # reports now
            how = rng.choice(["same", "copy", "non-contiguous", "evaluated-first"])
            if how == "copy":
                sens = sens.copy()
            elif how == "non-contiguous":
                big = nps.uniform(-0.4, 0.4, pixel.shape[::-1] if pixel.ndim == 2 else (3,) + pixel.shape[:-1][::-1])
                sens = magpy.Sensor(position=pos, orientation=ori, pixel=big.T, handedness="left" if left else "right")
            elif how == "evaluated-first":
                magpy.getB(src, sens)
            sens.pixel[..., rng.randrange(3)] += 0.05
            sens.pixel[tuple(0 for _ in range(sens.pixel.ndim - 1))] = nps.uniform(-0.4, 0.4, 3)
            pixel = np.array(sens.pixel)
            kinds["pixel-edited-in-place:" + how] = kinds.get("pixel-edited-in-place:" + how, 0) + 1
        if rng.random() < 0.4:
            # the source has a LONGER path than the sensor (whose own path may have more than one entry): the sensor's path is
            # padded with its last pose — it stays where its path ended
            L = len(sens._position) + rng.choice([1, 2, 4])
            src.position = np.cumsum(nps.uniform(-0.2, 0.2, (L, 3)), axis=0)
            kinds[f"source-path-longer:sensor-path={len(sens._position)}"] = kinds.get(f"source-path-longer:sensor-path={len(sens._position)}", 0) + 1
        B = magpy.getB(src, sens, squeeze=False)  # (1, M, 1, pix..., 3)
        M = B.shape[1]
        px = np.zeros((1, 3)) if pixel is None else pixel.reshape(-1, 3)
        sc = field_scale(src)
        ok = True
        for mi in range(M):
            r = sens._orientation[min(mi, len(sens._orientation) - 1)]
            p = sens._position[min(mi, len(sens._position) - 1)]
            glob = r.apply(px) + p
            bgf = magpy.getB(src, glob, squeeze=False)
            bg = bgf[0, min(mi, bgf.shape[1] - 1), 0].reshape(-1, 3)
            exp = r.inv().apply(bg)
            if left:
                exp[:, 0] *= -1
            if not _close(B[0, mi, 0].reshape(-1, 3), exp, float(np.max(np.abs(exp))) + 1e-300, 1e-7):
                ok = False
        done += 1
        kinds[kind] = kinds.get(kind, 0) + 1
        if not ok:
            fails.append({"key": f"sensor-frame:{cls}:{kind}", "desc": "sensor output differs from the back-rotated global field at its pixels",
                          "replay": {"class": cls, "kind": kind, "pixel_shape": shape, "left": left}})
        # a MIXED observer list: bare position arrays of the same shape but different values next to a sensor — every entry is read at
        # its own positions (bare arrays are sensors at the origin), in every call form, with and without pixel_agg
        if i % 3 == 1:
            pa, pb = far_points(nps, 2, lo=5, hi=8), far_points(nps, 2, lo=5, hi=8)
            # (a list of position arrays ALONE is one observer with a larger pixel shape: documented; a sensor in the list makes every entry its own observer)
            for obs_list in ([pa, sens, pb], [pa, pb, sens], [sens, pb, pa]):
                if pixel is None or np.shape(sens.pixel) != (2, 3):
                    continue
                for form in ("top", "method"):
                    got = magpy.getB(src, obs_list, squeeze=False) if form == "top" else src.getB(*obs_list, squeeze=False)
                    kinds["mixed-observers"] = kinds.get("mixed-observers", 0) + 1
                    for k_, o_ in enumerate(obs_list):
                        want = magpy.getB(src, o_, squeeze=False)[:, :, 0]
                        mm_ = min(got.shape[1], want.shape[1])
                        if not _close(got[:, :mm_, k_], want[:, :mm_], float(np.max(np.abs(want))) + 1e-300, 1e-9):
                            fails.append({"key": "observer-entries:mixed-list", "desc": f"getB(src, [array, sensor, array]) ({form} form): entry {k_} is not the field at that entry's own positions",
                                          "replay": {"class": cls, "entry": k_, "form": form, "list": ["array" if isinstance(x_, np.ndarray) else "sensor" for x_ in obs_list]}})
                            break
        # several sensors with BIT-IDENTICAL orientations (the default, one shared tilt, one shared rotating path, the same sensor twice)
        # and mixed handedness, a left-handed one first: each reads the field in ITS frame (x flipped for left-handed ones only)
        if i % 3 == 2:
            mq = rng.choice([1, 2, 3])
            shared = rng.choice([None, R.random(rng=nps), R.random(mq, rng=nps)])
            hands = rng.choice([["left", "right"], ["left", "left"], ["left", "right", "left"], ["right", "left", "right"]])
            ppos = [far_points(nps, 1, lo=5, hi=8)[0] for _ in hands]
            group = [magpy.Sensor(position=p_, orientation=shared, pixel=nps.uniform(-0.3, 0.3, (2, 3)), handedness=h_) for p_, h_ in zip(ppos, hands)]
            if rng.random() < 0.3:
                group.append(group[0])
            outg = magpy.getB(src, group, squeeze=False)
            kinds["shared-orientation-sensors"] = kinds.get("shared-orientation-sensors", 0) + 1
            for k_, s_ in enumerate(group):
                alone = magpy.getB(src, s_, squeeze=False)[:, :, 0]
                mm_ = min(outg.shape[1], alone.shape[1])
                if not _close(outg[:, :mm_, k_], alone[:, :mm_], float(np.max(np.abs(alone))) + 1e-300, 1e-9):
                    fails.append({"key": "sensor-frame:shared-orientation", "desc": f"sensors with identical orientations and handedness {[g_.handedness for g_ in group]} in one call: sensor {k_} does not read what it reads alone",
                                  "replay": {"class": cls, "hands": [g_.handedness for g_ in group], "sensor": k_}})
                    break
        # pixel_agg with different pixel shapes
        if i % 3 == 0:
            s2 = magpy.Sensor(position=far_points(nps, 1, lo=5, hi=8)[0], pixel=nps.uniform(-0.3, 0.3, (3, 3)))
            s3 = magpy.Sensor(position=far_points(nps, 1, lo=5, hi=8)[0], pixel=nps.uniform(-0.3, 0.3, (2, 2, 3)), orientation=R.random(rng=nps))
            agg = rng.choice(["mean", "min", "max", "sum", "median", "std"])
            out = magpy.getB(src, [sens, s2, s3], pixel_agg=agg, squeeze=False)
            fn = getattr(np, agg)
            for k, s in enumerate([sens, s2, s3]):
                full = magpy.getB(src, s, squeeze=False)
                exp = fn(full.reshape(full.shape[0], full.shape[1], -1, 3), axis=2)
                mm = min(out.shape[1], exp.shape[1])
                if out.shape[1] != max(full.shape[1], out.shape[1]) or not _close(out[:, :mm, k, 0], exp[:, :mm], sc, 1e-7):
                    fails.append({"key": f"pixel-agg:{agg}", "desc": "pixel_agg is not the numpy reduction over the sensor's own pixels",
                                  "replay": {"class": cls, "agg": agg, "sensor_index": k}})
                    break
    return fails, {"c04_cases": done, "c04_sensor_kinds": kinds}


def custom_source(nps, path=1):
    """CustomSource with its own field function (an affine map of the observer, different for every instance)"""
    import magpylib as magpy

    A, b = nps.uniform(-1, 1, (3, 3)), nps.uniform(-1, 1, 3)

    def ff(field, observers, A=A, b=b):
        out = np.asarray(observers) @ A.T + b
        return out if field == "B" else out * 2.0

    src = magpy.misc.CustomSource(field_func=ff)
    if path > 1:
        src.position = nps.uniform(-1, 1, (path, 3))
        src.orientation = R.random(path, rng=nps)
    else:
        src.position, src.orientation = nps.uniform(-1, 1, 3), R.random(rng=nps)
    return src


def c05_sweep(ctx, n):
    import magpylib as magpy

    rng, fails, done = ctx.rng, [], 0
    for i in range(n):
        nps = np.random.default_rng(rng.randrange(2**31))
        leaves = []

        def tree(depth):
            kids = []
            for _ in range(rng.choice([1, 2, 3])):
                if depth > 0 and rng.random() < 0.35:
                    kids.append(tree(depth - 1))
                else:
                    s = make(rng.choice(CLASSES), nps, path=rng.choice([1, 1, 2, 3, 4])) if rng.random() < 0.75 else custom_source(nps, rng.choice([1, 1, 2, 3]))
                    leaves_local.append(s)
                    kids.append(s)
            return magpy.Collection(*kids)

        entries, per_entry = [], []
        for _ in range(rng.choice([1, 2, 3])):
            leaves_local = []
            if rng.random() < 0.6:
                e = tree(2)
            else:
                e = make(rng.choice(CLASSES), nps, path=rng.choice([1, 2, 3, 5])) if rng.random() < 0.75 else custom_source(nps, rng.choice([1, 2, 4]))
                leaves_local.append(e)
            entries.append(e)
            per_entry.append(list(leaves_local))
        obs = far_points(nps, 3, lo=5, hi=9)
        field = rng.choice(["B", "H"])
        get = magpy.getB if field == "B" else magpy.getH
        out = get(entries, obs, squeeze=False)
        M = out.shape[1]
        ok = True
        tot = 0
        for k, ls in enumerate(per_entry):
            s = 0
            for leaf in ls:
                f = get(leaf, obs, squeeze=False)[0]
                if f.shape[0] < M:
                    f = np.concatenate([f, np.repeat(f[-1:], M - f.shape[0], axis=0)])
                s = s + f
            tot = tot + s
            if not _close(out[k], s, float(np.max(np.abs(s))) + 1e-300, 1e-7):
                ok = False
        su = get(entries, obs, sumup=True, squeeze=False)
        if not _close(su[0], tot, float(np.max(np.abs(tot))) + 1e-300, 1e-7):
            ok = False
        # sumup together with a reduction over pixels that is not linear: still the sum over the sources of what each source gives alone
        if i % 3 == 0 and len(entries) > 1:
            sens_ = magpy.Sensor(pixel=obs, position=nps.uniform(-0.2, 0.2, 3))
            agg = rng.choice(["max", "min", "std", "ptp", "median"])
            each = get(entries, sens_, pixel_agg=agg, squeeze=False)
            tog = get(entries, sens_, pixel_agg=agg, sumup=True, squeeze=False)
            if tog.shape[0] != 1 or not _close(tog[0], each.sum(axis=0), float(np.max(np.abs(each))) + 1e-300, 1e-7):
                fails.append({"key": f"sumup-with-pixel-agg:{agg}", "desc": "getX(sources, sensor, sumup=True, pixel_agg=agg) is not the sum over the sources of getX(source, sensor, pixel_agg=agg)",
                              "replay": {"agg": agg, "field": field, "entries": [repr(e) for e in entries]}})
        done += 1
        if not ok:
            fails.append({"key": "superposition", "desc": "collection / sumup result differs from the explicit sum of single-source calls",
                          "replay": {"entries": [repr(e) for e in entries], "field": field}})
        # line currents of very different strength with different vertex counts in one call (a 10 kA busbar next to a microampere
        # trace): every row is that source's own field on ITS OWN scale, and linear in its own current — whatever stands before it
        if i % 4 == 2:
            from magpylib import current as _cur
            strong = _cur.Polyline(vertices=nps.uniform(-1, 1, (rng.choice([2, 3, 4]), 3)), current=10.0 ** nps.uniform(3, 5))
            weak = _cur.Polyline(vertices=nps.uniform(-1, 1, (rng.choice([5, 6, 7]), 3)) + np.array([3.0, 0, 0]), current=10.0 ** nps.uniform(-7, -5))
            pts = far_points(nps, 3, lo=4, hi=7)
            order = [strong, weak] if rng.random() < 0.7 else [weak, strong]
            both = get(order, pts, squeeze=False)
            okr = True
            for k_, e_ in enumerate(order):
                own = get(e_, pts, squeeze=False)[0]
                if not np.allclose(both[k_], own, rtol=1e-9, atol=1e-12 * float(np.max(np.abs(own)))):
                    okr = False
            w2 = weak.copy(current=weak.current * 3.0)
            r3 = get([strong, w2], pts, squeeze=False)[1]
            r1 = get([strong, weak], pts, squeeze=False)[1]
            if not np.allclose(r3, 3.0 * r1, rtol=1e-9, atol=1e-12 * float(np.max(np.abs(r1)))):
                okr = False
            if not okr:
                fails.append({"key": "superposition:ragged-polylines:strong-weak", "desc": "two Polylines with different vertex counts and currents 10 orders of magnitude apart in one call: "
                              "a row is not that source's own field (relative to its own size) or not linear in its own current", "replay": {"field": field, "strong_current": float(strong.current), "weak_current": float(weak.current), "order": [len(o_.vertices) for o_ in order]}})
        # excitations of any size are excitations: a source scaled down by 1e-9 ... 1e-15 gives the field scaled by that factor
        # (nanoampere currents, picotesla polarizations), alone, next to a strong source, and several weak ones sum up
        if i % 4 == 3:
            from oracles.sources import make as _mk
            s_w = _mk(rng.choice(CLASSES), nps)
            fac = 10.0 ** -rng.choice([9, 11, 13, 15])
            attr_ = "polarization" if getattr(s_w, "polarization", None) is not None else ("current" if getattr(s_w, "current", None) is not None else "moment")
            full = get(s_w, obs, squeeze=False)
            weak_ = s_w.copy(**{attr_: np.asarray(getattr(s_w, attr_), dtype=float) * fac if attr_ != "current" else float(s_w.current) * fac})
            with warnings.catch_warnings():
                warnings.simplefilter("ignore")
                wf = get(weak_, obs, squeeze=False)
                both_ = get([weak_, weak_.copy(), s_w], obs, squeeze=False)
                tot_ = get([weak_, weak_.copy()], obs, sumup=True, squeeze=False)
            sc_ = float(np.max(np.abs(full))) * fac + 1e-300
            okw = _close(wf, full * fac, sc_, 1e-9) and _close(both_[0], full[0] * fac, sc_, 1e-9) and _close(both_[1], full[0] * fac, sc_, 1e-9) and _close(tot_[0], 2 * full[0] * fac, sc_, 1e-9)
            if not okw:
                fails.append({"key": f"linearity:tiny-excitation:{type(s_w).__name__}", "desc": f"a {type(s_w).__name__} with its {attr_} scaled by {fac:g} does not give the field scaled by that factor (alone / next to others / summed)",
                              "replay": {"class": type(s_w).__name__, "attribute": attr_, "factor": fac, "field": field}})
        # several bodies of the SAME geometry (copies placed elsewhere) with different polarization, next to each other in one call
        # (list, Collection, sumup), observers inside each of them: superposition and linearity in each body's own polarization
        if i % 4 == 1:
            from oracles.sources import MAGNETS, interior_points
            mcls = rng.choice(["TriangularMesh", "TriangularMesh"] + MAGNETS)
            proto = make(mcls, nps)
            ip = interior_points(mcls, proto, nps, 1)
            if ip is not None:
                bodies = [proto.copy(polarization=nps.uniform(-1, 1, 3), position=(3.0 * j, 0.5 * j, 0)) for j in range(rng.choice([2, 3]))]
                inner_obs = np.array([np.asarray(ip)[0] + np.array([3.0 * j, 0.5 * j, 0]) for j in range(len(bodies))])
                together = magpy.getB(bodies, inner_obs, squeeze=False)[:, 0, 0]
                alone = np.array([magpy.getB(b, inner_obs, squeeze=False)[0, 0, 0] for b in bodies])
                coll_sum = magpy.getB(magpy.Collection(*[b.copy() for b in bodies]), inner_obs)
                scale_ = float(np.max(np.abs(alone))) + 1e-300
                lin = bodies[-1].copy(polarization=2.5 * np.asarray(bodies[-1].polarization))
                doubled = magpy.getB(bodies[:-1] + [lin], inner_obs, squeeze=False)[-1, 0, 0]
                if not (_close(together, alone, scale_, 1e-7) and _close(coll_sum, alone.sum(axis=0), scale_, 1e-7) and _close(doubled, 2.5 * alone[-1], scale_, 1e-7)):
                    fails.append({"key": f"superposition:same-geometry:{mcls}", "desc": "bodies of the same geometry with different polarization evaluated in one call: a body's row is not its own field / "
                                  "the collection is not the sum / the row is not linear in that body's polarization (observers inside the bodies)",
                                  "replay": {"class": mcls, "polarizations": [np.asarray(b.polarization).tolist() for b in bodies], "observers": inner_obs.tolist()}})
                done += 1
        # the tree is edited between calls: the collection's field must follow its *current* tree
        if i % 2 == 0:
            inner = magpy.Collection(make(rng.choice(CLASSES), nps), make(rng.choice(CLASSES), nps))
            outer = magpy.Collection(inner, make(rng.choice(CLASSES), nps))
            get(outer, obs)
            _ = outer.sources_all
            extra = make(rng.choice(CLASSES), nps)
            for step in ("add", "remove", "reparent"):
                if step == "add":
                    inner.add(extra)
                elif step == "remove":
                    inner.remove(inner.children[0])
                else:
                    extra.parent = outer
                cur = []

                def walk(c):
                    for x in c.children:
                        if isinstance(x, magpy.Collection):
                            walk(x)
                        elif not isinstance(x, magpy.Sensor):
                            cur.append(x)

                walk(outer)
                exp = sum(get(x, obs) for x in cur)
                got = get(outer, obs)
                if not _close(got, exp, float(np.max(np.abs(exp))) + 1e-300, 1e-7):
                    fails.append({"key": f"superposition-after-edit:{step}", "desc": f"after {step} in a nested collection the outer collection's field is not the sum over its current tree",
                                  "replay": {"step": step, "field": field}})
                    break
        # linearity in excitation
        cls = CLASSES[i % len(CLASSES)]
        a, b = nps.uniform(-3, 3), 10.0 ** nps.uniform(-6, 6)
        s1 = make(cls, nps)
        exc = "polarization" if hasattr(s1, "polarization") else ("current" if hasattr(s1, "current") else "moment")
        e1 = np.asarray(getattr(s1, exc), float)
        e2 = nps.uniform(-1, 1, e1.shape) if e1.shape else nps.uniform(-1, 1)
        f1 = get(s1, obs)
        s2 = s1.copy(**{exc: e2})
        f2 = get(s2, obs)
        s3 = s1.copy(**{exc: a * e1 + b * e2})
        f3 = get(s3, obs)
        exp = a * f1 + b * f2
        if not _close(f3, exp, float(np.max(np.abs(exp))) + 1e-300, 1e-7):
            fails.append({"key": f"linearity:{cls}", "desc": "field is not linear in the excitation", "replay": {"class": cls, "a": a, "b": b}})
    return fails, {"c05_cases": done}


def c06_sweep(ctx, n):
    import magpylib as magpy

    rng, fails, done, comp = ctx.rng, [], 0, {}
    for i in range(n):
        nps = np.random.default_rng(rng.randrange(2**31))
        ns = rng.choice([1, 1, 2, 3, 5])
        # bias towards several sources of one class (exercises grouping / ragged vertices)
        base = rng.choice(CLASSES)
        srcs = [make(base if rng.random() < 0.6 else rng.choice(CLASSES), nps, path=rng.choice([1, 1, 2, 3])) for _ in range(ns)]
        if rng.random() < 0.3 and ns > 1:
            srcs.append(srcs[0])  # duplicate
        inside_pts = []
        force_mesh = i % 5 == 0
        if force_mesh or rng.random() < 0.5:
            # several bodies of the SAME geometry with different polarization / pose, observers inside them
            from oracles.sources import MAGNETS
            mcls = "TriangularMesh" if force_mesh else rng.choice(MAGNETS)
            proto = make(mcls, nps)
            srcs = []
            for j in range(rng.choice([2, 3, 4])):
                c = proto.copy(polarization=nps.uniform(-1, 1, 3), position=(4.0 * j, 0, 0))
                srcs.append(c)
                centre = np.asarray(c.vertices).mean(axis=0) if getattr(c, "vertices", None) is not None else np.zeros(3)
                if mcls == "CylinderSegment":
                    r1, r2, h, p1, p2 = c.dimension
                    centre = np.array([(r1 + r2) / 2 * np.cos(np.radians((p1 + p2) / 2)), (r1 + r2) / 2 * np.sin(np.radians((p1 + p2) / 2)), 0.0])
                inside_pts.append(centre + np.array([4.0 * j, 0, 0]))
            if mcls == "TriangularMesh" and (force_mesh or rng.random() < 0.6):
                # different meshes with equal face counts that agree in most coordinate slots: the prototype stretched
                # along one axis; each observer is inside its own body but outside the previous (shorter) one
                ax = rng.randrange(3)
                v0 = np.asarray(proto.vertices)
                half = np.abs(v0[:, ax]).max()
                srcs, inside_pts = [], []
                for j in range(rng.choice([2, 3, 4])):
                    vj = v0.copy()
                    vj[:, ax] *= (1 + j)
                    srcs.append(magpy.magnet.TriangularMesh(vertices=vj, faces=proto.faces, polarization=nps.uniform(-1, 1, 3), position=(6.0 * j, 0, 0)))
                    p = np.zeros(3)
                    p[ax] = 0.8 * (1 + j) * half
                    inside_pts.append(p + np.array([6.0 * j, 0, 0]))
            if rng.random() < 0.5:
                srcs.insert(rng.randrange(len(srcs) + 1), make(rng.choice(CLASSES), nps, path=1))
        if i % 7 == 3:
            # a row of box meshes with equal face counts (same mesh re-appearing after a different one, concentric sizes)
            from oracles.sources import lattice_points, mesh_row
            _, srcs, _, dims_, poss_, oris_ = mesh_row(rng, nps, rotate=True)
            inside_pts = [((o.apply(lattice_points(d, nps, 2)[1]) if o is not None else lattice_points(d, nps, 2)[1]) + q) for d, q, o in zip(dims_, poss_, oris_)]
        if i % 7 == 5:
            # meshes with DIFFERENT face counts in one call, one next to the observers and one three orders of magnitude farther away
            from oracles.sources import box_mesh
            import magpylib as _mp
            tet = _mp.magnet.TriangularMesh.from_ConvexHull(points=nps.uniform(-0.5, 0.5, (5, 3)), polarization=nps.uniform(-1, 1, 3), position=(0.3, 0.2, 0.1))
            far_box = box_mesh(nps.uniform(0.5, 1.5, 3), nps.uniform(-1, 1, 3), position=nps.uniform(3000, 30000, 3) * nps.choice([-1, 1], 3))
            srcs = [tet, far_box] if rng.random() < 0.7 else [far_box, tet, box_mesh(nps.uniform(0.5, 1.5, 3), nps.uniform(-1, 1, 3), position=(-20000.0, 10.0, 5.0))]
            inside_pts = []
        if i % 7 == 1 or (not inside_pts and rng.random() < 0.15):
            # user-defined sources, each with its OWN field function, among (or instead of) the library sources, bare and as
            # members of a collection: an entry's row is the field of that entry alone, whichever function its neighbours carry
            customs = [custom_source(nps, path=rng.choice([1, 1, 2])) for _ in range(rng.choice([2, 3]))]
            srcs = ([] if rng.random() < 0.3 else srcs[:2]) + customs
            rng.shuffle(srcs)
            inside_pts = []
        nk = rng.choice([1, 1, 2])
        shape = rng.choice([(3,), (2, 3), (1, 1, 3)])
        sens = [magpy.Sensor(position=far_points(nps, rng.choice([1, 2, 3]), lo=4, hi=8), pixel=nps.uniform(-0.3, 0.3, shape),
                             orientation=R.random(rng=nps)) for _ in range(nk)]
        for se in sens:  # orientation paths as well: rotating freely, or staying within a fraction of a degree of the first entry
            mm = len(se._position)
            if mm > 1 and rng.random() < 0.6:
                se.orientation = wobble(rng, nps, mm) if rng.random() < 0.6 else R.random(mm, rng=nps)
        if inside_pts:
            shape = (len(inside_pts), 3)
            sens = [magpy.Sensor(pixel=np.array(inside_pts) + nps.uniform(-0.01, 0.01, (len(inside_pts), 3)))]
            nk = 1
        field = rng.choice(["B", "H", "J", "M"])
        if any(type(s_).__name__ == "CustomSource" for s_ in srcs):
            field = rng.choice(["B", "H"])
        get = getattr(magpy, "get" + field)
        out = get(srcs, sens, squeeze=False)
        M = max([len(s._position) for s in srcs] + [len(s._position) for s in sens])
        exp_shape = (len(srcs), M, nk) + ((1, 3) if shape == (3,) else tuple(shape))  # a bare (3,) pixel is one pixel: n1 = 1
        ok = out.shape == exp_shape
        bad = None
        if ok:
            for l, s in enumerate(srcs):
                for m in range(M):
                    for k, se in enumerate(sens):
                        s1 = s.copy(position=s._position[min(m, len(s._position) - 1)], orientation=s._orientation[min(m, len(s._position) - 1)])
                        k1 = se.copy(position=se._position[min(m, len(se._position) - 1)], orientation=se._orientation[min(m, len(se._position) - 1)])
                        single = get(s1, k1, squeeze=False)[0, 0, 0]
                        sc = field_scale(s)
                        own = float(np.max(np.abs(single)))
                        if not _close(out[l, m, k].reshape(-1), single.reshape(-1), min(sc, own + 1e-9 * sc) if np.isfinite(own) else sc, 1e-7):
                            ok, bad = False, (l, m, k)
        sq = get(srcs, sens, squeeze=True)
        if sq.shape != tuple(d for d in exp_shape if d != 1) or not np.array_equal(sq.reshape(-1), out.reshape(-1)):
            ok, bad = False, "squeeze"
        done += 1
        comp[f"{ns}src"] = comp.get(f"{ns}src", 0) + 1
        if not ok:
            fails.append({"key": f"element:{type(srcs[0]).__name__}:{field}", "desc": f"element {bad} differs from the single static call / wrong shape {out.shape} vs {exp_shape}",
                          "replay": {"sources": [repr(s) for s in srcs], "field": field, "where": str(bad)}})
    # source lists whose entries are NESTED collections (a collection that is not the last entry and whose number of direct children
    # differs from its number of sources; a collection that also holds a sensor): every row is that entry asked alone
    for i in range(max(6, n // 6)):
        nps = np.random.default_rng(rng.randrange(2**31))
        ss = [make(rng.choice(CLASSES), nps, path=rng.choice([1, 1, 2, 3])) for _ in range(6)]
        for j_, s_ in enumerate(ss):
            s_.position = s_._position + np.array([3.0 * j_, 0, 0])
        shape_ = rng.choice(["(a(bc))d", "a(b(cd))(e)f", "(a K b)(c)d", "((ab)c)(d(e))f"])
        if shape_ == "(a(bc))d":
            entries = [magpy.Collection(ss[0], magpy.Collection(ss[1], ss[2])), ss[3]]
        elif shape_ == "a(b(cd))(e)f":
            entries = [ss[0], magpy.Collection(ss[1], magpy.Collection(ss[2], ss[3])), magpy.Collection(ss[4]), ss[5]]
        elif shape_ == "(a K b)(c)d":
            entries = [magpy.Collection(ss[0], magpy.Sensor(position=(1, 2, 3)), ss[1]), magpy.Collection(ss[2]), ss[3]]
        else:
            entries = [magpy.Collection(magpy.Collection(ss[0], ss[1]), ss[2]), magpy.Collection(ss[3], magpy.Collection(ss[4])), ss[5]]
        obs = far_points(nps, 3, lo=6, hi=9) + np.array([7.0, 0, 0])
        field = rng.choice(["B", "H"])
        get = getattr(magpy, "get" + field)
        out = get(entries, obs, squeeze=False)
        M = out.shape[1]
        done += 1
        comp["nested:" + shape_] = comp.get("nested:" + shape_, 0) + 1
        okn = out.shape[0] == len(entries)
        for k_, e_ in enumerate(entries):
            if not okn:
                break
            alone = get(e_, obs, squeeze=False)[0]
            if alone.shape[0] < M:
                alone = np.concatenate([alone, np.repeat(alone[-1:], M - alone.shape[0], axis=0)])
            if not _close(out[k_], alone, float(np.max(np.abs(alone))) + 1e-300, 1e-7):
                okn = False
        if not okn:
            fails.append({"key": f"element:nested-collections:{field}", "desc": f"get{field}([...], obs) with nested collections {shape_} as entries: a row differs from that entry asked alone "
                          f"(shape {out.shape})", "replay": {"shape": shape_, "field": field, "classes": [type(s_).__name__ for s_ in ss]}})
    # batches below / above the scalar-vs-vectorised switches of the elliptic-integral routines (n = 9, 10, 14, 15, 40)
    for nrows in (9, 10, 14, 15, 40):
        nps = np.random.default_rng(rng.randrange(2**31))
        for cls in ("Cylinder", "Circle", "CylinderSegment"):
            s0 = make(cls, nps)
            r0 = (s0.dimension[0] / 2) if cls == "Cylinder" else (s0.diameter / 2 if cls == "Circle" else s0.dimension[1])
            ph = nps.uniform(0, 2 * np.pi, nrows)
            rr = np.where(nps.random(nrows) < 0.5, r0, nps.uniform(0.2, 3, nrows) * r0)  # half of the rows exactly on r = r0
            zz = nps.uniform(0.6, 3, nrows) * nps.choice([-1, 1], nrows) * (s0.dimension[1] if cls == "Cylinder" else (1.0 if cls == "Circle" else s0.dimension[2]))
            obs = np.stack([rr * np.cos(ph), rr * np.sin(ph), zz], axis=1)
            for field in "BH":
                get = getattr(magpy, "get" + field)
                batch = get(s0, obs)
                single = np.array([get(s0, o) for o in obs])
                done += 1
                comp[f"batch{nrows}"] = comp.get(f"batch{nrows}", 0) + 1
                both_nan = np.isnan(batch) & np.isnan(single)
                if not np.all(both_nan | np.isclose(batch, single, rtol=1e-7, atol=1e-9 * field_scale(s0) * (1 if field == "B" else 1e6))):
                    fails.append({"key": f"batch-dependence:{cls}:{field}", "desc": f"a row of a {nrows}-row call differs from the same observer evaluated alone",
                                  "replay": {"class": cls, "rows": nrows, "field": field}})
    return fails, {"c06_cases": done, "c06_compositions": comp}
