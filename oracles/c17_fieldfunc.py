"""C17 failing-input search, CustomSource.field_func: every assignment is validated on its own — a malformed function is rejected
with the library's input error at assignment (and the attribute keeps its value) no matter what was assigned before, in particular
after a well-formed function made by the same factory (same code object, different captured data)."""
import numpy as np


def factory(kind):
    def ff(field, observers):
        obs = np.asarray(observers, dtype=float)
        if kind == "ok":
            return obs * 2.0
        if kind == "wrong-shape":
            return obs[:, :2]
        if kind == "scalar":
            return 1.0
        if kind == "list":
            return [1, 2, 3]
        if kind == "none-for-B":
            return None if field == "B" else obs
        return obs
    return ff


def sweep(ctx):
    import magpylib as magpy
    from magpylib._src.exceptions import MagpylibBadUserInput

    rng, fails, done = ctx.rng, [], 0
    BAD = ["wrong-shape", "scalar", "list"]
    for trial in range(12):
        good = factory("ok")
        via_ctor = rng.random() < 0.5
        src = magpy.misc.CustomSource(field_func=good) if via_ctor else magpy.misc.CustomSource()
        if not via_ctor:
            src.field_func = good
        other = magpy.misc.CustomSource(field_func=factory("ok")) if rng.random() < 0.5 else None  # a second source validated in between
        kind = rng.choice(BAD)
        bad = factory(kind)
        where = rng.choice(["setter", "constructor"])
        outcome = "accepted"
        try:
            if where == "setter":
                src.field_func = bad
            else:
                magpy.misc.CustomSource(field_func=bad)
        except MagpylibBadUserInput:
            outcome = "refused"
        except Exception as e:  # noqa: BLE001
            outcome = f"foreign {type(e).__name__}"
        done += 1
        kept = src.field_func is good
        if outcome != "refused" or (where == "setter" and not kept):
            fails.append({"key": f"field_func:{kind}:after-valid-one", "desc": f"a field_func returning {kind} was {outcome} at the {where} after a well-formed function from the same factory had been "
                          f"assigned ({'attribute kept' if kept else 'attribute overwritten'})", "replay": {"kind": kind, "where": where, "second_source_in_between": other is not None}})
            break
    return fails, {"c17_field_func_sequences": done}
