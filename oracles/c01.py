"""C01 failing-input search: getH/getB of the real code against numerical quadrature of the defining
integrals, observers outside (near 0.3..3 sizes and far) and inside bodies, with random poses"""
import warnings

import numpy as np
from scipy.spatial.transform import Rotation as R

from oracles.quadrature import reference_H
from oracles.sources import CLASSES, MAGNETS, make


def observers(cls, src, rng, nps):
    d = nps.normal(size=(6, 3))
    d /= np.linalg.norm(d, axis=1)[:, None]
    out = [d[:3] * nps.uniform(2.2, 4, (3, 1)), d[3:] * nps.uniform(8, 40, (3, 1))]
    from oracles.sources import interior_points
    inside = interior_points(cls, src, nps, 6 if cls in ("TriangularMesh", "Tetrahedron") else 3)
    return np.concatenate(out), inside


def _finite_wire_H(a, b, obs, cur):
    """textbook field of a straight wire a->b (written independently of the library): I/(4 pi d) (cos t1 - cos t2) e_phi"""
    ab = b - a
    L = np.linalg.norm(ab)
    u = ab / L
    ra, rb = obs - a, obs - b
    perp = ra - np.outer(ra @ u, u)
    d = np.linalg.norm(perp, axis=1)
    c1 = (ra @ u) / np.linalg.norm(ra, axis=1)
    c2 = (rb @ u) / np.linalg.norm(rb, axis=1)
    ephi = np.cross(u, perp) / d[:, None]
    return (cur / (4 * np.pi * d) * (c1 - c2))[:, None] * ephi


def _cel_quad(kc, p, a, b):
    """Bulirsch's general complete elliptic integral cel(kc, p, a, b) by adaptive quadrature (Lean: CircleBS.celIntegral)"""
    import math
    from scipy.integrate import quad
    f = lambda t: (a * math.cos(t) ** 2 + b * math.sin(t) ** 2) / ((math.cos(t) ** 2 + p * math.sin(t) ** 2) * math.sqrt(math.cos(t) ** 2 + kc * kc * math.sin(t) ** 2))
    return quad(f, 0, math.pi / 2, epsabs=1e-14, epsrel=1e-13, limit=200)[0]


def _cel_entry(kc, p, a, b):
    """loop variables after the prologue of cel0 in its p > 0 branch (Lean: CircleBS.celEntry), order of cel_iter's arguments"""
    import math
    k, sp = abs(kc), math.sqrt(p)
    return (k, k / sp + sp, 1.0, a + b / sp / sp, 2 * (b / sp + a * (k / sp)), k + 1.0, k)


def cel_hypothesis(ctx, n):
    """numerical check, on the real code, of the named hypothesis of Props/C01 (`CelComputesIntegral`: the cel iteration
    started in the prologue state of cel(kc, p, a, b) returns the integral) and of the identification of the two
    `cel_iter` calls of `current_circle_Hfield` with cel(q, 1, a_i, b_i) and the Biot-Savart loop integrals"""
    import math
    from scipy.integrate import quad
    from magpylib._src.fields.special_cel import cel_iter, cel0
    from magpylib._src.fields.field_BH_circle import current_circle_Hfield
    rng, fails, worst = ctx.rng, [], {"cel_iter_vs_integral": 0.0, "circle_entry_states": 0.0, "circle_vs_cel_integral": 0.0, "circle_vs_loop_integral": 0.0}
    for i in range(n):
        nps = np.random.default_rng(rng.randrange(2**31))
        kc = 10.0 ** nps.uniform(-3, 1.5) * (1 if i % 5 else -1)
        p = 1.0 if i % 2 else 10.0 ** nps.uniform(-1.5, 1.5)
        a, b = nps.normal(size=2)
        ref, scale = _cel_quad(kc, p, a, b), _cel_quad(kc, p, abs(a), abs(b))
        v = float(cel_iter(*[np.array([x], float) for x in _cel_entry(kc, p, a, b)])[0])
        e = max(abs(v - ref), abs(float(cel0(kc, p, a, b)) - ref)) / scale
        worst["cel_iter_vs_integral"] = max(worst["cel_iter_vs_integral"], e)
        if not e < 1e-9:
            fails.append({"key": "cel-hypothesis:iteration", "desc": f"cel_iter started in the prologue state of cel({kc:.4g}, {p:.4g}, {a:.4g}, {b:.4g}) differs from the integral (rel. {e:.2g})",
                          "replay": {"kc": kc, "p": p, "a": float(a), "b": float(b), "cel_iter": v, "quadrature": ref}})
        # a Circle row: the loop variables the source builds, the cel integrals they stand for, the loop integrals
        r0, r, z, i0 = 10.0 ** nps.uniform(-1, 1), 10.0 ** nps.uniform(-1.5, 1), nps.normal() * 10.0 ** nps.uniform(-1, 0.7), nps.uniform(-3, 3)
        if abs(r - r0) < 0.05 * r0 and abs(z) < 0.05 * r0:
            z = 0.3 * r0
        rr, zz = r / r0, z / r0
        x0 = zz * zz + (rr + 1) ** 2
        k2, q2 = 4 * rr / x0, (zz * zz + (rr - 1) ** 2) / x0
        q = math.sqrt(q2)
        pp = 1 + q
        src1 = (q, pp, 1.0, k2 * k2, 2 * k2 * k2 * q / pp, pp, q)
        src2 = (q, pp, 1.0, k2 * (k2 - (q2 + 1) / rr), 2 * k2 * q * (k2 / pp - pp / rr), pp, q)
        a1, b1, a2, b2 = k2, -k2 * q2, k2 * (1 - 1 / rr), -k2 * q2 * (1 + 1 / rr)
        e = max(float(np.max(np.abs(np.array(src1) - np.array(_cel_entry(q, 1.0, a1, b1))))), float(np.max(np.abs(np.array(src2) - np.array(_cel_entry(q, 1.0, a2, b2)))))) / (1 + 1 / rr)
        worst["circle_entry_states"] = max(worst["circle_entry_states"], e)
        if not e < 1e-12:
            fails.append({"key": "cel-hypothesis:circle-entry", "desc": f"loop variables of current_circle_Hfield are not the prologue states of cel(q,1,a,b) (abs. {e:.2g})", "replay": {"r0": r0, "r": r, "z": z}})
        pf = math.sqrt(k2) / math.sqrt(rr) / q2 / 20 / r0 * 1e-6 * i0
        H = current_circle_Hfield(np.array([r0]), np.array([r]), np.array([z]), np.array([i0]))[:, 0]
        via_cel = np.array([pf * zz / rr * _cel_quad(q, 1.0, a1, b1), 0.0, -pf * _cel_quad(q, 1.0, a2, b2)]) * 795774.7154594767
        D = lambda t: r0 * r0 + r * r + z * z - 2 * r0 * r * math.cos(t)
        bs = i0 / (4 * math.pi) * np.array([quad(lambda t: r0 * z * math.cos(t) / D(t) ** 1.5, 0, 2 * math.pi, epsabs=1e-14, epsrel=1e-13, limit=200)[0], 0.0,
                                            quad(lambda t: r0 * (r0 - r * math.cos(t)) / D(t) ** 1.5, 0, 2 * math.pi, epsabs=1e-14, epsrel=1e-13, limit=200)[0]])
        sc = float(np.max(np.abs(bs))) + 1e-300
        e1, e2 = float(np.max(np.abs(H - via_cel))) / sc, float(np.max(np.abs(H - bs))) / sc
        worst["circle_vs_cel_integral"] = max(worst["circle_vs_cel_integral"], e1)
        worst["circle_vs_loop_integral"] = max(worst["circle_vs_loop_integral"], e2)
        if not (e1 < 1e-8 and e2 < 1e-8):
            fails.append({"key": "cel-hypothesis:circle", "desc": f"current_circle_Hfield differs from prefactor * cel integral (rel. {e1:.2g}) / from the Biot-Savart loop integral (rel. {e2:.2g})",
                          "replay": {"r0": r0, "r": r, "z": float(z), "i0": float(i0), "H": H.tolist(), "via_cel": via_cel.tolist(), "loop_integral": bs.tolist()}})
    return fails, {"cel_hypothesis_cases": n, "cel_hypothesis_worst": {k: float(f"{v:.3g}") for k, v in worst.items()}}


def sweep(ctx, n):
    import magpylib as magpy
    from magpylib import mu_0

    rng, fails, done, worst = ctx.rng, [], 0, {}
    with warnings.catch_warnings():
        warnings.simplefilter("ignore")
        for i in range(n):
            nps = np.random.default_rng(rng.randrange(2**31))
            cls = CLASSES[i % len(CLASSES)]
            src = make(cls, nps)
            if cls == "CylinderSegment" and (i // len(CLASSES)) % 2 == 0:
                # every other segment: an angular range that starts below -180 degrees (valid: [-360, 360])
                r1_, r2_, h_ = src.dimension[:3]
                a_ = float(nps.uniform(-350, -190))
                src = make(cls, nps, dimension=(r1_, r2_, h_, a_, a_ + float(nps.uniform(40, min(300, 355 - a_)))))
            outside, inside = observers(cls, src, rng, nps)
            pos, ori = nps.uniform(-2, 2, 3), R.random(rng=nps)
            src.position, src.orientation = pos, ori
            # half of the sources are evaluated next to a sibling in the same call (same class, geometry stretched along
            # one axis so that many numbers coincide): the integral a source's field equals does not depend on its batch mates
            mate = None
            if (rng.random() < 0.5 or cls == "TriangularMesh") and cls != "Dipole":
                stretch = np.ones(3)
                stretch[rng.randrange(3)] = nps.uniform(1.5, 3) if rng.random() < 0.4 else nps.uniform(0.2, 0.5)
                if getattr(src, "vertices", None) is not None:
                    mate = src.copy(vertices=np.asarray(src.vertices) * stretch) if cls != "TriangularMesh" else \
                        magpy.magnet.TriangularMesh(vertices=np.asarray(src.vertices) * stretch, faces=src.faces, polarization=src.polarization, position=pos, orientation=ori)
                elif cls in ("Cuboid",):
                    mate = src.copy(dimension=np.asarray(src.dimension) * stretch)
                elif cls in ("Cylinder", "CylinderSegment"):
                    dd = np.array(src.dimension, float)
                    dd[1 if cls == "Cylinder" else 2] *= stretch.max()
                    mate = src.copy(dimension=dd)
                else:
                    mate = src.copy(diameter=src.diameter * stretch.max())

            def evaluate(f, p):
                if mate is None:
                    return f(src, p)
                order = [mate, src] if i % 4 < 2 else [src, mate]
                return f(order, p)[order.index(src)]

            # the far field (60 ... 700 source sizes away), for bodies stretched so that the next multipole after the dipole matters:
            # each row is judged on its OWN scale — a switch to another expression beyond some distance shows here
            from oracles.sources import local_size
            far = None
            if cls not in ("Dipole",) and (i // len(CLASSES)) % 2 == 1:
                dfar = nps.normal(size=(4, 3))
                dfar /= np.linalg.norm(dfar, axis=1)[:, None]
                far = dfar * (10.0 ** nps.uniform(np.log10(60), np.log10(700), (4, 1))) * float(local_size(src))
            for kind, loc in (("outside", outside), ("inside", inside), ("far", far)):
                if loc is None:
                    continue
                if kind == "far":
                    glob = ori.apply(loc) + pos
                    Hq = ori.apply(reference_H(src, cls, loc, n=64))
                    Hq2 = ori.apply(reference_H(src, cls, loc, n=42))
                    H, B = evaluate(magpy.getH, glob), evaluate(magpy.getB, glob)
                    rown = np.linalg.norm(Hq, axis=1) + 1e-300
                    quad_est = float(np.max(np.linalg.norm(Hq - Hq2, axis=1) / rown))
                    eH = float(np.max(np.linalg.norm(H - Hq, axis=1) / rown))
                    eB = float(np.max(np.linalg.norm(B - mu_0 * Hq, axis=1) / (mu_0 * rown)))
                    # the closed forms lose digits like (distance / size)^3 (documented for the Cuboid; the elliptic-integral forms lose more)
                    # ... so the tolerance follows the farthest row's distance measured in the body's SMALLEST extent (a 0.65 x 0.73 x 1.86
                    # Cuboid seen from 1200 away is 1900 smallest sides away: 2e-16 * 1900^3 ~ 1.5e-6 of digit loss is the closed form's own)
                    dims_ = np.abs(np.asarray(getattr(src, "dimension", None) if getattr(src, "dimension", None) is not None else [local_size(src)], dtype=float))
                    dims_ = dims_[:3] if cls == "CylinderSegment" else dims_
                    if cls == "CylinderSegment":
                        dims_ = np.array([dims_[1] - dims_[0], dims_[2], dims_[1]])
                    smin_ = float(np.min(dims_[dims_ > 0])) if np.any(dims_ > 0) else float(local_size(src))
                    loss_ = 40 * 2.2e-16 * float(np.max(np.linalg.norm(loc, axis=1)) / smin_) ** 3
                    tol = max({"CylinderSegment": 5e-5, "Cylinder": 1e-5}.get(cls, 3e-6), 30 * quad_est, loss_)
                    done += len(loc)
                    worst[f"{cls}:far"] = max(worst.get(f"{cls}:far", 0), eH, eB)
                    if not (eH < tol and eB < tol):
                        fails.append({"key": f"first-principles:{cls}:far", "desc": f"far field (60 ... 700 source sizes) differs row by row from the quadrature of the defining integral (rel. H {eH:.2g}, B {eB:.2g})",
                                      "replay": {"class": cls, "where": "far", "local_observers": loc.tolist(), "rel_err_H": eH, "rel_err_B": eB,
                                                 "source": {a: np.asarray(getattr(src, a)).tolist() for a in ("dimension", "diameter", "vertices", "polarization", "current", "moment") if getattr(src, a, None) is not None}}})
                    continue
                glob = ori.apply(loc) + pos
                n1 = 96 if kind == "inside" else 64
                Hq = ori.apply(reference_H(src, cls, loc, n=n1))
                Hq_coarse = ori.apply(reference_H(src, cls, loc, n=(2 * n1) // 3))
                H = evaluate(magpy.getH, glob)
                B = evaluate(magpy.getB, glob)
                Bq = mu_0 * Hq + (ori.apply(src.polarization) if (kind == "inside" and cls in MAGNETS) else 0)
                scH = np.max(np.linalg.norm(Hq, axis=1)) + 1e-300
                # quadrature accuracy near/inside bodies: estimated from two node counts
                quad_est = float(np.max(np.abs(Hq - Hq_coarse)) / scH)
                tol = max(2e-6 if kind == "outside" else 2e-4, 30 * quad_est)
                eH = float(np.max(np.abs(H - Hq)) / scH)
                eB = float(np.max(np.abs(B - Bq)) / (np.max(np.abs(Bq)) + 1e-300))
                done += len(loc)
                worst[f"{cls}:{kind}"] = max(worst.get(f"{cls}:{kind}", 0), eH, eB)
                if not (eH < tol and eB < tol):
                    fails.append({"key": f"first-principles:{cls}:{kind}", "desc": f"field differs from the quadrature of the defining integral (rel. H {eH:.2g}, B {eB:.2g})",
                                  "replay": {"class": cls, "where": kind, "local_observers": loc.tolist(), "rel_err_H": eH, "rel_err_B": eB,
                                             "source": {a: np.asarray(getattr(src, a)).tolist() for a in ("dimension", "diameter", "vertices", "polarization", "current", "moment") if getattr(src, a, None) is not None}}})
        # observers EXACTLY on the prolongation of a Cylinder's lateral hull (r = r0 in floating point, beyond the end faces) and on
        # the inner / outer radius of a full ring, a dozen in ONE call (the vectorised elliptic-integral path) and one at a time:
        # both equal the quadrature of the defining integral (these points are off the surface)
        for _ in range(max(2, n // 12)):
            nps = np.random.default_rng(rng.randrange(2**31))
            d_, h_ = float(nps.choice([1.0, 2.0, 3.0])), float(nps.uniform(0.5, 2))
            polc = nps.uniform(-1, 1, 3)
            for srcx, clsx, radii in ((magpy.magnet.Cylinder(dimension=(d_, h_), polarization=polc), "Cylinder", [d_ / 2]),
                                      (magpy.magnet.CylinderSegment(dimension=(d_ / 4, d_ / 2, h_, 0, 360), polarization=polc), "CylinderSegment", [d_ / 4, d_ / 2])):
                ph = nps.uniform(0, 2 * np.pi, 12)
                ph[:3] = [0.0, np.pi / 2, np.arctan2(0.8, 0.6)]
                rr = nps.choice(radii, 12)
                zz = nps.uniform(0.6, 2.5, 12) * h_ * nps.choice([-1, 1], 12)
                loc = np.stack([rr * np.cos(ph), rr * np.sin(ph), zz], axis=1)
                loc[0], loc[1], loc[2] = (rr[0], 0.0, zz[0]), (0.0, rr[1], zz[1]), (0.6 * rr[2], 0.8 * rr[2], zz[2])
                Hq = reference_H(srcx, clsx, loc, n=96)
                scH = np.max(np.linalg.norm(Hq, axis=1)) + 1e-300
                quad_est = float(np.max(np.abs(Hq - reference_H(srcx, clsx, loc, n=64))) / scH)  # the reference's own accuracy, from two node counts
                Hb = magpy.getH(srcx, loc)
                Hs = np.array([magpy.getH(srcx, p_) for p_ in loc])
                Bb = magpy.getB(srcx, loc)
                done += len(loc)
                e1 = float(np.nanmax(np.abs(Hb - Hq)) / scH) if np.isfinite(Hb).all() else float("inf")
                e2 = float(np.nanmax(np.abs(Hs - Hq)) / scH) if np.isfinite(Hs).all() else float("inf")
                e3 = float(np.nanmax(np.abs(Bb - mu_0 * Hq)) / (mu_0 * scH)) if np.isfinite(Bb).all() else float("inf")
                worst[f"{clsx}:hull-prolongation"] = max(worst.get(f"{clsx}:hull-prolongation", 0), e1, e2, e3)
                if not max(e1, e2, e3) < max(2e-6, 30 * quad_est):
                    fails.append({"key": f"first-principles:{clsx}:hull-prolongation", "desc": f"observers exactly on r = r0 beyond the end faces: field differs from the quadrature of the defining integral "
                                  f"(12 rows in one call: rel. {e1:.2g}; one at a time: {e2:.2g}; B: {e3:.2g})", "replay": {"class": clsx, "dimension": np.asarray(srcx.dimension).tolist(), "polarization": polc.tolist(), "local_observers": loc.tolist()}})
        # observers EXACTLY on the straight continuation of a Cuboid's edges beyond the corners (two local coordinates equal to +- half a
        # side, the third outside the body) and on the extended face planes: off the surface, finite field, equal to the quadrature
        for _ in range(max(2, n // 12)):
            nps = np.random.default_rng(rng.randrange(2**31))
            dim = nps.choice([1.0, 2.0, 3.0, 4.0], 3) * nps.choice([1.0, 0.5], 3)
            a_, b_, c_ = dim / 2
            polc = nps.uniform(-1, 1, 3)
            cub = magpy.magnet.Cuboid(dimension=dim, polarization=polc)
            k_ = nps.uniform(1.3, 3.0, 6)
            loc = np.array([[a_, b_, k_[0] * c_], [-a_, b_, -k_[1] * c_], [a_, k_[2] * b_, -c_], [k_[3] * a_, -b_, c_], [-k_[4] * a_, -b_, -c_], [a_, -k_[5] * b_, c_],
                            [a_, 1.7 * b_, 2.1 * c_], [1.9 * a_, 0.3 * b_, c_]])
            Hq = reference_H(cub, "Cuboid", loc, n=96)
            scH = np.max(np.linalg.norm(Hq, axis=1)) + 1e-300
            quad_est = float(np.max(np.abs(Hq - reference_H(cub, "Cuboid", loc, n=64))) / scH)
            posx, orix = nps.uniform(-2, 2, 3), R.random(rng=nps)
            for moved_ in (False, True):
                src_ = cub.copy(position=posx, orientation=orix) if moved_ else cub
                glob = orix.apply(loc) + posx if moved_ else loc
                Hb = magpy.getH(src_, glob)
                Bb = magpy.getB(src_, glob)
                Hq_ = orix.apply(Hq) if moved_ else Hq
                done += len(loc)
                e1 = float(np.max(np.abs(Hb - Hq_)) / scH) if np.isfinite(Hb).all() else float("inf")
                e3 = float(np.max(np.abs(Bb - mu_0 * Hq_)) / (mu_0 * scH)) if np.isfinite(Bb).all() else float("inf")
                worst["Cuboid:edge-continuation"] = max(worst.get("Cuboid:edge-continuation", 0), e1, e3)
                # a moved body sees these observers on the locus only up to round-off: there the closed form is evaluated a hair off
                # the edge line, where it is accurate to ~1e-9 only
                if not max(e1, e3) < max(2e-6, 30 * quad_est):
                    fails.append({"key": "first-principles:Cuboid:edge-continuation", "desc": f"observers exactly on the continuation of a Cuboid's edges / on its extended face planes (off the surface{', body moved' if moved_ else ''}): "
                                  f"field differs from the quadrature of the defining integral (rel. H {e1:.2g}, B {e3:.2g})", "replay": {"dimension": dim.tolist(), "polarization": polc.tolist(), "local_observers": loc.tolist(), "moved": moved_}})
                    break
        # a body given as a surface mesh, observers on a regular interior grid aligned with the mesh (unrotated, at the
        # origin): the mesh field must equal the Cuboid closed form (itself compared with the quadrature above)
        from oracles.sources import lattice_box_case
        for _ in range(max(2, n // 10)):
            nps = np.random.default_rng(rng.randrange(2**31))
            mesh, cub, obs = lattice_box_case(rng, nps)
            for f in ("getB", "getH"):
                a, b = getattr(magpy, f)(mesh, obs), getattr(magpy, f)(cub, obs)
                e = float(np.max(np.abs(a - b)) / (np.max(np.abs(b)) + 1e-300))
                done += len(obs)
                worst["TriangularMesh:lattice"] = max(worst.get("TriangularMesh:lattice", 0), e)
                if not e < 1e-6:
                    k = int(np.argmax(np.abs(a - b).max(axis=1)))
                    fails.append({"key": "first-principles:TriangularMesh:inside", "desc": f"{f} of a box given as TriangularMesh differs from the Cuboid closed form at an interior grid point (rel. {e:.2g})",
                                  "replay": {"dimension": np.asarray(cub.dimension).tolist(), "polarization": np.asarray(cub.polarization).tolist(), "observer": obs[k].tolist(), "mesh": a[k].tolist(), "cuboid": b[k].tolist()}})
                    break
        # a box mesh given with some faces inside-out and the repair switched off, evaluated once, then repaired with
        # reorient_faces(): the second evaluation must be the field of the body (Cuboid closed form)
        for _ in range(max(2, n // 10)):
            nps = np.random.default_rng(rng.randrange(2**31))
            mesh, cub, obs = lattice_box_case(rng, nps)
            faces = np.array(mesh.faces)
            flip = nps.random(len(faces)) < 0.4
            flip[int(nps.integers(len(faces)))] = True
            faces[flip] = faces[flip][:, ::-1]
            raw = magpy.magnet.TriangularMesh(vertices=mesh.vertices, faces=faces, polarization=mesh.polarization, reorient_faces="skip",
                                              check_open="skip", check_disconnected="skip", check_selfintersecting="skip")
            far = np.asarray(cub.dimension) * nps.uniform(1.5, 3, 3) * nps.choice([-1, 1], 3)
            pts = np.concatenate([obs[:6], far[None]])
            magpy.getB(raw, pts)
            _ = raw.mesh
            raw.reorient_faces()
            for f in ("getB", "getH"):
                a, b = getattr(magpy, f)(raw, pts), getattr(magpy, f)(cub, pts)
                e = float(np.max(np.abs(a - b)) / (np.max(np.abs(b)) + 1e-300))
                done += len(pts)
                worst["TriangularMesh:repaired-after-use"] = max(worst.get("TriangularMesh:repaired-after-use", 0), e)
                if not e < 1e-6:
                    fails.append({"key": "first-principles:TriangularMesh:repaired-after-use", "desc": f"{f} of a box mesh that was evaluated with inward faces and then repaired with reorient_faces() differs from the Cuboid closed form (rel. {e:.2g})",
                                  "replay": {"dimension": np.asarray(cub.dimension).tolist(), "flipped_faces": np.where(flip)[0].tolist(), "observer": pts[0].tolist()}})
                    break
        # fine polylines: rings of many short segments in small numbers (nanometre .. centimetre radii) and / or given by
        # vertices far from the object's origin, against an independently written finite-wire formula summed over the segments
        # (a segment is short compared with its coordinates, not with the loop)
        for _ in range(max(3, n // 8)):
            nps = np.random.default_rng(rng.randrange(2**31))
            centre = nps.uniform(-3, 3, 3) * rng.choice([0.0, 1.0, 1.0])
            # away from the origin the vertices carry an absolute rounding error of ~4e-16: keep the segments >= 1e-7 long there
            rad = 10.0 ** (nps.uniform(-9, -2) if not centre.any() else nps.uniform(-4, -2))
            nseg = int(nps.integers(100, 900))
            ang = np.linspace(0, 2 * np.pi, nseg + 1)
            ex, ey = np.linalg.qr(nps.normal(size=(3, 3)))[0][:2]
            verts = centre + rad * (np.cos(ang)[:, None] * ex + np.sin(ang)[:, None] * ey)
            cur = float(nps.uniform(0.5, 3))
            loop = magpy.current.Polyline(current=cur, vertices=verts)
            d = nps.normal(size=(4, 3))
            obs = centre + d / np.linalg.norm(d, axis=1)[:, None] * rad * nps.uniform(2, 8, (4, 1))
            ref = np.zeros((4, 3))
            for a, b in zip(verts[:-1], verts[1:]):
                ref += _finite_wire_H(a, b, obs, cur)
            H = magpy.getH(loop, obs)
            e = float(np.max(np.abs(H - ref)) / (np.max(np.abs(ref)) + 1e-300))
            done += len(obs)
            worst["Polyline:fine"] = max(worst.get("Polyline:fine", 0), e)
            if not e < 1e-6:
                fails.append({"key": "first-principles:Polyline:fine", "desc": f"getH of a ring of {nseg} short segments (radius {rad:.3g}, vertices around {centre.round(3).tolist()}) differs from the Biot-Savart sum over its segments (rel. {e:.2g})",
                              "replay": {"radius": rad, "segments": nseg, "centre": centre.tolist(), "current": cur, "observer": obs[0].tolist(), "getH": H[0].tolist(), "reference": ref[0].tolist()}})
        cf, cst = cel_hypothesis(ctx, max(8, n // 3))
        fails += cf
    return fails, {"c01_observers": done, "c01_worst_rel_err": {k: float(f"{v:.3g}") for k, v in worst.items()}, **cst}
