"""C01 failing-input search: getH/getB of the real code against numerical quadrature of the defining
integrals, observers outside (near 0.3..3 sizes and far) and inside bodies, with random poses"""
import warnings

import numpy as np
from scipy.spatial.transform import Rotation as R

from oracles.quadrature import reference_H
from oracles.sources import CLASSES, MAGNETS, make


def observers(cls, src, rng, nps):
    d = nps.normal(size=(6, 3))
    d /= np.linalg.norm(d, axis=1)[:, None]
    out = [d[:3] * nps.uniform(2.2, 4, (3, 1)), d[3:] * nps.uniform(8, 40, (3, 1))]
    from oracles.sources import interior_points
    inside = interior_points(cls, src, nps, 6 if cls in ("TriangularMesh", "Tetrahedron") else 3)
    return np.concatenate(out), inside


def _finite_wire_H(a, b, obs, cur):
    """textbook field of a straight wire a->b (written independently of the library): I/(4 pi d) (cos t1 - cos t2) e_phi"""
    ab = b - a
    L = np.linalg.norm(ab)
    u = ab / L
    ra, rb = obs - a, obs - b
    perp = ra - np.outer(ra @ u, u)
    d = np.linalg.norm(perp, axis=1)
    c1 = (ra @ u) / np.linalg.norm(ra, axis=1)
    c2 = (rb @ u) / np.linalg.norm(rb, axis=1)
    ephi = np.cross(u, perp) / d[:, None]
    return (cur / (4 * np.pi * d) * (c1 - c2))[:, None] * ephi


def sweep(ctx, n):
    import magpylib as magpy
    from magpylib import mu_0

    rng, fails, done, worst = ctx.rng, [], 0, {}
    with warnings.catch_warnings():
        warnings.simplefilter("ignore")
        for i in range(n):
            nps = np.random.default_rng(rng.randrange(2**31))
            cls = CLASSES[i % len(CLASSES)]
            src = make(cls, nps)
            if cls == "CylinderSegment" and (i // len(CLASSES)) % 2 == 0:
                # every other segment: an angular range that starts below -180 degrees (valid: [-360, 360])
                r1_, r2_, h_ = src.dimension[:3]
                a_ = float(nps.uniform(-350, -190))
                src = make(cls, nps, dimension=(r1_, r2_, h_, a_, a_ + float(nps.uniform(40, min(300, 355 - a_)))))
            outside, inside = observers(cls, src, rng, nps)
            pos, ori = nps.uniform(-2, 2, 3), R.random(rng=nps)
            src.position, src.orientation = pos, ori
            # half of the sources are evaluated next to a sibling in the same call (same class, geometry stretched along
            # one axis so that many numbers coincide): the integral a source's field equals does not depend on its batch mates
            mate = None
            if (rng.random() < 0.5 or cls == "TriangularMesh") and cls != "Dipole":
                stretch = np.ones(3)
                stretch[rng.randrange(3)] = nps.uniform(1.5, 3) if rng.random() < 0.4 else nps.uniform(0.2, 0.5)
                if getattr(src, "vertices", None) is not None:
                    mate = src.copy(vertices=np.asarray(src.vertices) * stretch) if cls != "TriangularMesh" else \
                        magpy.magnet.TriangularMesh(vertices=np.asarray(src.vertices) * stretch, faces=src.faces, polarization=src.polarization, position=pos, orientation=ori)
                elif cls in ("Cuboid",):
                    mate = src.copy(dimension=np.asarray(src.dimension) * stretch)
                elif cls in ("Cylinder", "CylinderSegment"):
                    dd = np.array(src.dimension, float)
                    dd[1 if cls == "Cylinder" else 2] *= stretch.max()
                    mate = src.copy(dimension=dd)
                else:
                    mate = src.copy(diameter=src.diameter * stretch.max())

            def evaluate(f, p):
                if mate is None:
                    return f(src, p)
                order = [mate, src] if i % 4 < 2 else [src, mate]
                return f(order, p)[order.index(src)]

            for kind, loc in (("outside", outside), ("inside", inside)):
                if loc is None:
                    continue
                glob = ori.apply(loc) + pos
                n1 = 96 if kind == "inside" else 64
                Hq = ori.apply(reference_H(src, cls, loc, n=n1))
                Hq_coarse = ori.apply(reference_H(src, cls, loc, n=(2 * n1) // 3))
                H = evaluate(magpy.getH, glob)
                B = evaluate(magpy.getB, glob)
                Bq = mu_0 * Hq + (ori.apply(src.polarization) if (kind == "inside" and cls in MAGNETS) else 0)
                scH = np.max(np.linalg.norm(Hq, axis=1)) + 1e-300
                # quadrature accuracy near/inside bodies: estimated from two node counts
                quad_est = float(np.max(np.abs(Hq - Hq_coarse)) / scH)
                tol = max(2e-6 if kind == "outside" else 2e-4, 30 * quad_est)
                eH = float(np.max(np.abs(H - Hq)) / scH)
                eB = float(np.max(np.abs(B - Bq)) / (np.max(np.abs(Bq)) + 1e-300))
                done += len(loc)
                worst[f"{cls}:{kind}"] = max(worst.get(f"{cls}:{kind}", 0), eH, eB)
                if not (eH < tol and eB < tol):
                    fails.append({"key": f"first-principles:{cls}:{kind}", "desc": f"field differs from the quadrature of the defining integral (rel. H {eH:.2g}, B {eB:.2g})",
                                  "replay": {"class": cls, "where": kind, "local_observers": loc.tolist(), "rel_err_H": eH, "rel_err_B": eB,
                                             "source": {a: np.asarray(getattr(src, a)).tolist() for a in ("dimension", "diameter", "vertices", "polarization", "current", "moment") if getattr(src, a, None) is not None}}})
        # a body given as a surface mesh, observers on a regular interior grid aligned with the mesh (unrotated, at the
        # origin): the mesh field must equal the Cuboid closed form (itself compared with the quadrature above)
        from oracles.sources import lattice_box_case
        for _ in range(max(2, n // 10)):
            nps = np.random.default_rng(rng.randrange(2**31))
            mesh, cub, obs = lattice_box_case(rng, nps)
            for f in ("getB", "getH"):
                a, b = getattr(magpy, f)(mesh, obs), getattr(magpy, f)(cub, obs)
                e = float(np.max(np.abs(a - b)) / (np.max(np.abs(b)) + 1e-300))
                done += len(obs)
                worst["TriangularMesh:lattice"] = max(worst.get("TriangularMesh:lattice", 0), e)
                if not e < 1e-6:
                    k = int(np.argmax(np.abs(a - b).max(axis=1)))
                    fails.append({"key": "first-principles:TriangularMesh:inside", "desc": f"{f} of a box given as TriangularMesh differs from the Cuboid closed form at an interior grid point (rel. {e:.2g})",
                                  "replay": {"dimension": np.asarray(cub.dimension).tolist(), "polarization": np.asarray(cub.polarization).tolist(), "observer": obs[k].tolist(), "mesh": a[k].tolist(), "cuboid": b[k].tolist()}})
                    break
        # fine polylines: rings of many short segments in small numbers (nanometre .. centimetre radii) and / or given by
        # vertices far from the object's origin, against an independently written finite-wire formula summed over the segments
        # (a segment is short compared with its coordinates, not with the loop)
        for _ in range(max(3, n // 8)):
            nps = np.random.default_rng(rng.randrange(2**31))
            centre = nps.uniform(-3, 3, 3) * rng.choice([0.0, 1.0, 1.0])
            # away from the origin the vertices carry an absolute rounding error of ~4e-16: keep the segments >= 1e-7 long there
            rad = 10.0 ** (nps.uniform(-9, -2) if not centre.any() else nps.uniform(-4, -2))
            nseg = int(nps.integers(100, 900))
            ang = np.linspace(0, 2 * np.pi, nseg + 1)
            ex, ey = np.linalg.qr(nps.normal(size=(3, 3)))[0][:2]
            verts = centre + rad * (np.cos(ang)[:, None] * ex + np.sin(ang)[:, None] * ey)
            cur = float(nps.uniform(0.5, 3))
            loop = magpy.current.Polyline(current=cur, vertices=verts)
            d = nps.normal(size=(4, 3))
            obs = centre + d / np.linalg.norm(d, axis=1)[:, None] * rad * nps.uniform(2, 8, (4, 1))
            ref = np.zeros((4, 3))
            for a, b in zip(verts[:-1], verts[1:]):
                ref += _finite_wire_H(a, b, obs, cur)
            H = magpy.getH(loop, obs)
            e = float(np.max(np.abs(H - ref)) / (np.max(np.abs(ref)) + 1e-300))
            done += len(obs)
            worst["Polyline:fine"] = max(worst.get("Polyline:fine", 0), e)
            if not e < 1e-6:
                fails.append({"key": "first-principles:Polyline:fine", "desc": f"getH of a ring of {nseg} short segments (radius {rad:.3g}, vertices around {centre.round(3).tolist()}) differs from the Biot-Savart sum over its segments (rel. {e:.2g})",
                              "replay": {"radius": rad, "segments": nseg, "centre": centre.tolist(), "current": cur, "observer": obs[0].tolist(), "getH": H[0].tolist(), "reference": ref[0].tolist()}})
    return fails, {"c01_observers": done, "c01_worst_rel_err": {k: float(f"{v:.3g}") for k, v in worst.items()}}
