"""C01 failing-input search: getH/getB of the real code against numerical quadrature of the defining
integrals, observers outside (near 0.3..3 sizes and far) and inside bodies, with random poses"""
import warnings

import numpy as np
from scipy.spatial.transform import Rotation as R

from oracles.quadrature import reference_H
from oracles.sources import CLASSES, MAGNETS, make


def observers(cls, src, rng, nps):
    d = nps.normal(size=(6, 3))
    d /= np.linalg.norm(d, axis=1)[:, None]
    out = [d[:3] * nps.uniform(2.2, 4, (3, 1)), d[3:] * nps.uniform(8, 40, (3, 1))]
    from oracles.sources import interior_points
    inside = interior_points(cls, src, nps, 6 if cls in ("TriangularMesh", "Tetrahedron") else 3)
    return np.concatenate(out), inside


def sweep(ctx, n):
    import magpylib as magpy
    from magpylib import mu_0

    rng, fails, done, worst = ctx.rng, [], 0, {}
    with warnings.catch_warnings():
        warnings.simplefilter("ignore")
        for i in range(n):
            nps = np.random.default_rng(rng.randrange(2**31))
            cls = CLASSES[i % len(CLASSES)]
            src = make(cls, nps)
            outside, inside = observers(cls, src, rng, nps)
            pos, ori = nps.uniform(-2, 2, 3), R.random(rng=nps)
            src.position, src.orientation = pos, ori
            for kind, loc in (("outside", outside), ("inside", inside)):
                if loc is None:
                    continue
                glob = ori.apply(loc) + pos
                n1 = 96 if kind == "inside" else 64
                Hq = ori.apply(reference_H(src, cls, loc, n=n1))
                Hq_coarse = ori.apply(reference_H(src, cls, loc, n=(2 * n1) // 3))
                H = src.getH(glob)
                B = src.getB(glob)
                Bq = mu_0 * Hq + (ori.apply(src.polarization) if (kind == "inside" and cls in MAGNETS) else 0)
                scH = np.max(np.linalg.norm(Hq, axis=1)) + 1e-300
                # quadrature accuracy near/inside bodies: estimated from two node counts
                quad_est = float(np.max(np.abs(Hq - Hq_coarse)) / scH)
                tol = max(2e-6 if kind == "outside" else 2e-4, 30 * quad_est)
                eH = float(np.max(np.abs(H - Hq)) / scH)
                eB = float(np.max(np.abs(B - Bq)) / (np.max(np.abs(Bq)) + 1e-300))
                done += len(loc)
                worst[f"{cls}:{kind}"] = max(worst.get(f"{cls}:{kind}", 0), eH, eB)
                if not (eH < tol and eB < tol):
                    fails.append({"key": f"first-principles:{cls}:{kind}", "desc": f"field differs from the quadrature of the defining integral (rel. H {eH:.2g}, B {eB:.2g})",
                                  "replay": {"class": cls, "where": kind, "local_observers": loc.tolist(), "rel_err_H": eH, "rel_err_B": eB,
                                             "source": {a: np.asarray(getattr(src, a)).tolist() for a in ("dimension", "diameter", "vertices", "polarization", "current", "moment") if getattr(src, a, None) is not None}}})
    return fails, {"c01_observers": done, "c01_worst_rel_err": {k: float(f"{v:.3g}") for k, v in worst.items()}}
