"""Deterministic replays of the recorded (not repaired) findings of known_findings.json.

Every listed finding has one fixed input here.  check.py runs the replays of its property on every run: a finding that
still reproduces is printed as `KNOWN-FINDING: ...` (exit code unaffected); one that no longer reproduces is reported as an
informational line only.  The sampled oracles may additionally hit the same key with other inputs; those are matched
by key in vlib.core.finish()."""
import warnings

import numpy as np


def _c02_mu0_literal():
    import magpylib as magpy
    c = magpy.magnet.Cuboid(dimension=(1, 1, 1), polarization=(0, 0, 1))
    rel = abs(c.polarization[2] - magpy.mu_0 * c.magnetization[2]) / abs(c.polarization[2])
    return rel > 1e-14, {"reproduce": "c = magpylib.magnet.Cuboid(dimension=(1,1,1), polarization=(0,0,1)); c.polarization[2] - magpylib.mu_0*c.magnetization[2]", "relative_difference": float(rel)}


def _nonfinite(make, obs, field):
    def run():
        import magpylib as magpy
        with warnings.catch_warnings():
            warnings.simplefilter("ignore")
            v = getattr(magpy, "get" + field)(make(magpy), np.array(obs, dtype=float))
        return (not bool(np.all(np.isfinite(v)))), {"observer": obs, "field": field, "value": np.asarray(v).tolist()}
    return run


def _cuboid_near_edge(field):
    def run():
        import magpylib as magpy
        dim = np.array([0.741729328973483, 1.6081234329282101, 1.9037932035074583])
        c = magpy.magnet.Cuboid(dimension=dim, polarization=(-0.098, 0.757, 0.576))
        obs = np.array([dim[0] / 2 * (1 + 1e-14), -dim[1] / 2 * (1 + 1e-14), 0.8929812724567276])
        with warnings.catch_warnings():
            warnings.simplefilter("ignore")
            v = getattr(magpy, "get" + field)(c, obs)
        return (not bool(np.all(np.isfinite(v)))), {"dimension": dim.tolist(), "observer": obs.tolist(), "field": field, "value": np.asarray(v).tolist()}
    return run


def _cylinder_denormal_hang():
    """Cylinder of height 2e-150, twelve observers on the hull 1e-14 (relative) above the top edge: celv never returns"""
    import os
    import subprocess
    import sys
    code = ("import numpy as np, magpylib as magpy\n"
            "c = magpy.magnet.Cylinder(polarization=(0,0,1), dimension=(2, 2e-150))\n"
            "print(c.getB(np.array([[1.0, 0, 1.00000000000001e-150]]*12))[0])\n")
    env = {**os.environ, "PYTHONPATH": os.environ.get("VERIF_REPO", "/repo")}
    try:
        r = subprocess.run([sys.executable, "-c", code], capture_output=True, text=True, timeout=8, env=env)
    except subprocess.TimeoutExpired:
        return True, {"reproduce": code, "outcome": "no result within 8 s"}
    bad = r.returncode != 0 or "nan" in r.stdout or "inf" in r.stdout
    return bad, {"reproduce": code, "outcome": (r.stdout + r.stderr)[-300:]}


def _cylseg_el3_valueerror():
    """CylinderSegment (0.5, 1, 1, 0, 90): one observer on r = r2, 6.3e-5 rad beside the phi1 face, 1e-6 below the top"""
    import magpylib as magpy
    s = magpy.magnet.CylinderSegment(polarization=(.1, .2, .3), dimension=(.5, 1, 1, 0, 90))
    code = "magpylib.magnet.CylinderSegment(polarization=(.1,.2,.3), dimension=(.5,1,1,0,90)).getH((0.9999999980155, -6.29999999583255e-05, 0.499999))"
    try:
        with np.errstate(all="ignore"):
            import warnings
            with warnings.catch_warnings():
                warnings.simplefilter("ignore")
                h = s.getH((0.9999999980155, -6.29999999583255e-05, 0.499999))
    except ValueError as e:
        return True, {"reproduce": code, "outcome": f"ValueError: {e}"}
    return (not bool(np.all(np.isfinite(h)))), {"reproduce": code, "outcome": repr(h)}


def _dipole(magpy):
    return magpy.misc.Dipole(moment=(0.3, -0.2, 0.5))


def _sphere0(magpy):
    return magpy.magnet.Sphere(diameter=0.0, polarization=(0.1, 0.2, 0.3))


# bodies for C16 (vertices, faces, size factor of the replay, expected status_selfintersecting).  The first five are the
# self-intersecting bodies check_selfintersecting missed before its repair (now asserted by oracles/c16.py at every size); the
# last one is still missed.
C16_MESHES = {
    # Stella octangula: two regular tetrahedra, every edge of one crosses an edge of the other at its midpoint; the common part is an
    # octahedron.  Each edge meets the other body's faces only ON their common edge: one signed volume is 0
    "stella-octangula": ([[1, 1, 1], [1, -1, -1], [-1, 1, -1], [-1, -1, 1], [-1, -1, -1], [-1, 1, 1], [1, -1, 1], [1, 1, -1]],
                         [[0, 1, 2], [0, 3, 1], [0, 2, 3], [1, 3, 2], [4, 5, 6], [4, 6, 7], [4, 7, 5], [5, 7, 6]], 1.0, True),
    # the cube [0,2]^3 and its copy shifted by (1,1,1): every edge of one meets the other's faces exactly on a face diagonal
    "cube-half-diagonal": ([[x, y, z] for x in (0, 2) for y in (0, 2) for z in (0, 2)] + [[x, y, z] for x in (1, 3) for y in (1, 3) for z in (1, 3)],
                           [[0, 1, 3], [0, 3, 2], [4, 6, 7], [4, 7, 5], [0, 4, 5], [0, 5, 1], [2, 3, 7], [2, 7, 6], [0, 2, 6], [0, 6, 4], [1, 5, 7], [1, 7, 3],
                            [8, 9, 11], [8, 11, 10], [12, 14, 15], [12, 15, 13], [8, 12, 13], [8, 13, 9], [10, 11, 15], [10, 15, 14], [8, 10, 14], [8, 14, 12], [9, 13, 15], [9, 15, 11]], 1.0, True),
    # two thin tetrahedra pointing at each other, tips overlapping by 0.2: the centroids of the crossing faces are 4/3 of their
    # length apart; the ball query radius was 1.5 * (2/3 length) = 1 length: the pairs were never tested (r_factor=2 finds them)
    "two-spikes": ([[-1.0, 0.1, 0.0], [-1.0, -0.05, 0.0866], [-1.0, -0.05, -0.0866], [0.1, 0.0, 0.0], [1.0, -0.1, 0.0], [1.0, 0.05, -0.0866], [1.0, 0.05, 0.0866], [-0.1, 0.0, 0.0]],
                   [[0, 2, 1], [0, 1, 3], [1, 2, 3], [0, 3, 2], [4, 5, 6], [4, 7, 5], [5, 7, 6], [4, 6, 7]], 1.0, True),
    # a thin spike through the interior of a face of the cube [-1,1]^3 — was reported at this size, not when all numbers are
    # micrometres (eps = 1e-6 was an absolute length)
    "spike-box-micro": ([[-1, -1, -1], [-1, -1, 1], [-1, 1, -1], [-1, 1, 1], [1, -1, -1], [1, -1, 1], [1, 1, -1], [1, 1, 1],
                         [2.5, 0.3, -0.2], [0.4, 0.33, -0.2], [0.4, 0.27, -0.17], [0.4, 0.27, -0.23]],
                        [[0, 1, 3], [0, 3, 2], [4, 6, 7], [4, 7, 5], [0, 4, 5], [0, 5, 1], [2, 3, 7], [2, 7, 6], [0, 2, 6], [0, 6, 4], [1, 5, 7], [1, 7, 3],
                         [8, 9, 10], [8, 10, 11], [8, 11, 9], [9, 11, 10]], 1e-6, True),
    # two needle triangles in perpendicular planes crossing near their tips (tips off each other's plane), centroids 4/3 lengths apart
    "two-needles": ([[-1.0, -0.048, 0.0], [-1.0, 0.052, 0.0], [0.05, 0.002, 0.0], [1.0, 0.0, -0.0515], [1.0, 0.0, 0.0485], [-0.05, 0.0, -0.0015]],
                    [[0, 1, 2], [3, 4, 5]], 1.0, True),
    # STILL MISSED: a small octahedron whose equator lies in the top face of a box (away from the face's diagonal), its lower half
    # inside the box: every edge of either body either lies in the plane of the facets it meets or ends in it
    "octahedron-equator-in-face": ([[-2, -2, -2], [-2, -2, 0], [-2, 2, -2], [-2, 2, 0], [2, -2, -2], [2, -2, 0], [2, 2, -2], [2, 2, 0],
                                    [1.5, 0, 0], [1.25, 0.25, 0], [1.0, 0, 0], [1.25, -0.25, 0], [1.25, 0, 0.25], [1.25, 0, -0.25]],
                                   [[0, 1, 3], [0, 3, 2], [4, 6, 7], [4, 7, 5], [0, 4, 5], [0, 5, 1], [2, 3, 7], [2, 7, 6], [0, 2, 6], [0, 6, 4], [1, 5, 7], [1, 7, 3],
                                    [8, 9, 12], [9, 10, 12], [10, 11, 12], [11, 8, 12], [9, 8, 13], [10, 9, 13], [11, 10, 13], [8, 11, 13]], 1.0, True),
}


def _c16_selfintersecting(kind):
    def run():
        import magpylib as magpy
        v, f, scale, expected = C16_MESHES[kind]
        v, f = np.array(v, float) * scale, np.array(f)
        with warnings.catch_warnings():
            warnings.simplefilter("ignore")
            m = magpy.magnet.TriangularMesh(vertices=v, faces=f, polarization=(0, 0, 1), check_disconnected="ignore", check_selfintersecting="ignore", reorient_faces="ignore")
            m.check_selfintersecting(mode="ignore")
        return bool(m.status_selfintersecting) is not expected, {"kind": kind, "vertices": v.tolist(), "faces": f.tolist(), "status_selfintersecting": m.status_selfintersecting, "expected": expected}
    return run


def _c20_sensor_leaf(key):
    def run():
        import magpylib as magpy
        st = magpy.Sensor().style
        node = st
        for part in key.split("_"):
            node = getattr(node, part)
        return node is not None, {"leaf": key, "fresh_object_value": repr(node), "reproduce": f"magpylib.Sensor().style.{key.replace('_', '.')}"}
    return run


def _c02_ray_through_edge():
    import magpylib as magpy
    v = np.array([(0, 0, 0), (1, 0, 0), (0, 1, 0), (0, 0, 1)], float)
    with warnings.catch_warnings():
        warnings.simplefilter("ignore")
        m = magpy.magnet.TriangularMesh.from_ConvexHull(points=v, polarization=(0, 0, 1))
        x = (0.120012345, 0.059923456, 0.574932109)
        J = magpy.getJ(m, x)
    return bool(np.all(J == 0)), {"reproduce": "m = magpylib.magnet.TriangularMesh.from_ConvexHull(points=[(0,0,0),(1,0,0),(0,1,0),(0,0,1)], polarization=(0,0,1)); magpylib.getJ(m, (0.120012345, 0.059923456, 0.574932109))",
                                  "J": np.asarray(J).tolist(), "expected": [0, 0, 1]}


def _c17_coerced(kind):
    def run():
        import magpylib as magpy
        bad = None if kind == "None" else "2"
        c = magpy.magnet.Cuboid(dimension=(1, bad, 3), polarization=(0, 0, 1))
        return True, {"reproduce": f"magpylib.magnet.Cuboid(dimension=(1, {bad!r}, 3), polarization=(0,0,1)).dimension", "stored": np.asarray(c.dimension).tolist()}
    return run


def _c17_from_mesh_valueerror():
    import magpylib as magpy
    try:
        magpy.magnet.TriangularMesh.from_mesh(mesh=[[[1, 2]] * 3] * 4, polarization=(0, 0, 1))
    except Exception as e:  # noqa: BLE001
        from magpylib._src.exceptions import MagpylibBadUserInput
        return not isinstance(e, MagpylibBadUserInput), {"reproduce": "magpylib.magnet.TriangularMesh.from_mesh(mesh=[[[1,2]]*3]*4, polarization=(0,0,1))", "raised": type(e).__name__}
    return True, {"raised": None}


def _c20_trace_kwargs():
    import magpylib as magpy
    t = magpy.graphics.Trace3d(backend="matplotlib", constructor="plot", kwargs={"clip_on": False})
    return t.kwargs != {"clip_on": False}, {"reproduce": "magpylib.graphics.Trace3d(backend='matplotlib', constructor='plot', kwargs={'clip_on': False}).kwargs", "got": repr(t.kwargs)}


def _c13_triangle_clamp_band():
    """Triangle (0,0,0), (4,0,0), (0,4,0) and its halves through the midpoint of the first edge, observer 1e-10 above the cut line:
    the whole's solid angle is clamped to 0 (B_z = 0), the halves' are not (B_z = sigma/2)"""
    import magpylib as magpy
    a, b, c, m = (0, 0, 0), (4, 0, 0), (0, 4, 0), (2, 0, 0)
    obs = (1.0, 2.0, 1e-10)
    with warnings.catch_warnings():
        warnings.simplefilter("ignore")
        whole = magpy.getB(magpy.misc.Triangle(vertices=[a, b, c], polarization=(0, 0, 1)), obs)
        halves = magpy.getB([magpy.misc.Triangle(vertices=[a, m, c], polarization=(0, 0, 1)), magpy.misc.Triangle(vertices=[m, b, c], polarization=(0, 0, 1))], obs, sumup=True)
        tet = magpy.getB(magpy.magnet.Tetrahedron(vertices=[(0, 0, 0), (1, 0, 0), (0, 1, 0), (0, 0, 1)], polarization=(0, 0, 1)), [(0.25, 0.25, 1e-10), (0.25, 0.25, 1e-6)])
    return bool(abs(whole[2] - halves[2]) > 0.1), {"observer": list(obs), "B_whole": np.asarray(whole).tolist(), "B_halves": np.asarray(halves).tolist(),
                                                   "tetrahedron_Bz_at_1e-10_and_1e-6_above_a_face": [float(tet[0][2]), float(tet[1][2])]}


REPLAYS = {
    "C13": {"representation:triangle-split:clamp-band": _c13_triangle_clamp_band},
    # coerced-entry:None / coerced-entry:numeric-string are repaired (known_findings.json, `fixed`): make_float_array refuses entries that
    # are not numbers; their inputs are fixed rows of the valid stream and grammar values of oracles/c17.py
    "C17": {"foreign-error:TriangularMesh.from_mesh:ValueError": _c17_from_mesh_valueerror},
    "C02": {"mu0-literal:BaseMagnet-setters": _c02_mu0_literal, "j-indicator:TriangularMesh:ray-through-edge": _c02_ray_through_edge},
    "C15": {
        **{f"non-finite:Dipole:{variant}:{f}": _nonfinite(_dipole, [[5e-324, 0.0, 0.0], [1e-160, 1e-160, 1e-160]], f)
           for variant in ("plain", "tiny", "huge", "zero-size") for f in "BH"},
        **{f"non-finite:Sphere:zero-size:{f}": _nonfinite(_sphere0, [[5e-324, 0.0, 0.0], [1e-160, 1e-160, 1e-160]], f) for f in "BH"},
        **{f"non-finite:Cuboid:near-edge:{f}": _cuboid_near_edge(f) for f in "BH"},
        "hang-or-crash:Cylinder:denormal-height": _cylinder_denormal_hang,
        "hang-or-crash:CylinderSegment:el3-nan-to-int": _cylseg_el3_valueerror,
        # non-finite:{Triangle,Tetrahedron,TriangularMesh}:near-vertex:{B,H} and non-finite:Triangle:zero-size:{B,H} are repaired
        # (known_findings.json, `fixed`); their inputs are regression cases of oracles/c15.py with finiteness AND accuracy assertions
    },
    "C16": {"status:octahedron-equator-in-face:selfintersection-not-detected": _c16_selfintersecting("octahedron-equator-in-face")},
    "C20": {**{f"style:sensor:{k}:object-default-shadows-family": _c20_sensor_leaf(k) for k in ("pixel_size", "arrows_x_show", "arrows_y_show", "arrows_z_show")},
            "notation:dict-valued-property-rewritten": _c20_trace_kwargs},
}


def replay(pid, key):
    fn = REPLAYS.get(pid, {}).get(key)
    if fn is None:
        return None, {"note": "no deterministic replay registered for this key"}
    try:
        return fn()
    except Exception as e:  # noqa: BLE001
        return None, {"error": f"{type(e).__name__}: {e}"}
