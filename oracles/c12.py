"""C12 failing-input search: one configuration per class generated at length scales 10^k, k in -9..9,
and excitation magnitudes 1e-12..1e12; B/H rescaled by the expected power must agree, J pattern
(inside/outside decision) and mesh status must not change."""
import warnings

import numpy as np

from oracles.sources import CLASSES, params

LEN = {"dimension", "diameter", "vertices"}
EXC = {"polarization", "current", "moment"}


def ctor(cls):
    import magpylib as magpy
    return getattr(magpy.magnet, cls, None) or getattr(magpy.current, cls, None) or getattr(magpy.misc, cls)


def scaled(cls, kw, s, e):
    out = {}
    for a, v in kw.items():
        v = np.asarray(v, float) if a != "faces" else v
        if a == "dimension" and cls == "CylinderSegment":
            v = np.array([v[0] * s, v[1] * s, v[2] * s, v[3], v[4]])
        elif a in LEN:
            v = v * s
        elif a == "moment":
            v = v * e  # moment is excitation; keep it independent of the length unit
        elif a in EXC:
            v = v * e
        out[a] = v
    return out


def sweep(ctx, n):
    import magpylib as magpy

    rng, fails, done, worst = ctx.rng, [], 0, {}
    decades = [-9, -6, -3, 3, 6, 9]
    with warnings.catch_warnings():
        warnings.simplefilter("ignore")
        for i in range(n):
            nps = np.random.default_rng(rng.randrange(2**31))
            cls = CLASSES[i % len(CLASSES)]
            kw = params(cls, nps)
            d = nps.normal(size=(5, 3))
            d /= np.linalg.norm(d, axis=1)[:, None]
            obs = np.concatenate([d * nps.uniform(2.5, 6, (5, 1)), nps.uniform(-0.12, 0.12, (3, 3))])
            base = ctor(cls)(**kw)
            refB, refH, refJ = base.getB(obs), base.getH(obs), magpy.getJ(base, obs)
            deg = {"Dipole": 3, "Circle": 1, "Polyline": 1}.get(cls, 0)
            for k in rng.sample(decades, 3):
                s = 10.0**k
                e = 10.0 ** rng.choice([-12, -6, 0, 0, 6, 12])
                o = ctor(cls)(**scaled(cls, kw, s, e))
                B = o.getB(obs * s) * s**deg / e
                H = o.getH(obs * s) * s**deg / e
                J = magpy.getJ(o, obs * s)
                done += 1
                scB, scH = np.max(np.abs(refB)), np.max(np.abs(refH))
                err = max(float(np.max(np.abs(B - refB)) / scB), float(np.max(np.abs(H - refH)) / scH))
                worst[cls] = max(worst.get(cls, 0.0), err if np.isfinite(err) else 1e300)
                jpat = np.array_equal(J != 0, refJ != 0)
                status = True
                if cls == "TriangularMesh":
                    status = (o.status_open, o.status_disconnected, o.status_reoriented) == (base.status_open, base.status_disconnected, base.status_reoriented) \
                        and np.array_equal(o.faces, base.faces)
                if not (err < 1e-9 and jpat and status):
                    what = "field" if not err < 1e-9 else ("inside/outside" if not jpat else "mesh status/orientation")
                    fails.append({"key": f"unit-scale:{cls}:1e{k}", "desc": f"{what} changes with the length unit (scale 1e{k}, rel. err {err:.2g})",
                                  "replay": {"class": cls, "scale": s, "excitation_factor": e, "params_at_scale_1": {a: np.asarray(v).tolist() for a, v in kw.items()},
                                             "observers_at_scale_1": obs.tolist(), "rel_err": err, "J_pattern_equal": bool(jpat)}})
    return fails, {"c12_cases": done, "c12_worst_rel_err": {k: float(f"{v:.3g}") for k, v in worst.items()}}
