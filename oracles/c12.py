"""C12 failing-input search: one configuration per class generated at length scales 10^k, k in -9..9,
and excitation magnitudes 1e-12..1e12; B/H rescaled by the expected power must agree, J pattern
(inside/outside decision) and mesh status must not change."""
import warnings

import numpy as np

from oracles.sources import CLASSES, interior_points, local_size, params

LEN = {"dimension", "diameter", "vertices"}
EXC = {"polarization", "current", "moment"}


def ctor(cls):
    import magpylib as magpy
    return getattr(magpy.magnet, cls, None) or getattr(magpy.current, cls, None) or getattr(magpy.misc, cls)


def scaled(cls, kw, s, e):
    out = {}
    for a, v in kw.items():
        v = np.asarray(v, float) if a != "faces" else v
        if a == "dimension" and cls == "CylinderSegment":
            v = np.array([v[0] * s, v[1] * s, v[2] * s, v[3], v[4]])
        elif a in LEN:
            v = v * s
        elif a == "moment":
            v = v * e  # moment is excitation; keep it independent of the length unit
        elif a in EXC:
            v = v * e
        out[a] = v
    return out


NEAR_K = []  # closeness exponent of the points returned by the last call of near_surface_points (k: relative 1e-k off the surface)


def near_surface_points(cls, base, nps, rng):
    """observers a relative 1e-3 … 1e-8 off the body's surface (either side), located by bisection on the
    library's own J pattern at unit scale; for line currents: that close to the conductor"""
    import magpylib as magpy

    pts = []
    NEAR_K.clear()
    inner = interior_points(cls, base, nps, 3)
    size = local_size(base)
    if inner is not None:
        for p_in in inner:
            d = nps.normal(size=3)
            d /= np.linalg.norm(d)
            lo, hi = 0.0, 4.0 * size
            if not np.any(magpy.getJ(base, p_in) != 0) or np.any(magpy.getJ(base, p_in + hi * d) != 0):
                continue
            for _ in range(70):
                mid = 0.5 * (lo + hi)
                if np.any(magpy.getJ(base, p_in + mid * d) != 0):
                    lo = mid
                else:
                    hi = mid
            for k in (3, 5, 7, 8):
                for sgn in (-1, 1):
                    pts.append(p_in + lo * (1 + sgn * 10.0**-k) * d)
                    NEAR_K.append(k)
    elif cls == "Circle":
        r0 = base.diameter / 2
        for k in (3, 5, 7):
            ph = nps.uniform(0, 2 * np.pi)
            pts.append(np.array([np.cos(ph), np.sin(ph), 0]) * r0 * (1 + rng.choice([-1, 1]) * 10.0**-k))
            pts.append(np.array([np.cos(ph) * r0, np.sin(ph) * r0, r0 * 10.0**-k]))
    elif cls == "Polyline":
        v = np.asarray(base.vertices, float)
        for k in (3, 5, 7):
            i = rng.randrange(len(v) - 1)
            t = nps.uniform(-0.2, 1.2)
            off = np.cross(v[i + 1] - v[i], nps.normal(size=3))
            pts.append(v[i] + t * (v[i + 1] - v[i]) + off / np.linalg.norm(off) * np.linalg.norm(v[i + 1] - v[i]) * 10.0**-k)
    return np.array(pts) if pts else np.zeros((0, 3))


def sweep(ctx, n):
    import magpylib as magpy

    rng, fails, done, worst = ctx.rng, [], 0, {}
    decades = [-9, -6, -3, 3, 6, 9]
    with warnings.catch_warnings():
        warnings.simplefilter("ignore")
        for i in range(n):
            nps = np.random.default_rng(rng.randrange(2**31))
            cls = CLASSES[i % len(CLASSES)]
            kw = params(cls, nps)
            d = nps.normal(size=(5, 3))
            d /= np.linalg.norm(d, axis=1)[:, None]
            obs = np.concatenate([d * nps.uniform(2.5, 6, (5, 1)), nps.uniform(-0.12, 0.12, (3, 3))])
            base = ctor(cls)(**kw)
            # binary mode: scaling by powers of two commutes exactly with every IEEE operation, so a
            # unit-independent computation must reproduce the unit-scale result (almost) bit for bit, also
            # right next to surfaces and conductors where every special-case decision is on a knife edge
            binary = (i // len(CLASSES)) % 2 == 1
            near_k = np.zeros(len(obs), dtype=int)
            if binary:
                nsp = near_surface_points(cls, base, nps, rng)
                near_k = np.concatenate([near_k, np.array(NEAR_K[:len(nsp)] + [0] * (len(nsp) - len(NEAR_K[:len(nsp)])), dtype=int)])
                obs = np.concatenate([obs, nsp])
            refB, refH, refJ = base.getB(obs), base.getH(obs), magpy.getJ(base, obs)
            deg = {"Dipole": 3, "Circle": 1, "Polyline": 1}.get(cls, 0)
            tol = 1e-11 if binary else 1e-9
            for k in (rng.sample([-33, -30, -20, -10, 10, 20, 30], 3) if binary else rng.sample(decades, 3)):
                s = 2.0**k if binary else 10.0**k
                e = 2.0 ** rng.choice([-40, -20, 0, 0, 20, 40]) if binary else 10.0 ** rng.choice([-12, -6, 0, 0, 6, 12])
                o = ctor(cls)(**scaled(cls, kw, s, e))
                via = "plain"
                if cls == "TriangularMesh":
                    # the same body handed over through the other constructors (they rebuild vertices/faces from coordinates)
                    via = rng.choice(["plain", "from_mesh", "from_triangles", "from_ConvexHull"])
                    pol_s = np.asarray(kw["polarization"], float) * e
                    if via == "from_mesh":
                        o = magpy.magnet.TriangularMesh.from_mesh(mesh=np.asarray(base.mesh) * s, polarization=pol_s)
                    elif via == "from_triangles":
                        tris = [magpy.misc.Triangle(vertices=t * s, polarization=pol_s) for t in np.asarray(base.mesh)]
                        o = magpy.magnet.TriangularMesh.from_triangles(triangles=tris, polarization=pol_s)
                    elif via == "from_ConvexHull":
                        o = magpy.magnet.TriangularMesh.from_ConvexHull(points=np.asarray(kw["vertices"], float) * s, polarization=pol_s)
                B = o.getB(obs * s) * s**deg / e
                H = o.getH(obs * s) * s**deg / e
                J = magpy.getJ(o, obs * s)
                done += 1
                fin = np.isfinite(refB).all(axis=1) & np.isfinite(refH).all(axis=1)  # non-finite reference values are C15's business
                if via != "plain":
                    # points closer than 1e-6 (relative) to a mesh surface are "touching" by the library's own definition: the
                    # inside test counts an end point as inside when |cos(angle to the facet normal, seen from the facet's reference
                    # vertex)| < 1e-7, and which vertex is the reference depends on the vertex order inside the face — another
                    # constructor (qhull, np.unique) may order them differently. With the same faces the decision is bit-identical
                    # at every scale (plain constructor, kept at full strength).
                    fin = fin & (near_k[:len(fin)] < 7)
                scB, scH = np.max(np.abs(refB[fin])), np.max(np.abs(refH[fin]))
                err = max(float(np.max(np.abs(B - refB)[fin]) / scB), float(np.max(np.abs(H - refH)[fin]) / scH))
                worst[cls] = max(worst.get(cls, 0.0), err if np.isfinite(err) else 1e300)
                jpat = np.array_equal((J != 0)[fin], (refJ != 0)[fin])
                status = True
                if cls == "TriangularMesh":
                    status = (o.status_open, o.status_disconnected, o.status_reoriented) == (base.status_open, base.status_disconnected, base.status_reoriented) \
                        and (via != "plain" or np.array_equal(o.faces, base.faces)) and len(o.faces) == len(base.faces)
                tol_here = tol if via == "plain" else max(tol, 1e-9)  # another constructor may triangulate / order the faces differently: equal field, different rounding
                if not (err < tol_here and jpat and status):
                    what = "field" if not err < tol_here else ("inside/outside" if not jpat else "mesh status/orientation")
                    sk = f"2^{k}" if binary else f"1e{k}"
                    fails.append({"key": f"unit-scale:{cls}:{sk}", "desc": f"{what} changes with the length unit (scale {sk}, rel. err {err:.2g}" + (f", built with {via}" if via != "plain" else "") + ")",
                                  "replay": {"class": cls, "scale": s, "excitation_factor": e, "params_at_scale_1": {a: np.asarray(v).tolist() for a, v in kw.items()},
                                             "observers_at_scale_1": obs.tolist(), "rel_err": err, "J_pattern_equal": bool(jpat)}})
    # the same ARRANGEMENT written in another length unit: poses reached through the path machinery (position setter, move along a
    # path, rotation about an anchor, a collection turned as a whole, a sensor with pixels turned about an anchor) scale like every
    # other length — no absolute length (a rounding grid, an absolute tolerance) may enter there either
    from scipy.spatial.transform import Rotation as R_
    with warnings.catch_warnings():
        warnings.simplefilter("ignore")
        for j in range(max(6, n // 5)):
            nps = np.random.default_rng(rng.randrange(2**31))
            c1, c2 = CLASSES[j % len(CLASSES)], CLASSES[(3 * j + 1) % len(CLASSES)]
            k1, k2 = params(c1, nps), params(c2, nps)
            p1, p2, a1, a2, t, sp = (nps.uniform(-1.5, 1.5, 3) for _ in range(6))
            ang, ax = nps.uniform(20, 160, 3), nps.normal(size=3)
            Q1, Q2 = R_.random(rng=nps), R_.random(rng=nps)
            px = nps.uniform(-0.2, 0.2, (2, 3))
            sp = sp / np.linalg.norm(sp) * nps.uniform(7, 10)

            def build(s_):
                o1, o2 = ctor(c1)(**scaled(c1, k1, s_, 1.0)), ctor(c2)(**scaled(c2, k2, s_, 1.0))
                o1.position = p1 * s_
                o1.rotate_from_angax(ang, ax, anchor=a1 * s_)         # a path of three poses about an anchor
                o2.move(np.array([p2, p2 + t, p2 - t]) * s_, start=0)
                grp = magpy.Collection(o1, o2)
                grp.rotate(Q1)                                       # children turn about the collection's position
                grp.move(t * s_)
                se = magpy.Sensor(position=sp * s_, pixel=px * s_)
                se.rotate(Q2, anchor=a2 * s_)
                return magpy.getB([o1, o2], se, squeeze=False), magpy.getH([o1, o2], se, squeeze=False)

            rB, rH = build(1.0)
            degs = np.array([{"Dipole": 3, "Circle": 1, "Polyline": 1}.get(c_, 0) for c_ in (c1, c2)], dtype=float)
            # powers of two: scaling commutes exactly with every IEEE operation, so ill-conditioned closed forms (CylinderSegment: 2e-9 at a
            # DECIMAL factor of 1e6 in a thorough run, from the rounding of the factor itself) cannot blur the comparison
            for k in rng.sample([-33, -30, -20, -10, 10, 20, 30], 2):
                s_ = 2.0**k
                B, H = build(s_)
                done += 1
                f_ = (s_ ** degs)[:, None, None, None, None]
                err = max(float(np.max(np.abs(B * f_ - rB)) / np.max(np.abs(rB))), float(np.max(np.abs(H * f_ - rH)) / np.max(np.abs(rH))))
                worst["posed"] = max(worst.get("posed", 0.0), err if np.isfinite(err) else 1e300)
                if not err < 1e-10:
                    fails.append({"key": f"unit-scale:posed:2^{k}", "desc": f"an arrangement of {c1} + {c2} placed by position / move / rotate-about-anchor / collection rotation and read by a turned sensor "
                                  f"changes with the length unit (scale 2^{k}, rel. err {err:.2g})", "replay": {"classes": [c1, c2], "scale": s_, "rel_err": err}})
    # proportionality to the excitation through the attribute views: after ANY assignment to magnetization / polarization — also one
    # that ended in an exception because the user turned warnings into errors (|M| < 2000 A/m triggers a deprecation warning) — the
    # fields are those of the excitation the object reports, i.e. those of a fresh body with that polarization
    from oracles.sources import MAGNETS, make
    with warnings.catch_warnings():
        for cls in MAGNETS:
            nps = np.random.default_rng(rng.randrange(2**31))
            s0 = make(cls, nps)
            ip = interior_points(cls, s0, nps, 1)
            far = np.array([[3.0, 2.0, 4.0]]) * local_size(s0)
            pts = far if ip is None else np.concatenate([far, np.asarray(ip)[:1]])
            for attr, val in (("magnetization", nps.uniform(-1, 1, 3) * 500.0), ("polarization", nps.uniform(-1, 1, 3) * 1e-4),
                              ("magnetization", nps.uniform(-1, 1, 3) * 1e5)):
                warnings.simplefilter(rng.choice(["error", "ignore"]))
                try:
                    setattr(s0, attr, val)
                    how = "assigned"
                except Exception as e:  # noqa: BLE001
                    how = f"assignment raised {type(e).__name__}"
                warnings.simplefilter("ignore")
                P, Mg = s0.polarization, s0.magnetization
                done += 1
                if P is None or Mg is None:
                    continue
                twin = s0.copy(polarization=np.array(P, dtype=float))
                ok = np.allclose(np.asarray(P), magpy.mu_0 * np.asarray(Mg), rtol=1e-8, atol=0)
                scale_ = float(np.max(np.abs(twin.getB(pts)))) + 1e-300
                ok = ok and np.allclose(s0.getB(pts), twin.getB(pts), rtol=1e-12, atol=1e-12 * scale_) and np.allclose(s0.getH(pts), twin.getH(pts), rtol=1e-12, atol=1e-12 * scale_ / magpy.mu_0)
                if not ok:
                    fails.append({"key": f"excitation-scaling:{cls}:{attr}", "desc": f"{cls}: after `{attr} = {np.round(val, 6).tolist()}` ({how}) B / H are not those of the excitation the object reports "
                                  f"(polarization {np.asarray(P).tolist()}, magnetization {np.asarray(Mg).tolist()})", "replay": {"class": cls, "attribute": attr, "value": np.asarray(val).tolist(), "how": how}})
                    break
    return fails, {"c12_cases": done, "c12_worst_rel_err": {k: float(f"{v:.3g}") for k, v in worst.items()}}
