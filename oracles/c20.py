"""C20 failing-input search on the real style machinery: every (sampled) leaf of every style family x
source of the value (show kwarg, object, family default, base default) x notation; precedence with all
sources set at once; independence of objects and copies; rejection of invalid names/values; reset()."""
import copy
import warnings

import numpy as np


def reps():
    import magpylib as magpy
    return {
        "magnet": lambda **k: magpy.magnet.Cuboid(dimension=(1, 1, 1), polarization=(0, 0, 1), **k),
        "current": lambda **k: magpy.current.Circle(diameter=1, current=1, **k),
        "sensor": lambda **k: magpy.Sensor(**k),
        "dipole": lambda **k: magpy.misc.Dipole(moment=(0, 0, 1), **k),
        "triangle": lambda **k: magpy.misc.Triangle(vertices=[(0, 0, 0), (1, 0, 0), (0, 1, 0)], polarization=(0, 0, 1), **k),
        "triangularmesh": lambda **k: magpy.magnet.TriangularMesh.from_ConvexHull(points=[(0, 0, 0), (1, 0, 0), (0, 1, 0), (0, 0, 1)], polarization=(0, 0, 1), **k),
    }


def other_value(key, cur, k):
    """a valid value for the leaf different from `cur` (k selects among several)"""
    if key.endswith("color"):
        return ["red", "blue", "green", "black"][k % 4] if cur != ["red", "blue", "green", "black"][k % 4] else "yellow"
    if isinstance(cur, bool):
        return not cur if k % 2 == 0 else cur
    if isinstance(cur, (int, float)) and not isinstance(cur, bool):
        if "opacity" in key:
            return [0.25, 0.5, 0.75, 0.1][k % 4]
        return cur + 1 + k
    return None


def get_families_of(obj):
    from magpylib._src.style import get_families
    return get_families(obj)


def nested(key, v):
    parts = key.split("_")
    d = v
    for p in reversed(parts):
        d = {p: d}
    return d


def set_attr_chain(root, key, v):
    parts = key.split("_")
    o = root
    for p in parts[:-1]:
        o = getattr(o, p)
    setattr(o, parts[-1], v)


def get_leaf(style, key):
    return style.as_dict(flatten=True, separator="_")[key]


def valid_pair(mk, key, v):
    try:
        mk().style.update(**{key: v})
        return True
    except Exception:  # noqa: BLE001
        return False


def sweep(ctx, n_leaves):
    import magpylib as magpy
    from magpylib._src.style import get_style

    rng, fails, done, stats = ctx.rng, [], 0, {}

    def bad(key, desc, rep):
        fails.append({"key": key, "desc": desc, "replay": rep})

    pristine = copy.deepcopy(magpy.defaults.as_dict())
    with warnings.catch_warnings():
        warnings.simplefilter("ignore")
        try:
            for fam, mk in reps().items():
                obj = mk()
                dflat = get_style(obj, magpy.defaults).as_dict(flatten=True, separator="_")
                keys = [k for k, v in dflat.items() if other_value(k, v, 0) is not None]
                rng.shuffle(keys)
                for key in keys[:n_leaves]:
                    cur = dflat[key]
                    v_kw, v_obj, v_fam = other_value(key, cur, 0), other_value(key, cur, 1), other_value(key, cur, 2)
                    if "opacity" in key or "offset" in key:
                        v_kw, v_obj, v_fam = 0.25, 0.5, 0.75

                    def valid(v):
                        try:
                            mk().style.update(**{key: v})
                            return True
                        except Exception:
                            return False

                    if not all(valid(v) for v in (v_kw, v_obj, v_fam)) or len({repr(v_kw), repr(v_obj), repr(v_fam)}) < 3:
                        continue
                    done += 1
                    stats[fam] = stats.get(fam, 0) + 1
                    fresh = get_leaf(mk().style, key)
                    if fresh is not None:
                        bad(f"style:{fam}:{key}:object-default-shadows-family", f"a fresh object's own style leaf is {fresh!r} instead of None, so family/base defaults never apply",
                            {"family": fam, "leaf": key, "fresh_object_value": fresh})
                        continue
                    # (a) show kwarg
                    o = mk()
                    if get_leaf(get_style(o, magpy.defaults, **{"style_" + key: v_kw}), key) != v_kw:
                        bad(f"style:{fam}:{key}:kwarg", "show() keyword style value not effective", {"family": fam, "leaf": key})
                    # (b) object, three notations
                    o1, o2, o3 = mk(), mk(), mk()
                    o1.style.update(**{key: v_obj})
                    o2.style.update(nested(key, v_obj))
                    set_attr_chain(o3.style, key, v_obj)
                    d1, d2, d3 = (x.style.as_dict() for x in (o1, o2, o3))
                    if not (d1 == d2 == d3):
                        bad(f"style:{fam}:{key}:notations", "underscore / nested dict / attribute notations differ", {"family": fam, "leaf": key})
                    if get_leaf(get_style(o1, magpy.defaults), key) != v_obj:
                        bad(f"style:{fam}:{key}:object", "object style value not effective", {"family": fam, "leaf": key})
                    # mixed notations in ONE call: a nested dictionary for a sibling leaf (same branch) plus the underscore keyword
                    parts = key.split("_")
                    sib = next((k2 for k2 in keys if k2 != key and k2.split("_")[:-1] == parts[:-1] and other_value(k2, dflat[k2], 1) is not None
                                and valid_pair(mk, k2, other_value(k2, dflat[k2], 1))), None) if len(parts) >= 2 else None
                    if sib is not None:
                        v_sib = other_value(sib, dflat[sib], 1)
                        given = nested(sib, v_sib)
                        keep = copy.deepcopy(given)
                        for how in ("update", "copy"):  # (get_style's own `style=` argument is internal: show() hands it a fresh dict)
                            o5 = mk()
                            try:
                                if how == "update":
                                    o5.style.update(given, **{key: v_obj})
                                    st5 = o5.style
                                elif how == "copy":
                                    st5 = o5.copy(style=given, **{"style_" + key: v_obj}).style
                                else:
                                    st5 = get_style(o5, magpy.defaults, style=given, **{"style_" + key: v_obj})
                            except Exception as e:  # noqa: BLE001
                                bad(f"style:{fam}:mixed-notation:{how}", f"dictionary for {sib} plus keyword for {key} raised {type(e).__name__}", {"family": fam, "leaf": key, "sibling": sib})
                                continue
                            stats["mixed-notation"] = stats.get("mixed-notation", 0) + 1
                            if get_leaf(st5, key) != v_obj or get_leaf(st5, sib) != v_sib:
                                bad(f"style:{fam}:mixed-notation:{how}", f"dictionary for {sib} plus underscore keyword for {key} in one call: got {get_leaf(st5, sib)!r} / {get_leaf(st5, key)!r}",
                                    {"family": fam, "leaf": key, "sibling": sib, "expected": [repr(v_sib), repr(v_obj)]})
                            if given != keep:
                                bad(f"style:{fam}:caller-dict-modified:{how}", "the style dictionary passed by the caller was modified", {"family": fam, "leaf": key, "sibling": sib, "dict_after": repr(given)})
                                given = copy.deepcopy(keep)
                        # an object that got its style AT CONSTRUCTION (underscore keyword, or nested dictionary) and whose .style was never
                        # read, copied with a nested dictionary for the sibling leaf (same top-level key): the copy carries both leaves,
                        # the first copy and the second are equal, the original keeps its own
                        for ctor_how in ("keyword", "dict"):
                            try:
                                o7 = mk(**{"style_" + key: v_obj}) if ctor_how == "keyword" else mk(style=nested(key, v_obj))
                                c1 = o7.copy(style=copy.deepcopy(given)) if rng.random() < 0.5 else o7.copy(**{"style_" + sib.split("_")[0]: copy.deepcopy(given)[sib.split("_")[0]]})
                                c2 = o7.copy(style=copy.deepcopy(given))
                            except Exception as e:  # noqa: BLE001
                                bad(f"style:{fam}:copy-of-constructed:{ctor_how}", f"copy(style=<dict for {sib}>) of an object constructed with a style for {key} raised {type(e).__name__}", {"family": fam, "leaf": key, "sibling": sib})
                                continue
                            stats["copy-of-constructed"] = stats.get("copy-of-constructed", 0) + 1
                            got = [(get_leaf(x.style, key), get_leaf(x.style, sib)) for x in (c1, c2)]
                            if got[0] != (v_obj, v_sib) or got[1] != (v_obj, v_sib) or get_leaf(o7.style, key) != v_obj or get_leaf(o7.style, sib) != get_leaf(mk().style, sib):
                                bad(f"style:{fam}:copy-of-constructed:{ctor_how}", f"an object constructed with style {key} = {v_obj!r} ({ctor_how}), never read, copied with a dictionary for {sib} = {v_sib!r}: "
                                    f"first copy has {got[0]!r}, second copy {got[1]!r}, original {(get_leaf(o7.style, key), get_leaf(o7.style, sib))!r}", {"family": fam, "leaf": key, "sibling": sib})
                        # the same leaf in both notations: the keyword (given last) wins
                        o6 = mk()
                        o6.style.update(nested(key, v_kw), **{key: v_obj})
                        if get_leaf(o6.style, key) != v_obj:
                            bad(f"style:{fam}:mixed-notation:conflict", f"the same leaf as dictionary ({v_kw!r}) and as keyword ({v_obj!r}) in one call: keyword does not win", {"family": fam, "leaf": key})
                    # last assignment wins
                    o1.style.update(**{key: v_kw})
                    if get_leaf(o1.style, key) != v_kw:
                        bad(f"style:{fam}:{key}:last-wins", "last assignment does not win", {"family": fam, "leaf": key})
                    # independence
                    if get_leaf(o2.style, key) != v_obj or get_leaf(mk().style, key) is not None:  # fresh objects have unset leaves (checked above)
                        bad(f"style:{fam}:{key}:leak", "style change leaked to another object", {"family": fam, "leaf": key})
                    c = o2.copy()
                    set_attr_chain(c.style, key, v_kw)
                    if get_leaf(o2.style, key) != v_obj:
                        bad(f"style:{fam}:{key}:copy-leak", "style change of a copy leaked to the original", {"family": fam, "leaf": key})
                    # (c) family default and precedence kw > obj > family
                    famstyle = getattr(magpy.defaults.display.style, fam)
                    fam_keys = famstyle.as_dict(flatten=True, separator="_")
                    if key in fam_keys:
                        set_attr_chain(famstyle, key, v_fam)
                        o4 = mk()
                        if get_leaf(get_style(o4, magpy.defaults), key) != v_fam:
                            bad(f"style:{fam}:{key}:family-default", "family default not effective", {"family": fam, "leaf": key})
                        o4.style.update(**{key: v_obj})
                        if get_leaf(get_style(o4, magpy.defaults), key) != v_obj:
                            bad(f"style:{fam}:{key}:obj-over-family", "object style does not override the family default", {"family": fam, "leaf": key})
                        if get_leaf(get_style(o4, magpy.defaults, **{"style_" + key: v_kw}), key) != v_kw:
                            bad(f"style:{fam}:{key}:kw-over-obj", "show() keyword does not override the object style", {"family": fam, "leaf": key})
                    # (d) base default
                    base_keys = magpy.defaults.display.style.base.as_dict(flatten=True, separator="_")
                    if key in base_keys and fam_keys.get(key) is None and key not in fam_keys:
                        set_attr_chain(magpy.defaults.display.style.base, key, v_fam)
                        if get_leaf(get_style(mk(), magpy.defaults), key) != v_fam:
                            bad(f"style:{fam}:{key}:base-default", "base default not effective", {"family": fam, "leaf": key})
                    magpy.defaults.reset()
                    if magpy.defaults.as_dict() != pristine:
                        bad(f"style:{fam}:{key}:reset", "defaults.reset() did not restore every default", {"family": fam, "leaf": key})
                        magpy.defaults.update(pristine)
                # falsy but valid values (False, 0) as family defaults, incl. the more specific of two families
                for key in keys[: max(4, n_leaves // 2)]:
                    cur = dflat[key]
                    falsy = False if isinstance(cur, bool) else (0 if isinstance(cur, (int, float)) and not isinstance(cur, bool) else None)
                    if falsy is None:
                        continue
                    truthy = True if isinstance(cur, bool) else (cur if cur else 1)
                    famstyle = getattr(magpy.defaults.display.style, fam)
                    if key not in famstyle.as_dict(flatten=True, separator="_"):
                        continue
                    try:
                        mk().style.update(**{key: falsy})
                    except Exception:
                        continue
                    if get_leaf(mk().style, key) is not None:
                        continue  # reported as object-default-shadows-family
                    done += 1
                    try:
                        # every less specific layer says `truthy`, the object's most specific family says `falsy`
                        for other in get_families_of(mk()):
                            st = getattr(magpy.defaults.display.style, other, None)
                            if st is not None and other != fam and key in st.as_dict(flatten=True, separator="_"):
                                set_attr_chain(st, key, truthy)
                        if key in magpy.defaults.display.style.base.as_dict(flatten=True, separator="_"):
                            set_attr_chain(magpy.defaults.display.style.base, key, truthy)
                        set_attr_chain(famstyle, key, falsy)
                        got = get_leaf(get_style(mk(), magpy.defaults), key)
                        if got != falsy or isinstance(got, bool) != isinstance(falsy, bool):
                            bad(f"style:{fam}:{key}:falsy-family-default", f"family default {falsy!r} is ignored (effective value {got!r})", {"family": fam, "leaf": key, "value": falsy})
                    finally:
                        magpy.defaults.reset()
                # invalid names / values are rejected
                o = mk()
                for what, f in (("name", lambda: o.style.update(nonexistentproperty=1)), ("value", lambda: o.style.update(opacity=7)),
                                ("color", lambda: o.style.update(color="notacolor")), ("kw-name", lambda: get_style(o, magpy.defaults, style_bogus=1))):
                    before = o.style.as_dict()
                    try:
                        f()
                        bad(f"style:{fam}:invalid-{what}-accepted", f"invalid style {what} accepted", {"family": fam})
                    except (AttributeError, ValueError, TypeError, AssertionError):
                        if o.style.as_dict() != before:
                            bad(f"style:{fam}:invalid-{what}-changed", f"rejected style {what} changed the style", {"family": fam})
        finally:
            magpy.defaults.reset()
    # names are checked at EVERY level, whichever way the value is given: a misspelt leaf below a valid first level is refused in a show()
    # keyword (get_style), in set_children_styles and in style.update alike — never silently dropped; and the documented alias
    # `magnetization_size` takes effect through all of them
    with warnings.catch_warnings():
        warnings.simplefilter("ignore")
        try:
            cub_ = magpy.magnet.Cuboid(dimension=(1, 1, 1), polarization=(0, 0, 1))
            coll_ = magpy.Collection(cub_.copy(), cub_.copy())
            ways = {"show-keyword": lambda kw: get_style(cub_, magpy.defaults, **{"style_" + k_: v_ for k_, v_ in kw.items()}),
                    "set_children_styles": lambda kw: coll_.set_children_styles(**kw),
                    "style.update": lambda kw: cub_.copy().style.update(**kw)}
            for bad_kw in ({"path_line_widht": 3}, {"magnetization_shwo": False}, {"path_marker_sybmol": "o"}, {"magnetization_arrow_widht": 2}):
                for wname, wf in ways.items():
                    stats["misspelt-nested"] = stats.get("misspelt-nested", 0) + 1
                    try:
                        wf(bad_kw)
                        bad(f"style:misspelt-nested-name-accepted:{wname}", f"{wname} with the misspelt name {list(bad_kw)[0]!r} (valid first level) did not raise", {"way": wname, "keyword": list(bad_kw)[0]})
                    except Exception:  # noqa: BLE001
                        pass
            st_ = get_style(cub_, magpy.defaults, style_magnetization_size=3)
            coll_.set_children_styles(magnetization_size=0.5)
            got_ = (st_.magnetization.arrow.size if hasattr(st_.magnetization, "arrow") else None, coll_.children[0].style.magnetization.arrow.size)
            stats["alias-through-show"] = stats.get("alias-through-show", 0) + 1
            if got_ != (3, 0.5):
                bad("style:alias-magnetization-size-dropped", f"the alias magnetization_size given as show() keyword / through set_children_styles has no effect: resolved arrow sizes {got_}, expected (3, 0.5)", {"got": list(got_)})
        finally:
            magpy.defaults.reset()
    # the effective style does not depend on where or how often an object is drawn: a collection of magnets shown in several
    # subplots of one figure looks the same in each of them as in a single plot (arrow mode from a show() keyword, from the
    # object's style or from the family default)
    try:
        import warnings as _w
        for trial in range(3):
            cube = magpy.magnet.Cuboid(polarization=(0, 0, 1), dimension=(1, 1, 1))
            cyl = magpy.magnet.Cylinder(polarization=(0, 1, 0), dimension=(1, 1), position=(3, 0, 0))
            target = magpy.Collection(cube, cyl) if trial != 1 else magpy.Collection(magpy.Collection(cube), cyl)
            kw = {}
            if trial == 0:
                kw = {"style_magnetization_mode": "arrow"}
            elif trial == 1:
                cube.style.magnetization.mode = "arrow"
                cyl.style.magnetization.mode = "arrow"
            else:
                magpy.defaults.display.style.magnet.magnetization.mode = "arrow"
            before = [o.style.as_dict() for o in (cube, cyl)]
            with _w.catch_warnings():
                _w.simplefilter("ignore")
                f1 = magpy.show(target, backend="plotly", return_fig=True, **kw)
                f2 = magpy.show({"objects": target, "col": 1}, {"objects": target, "col": 2}, {"objects": target, "col": 3}, backend="plotly", return_fig=True, **kw)
            sig = lambda traces: sorted((type(t).__name__, len(t.x) if getattr(t, "x", None) is not None else 0) for t in traces)
            ref = sig(f1.data)
            done += 1
            for sc in ("scene", "scene2", "scene3"):
                sub = sig([t for t in f2.data if (getattr(t, "scene", None) or "scene") == sc])
                if sub != ref:
                    bad(f"style:subplots:{['show-kwarg', 'object-style', 'family-default'][trial]}", f"a collection drawn in subplot {sc} differs from the single plot of the same objects ({len(sub)} vs {len(ref)} traces)",
                        {"source_of_arrow_mode": ["show keyword", "object style", "family default"][trial], "subplot": sc})
                    break
            if [o.style.as_dict() for o in (cube, cyl)] != before:
                bad("style:subplots:object-style-modified", "show() with subplots modified the style of a displayed object", {})
            magpy.defaults.reset()
    finally:
        magpy.defaults.reset()
    # a show() call that FAILS while the traces are built (a user model3d trace the backend refuses, an object inside a
    # collection, keywords given in the call) must not leave the resolved style behind on the object either
    try:
        import warnings as _w
        for trial in range(4):
            o = [magpy.magnet.Cuboid(polarization=(0, 0, 1), dimension=(1, 1, 1)), magpy.Sensor(), magpy.current.Circle(current=1, diameter=1),
                 magpy.magnet.Sphere(polarization=(0, 0, 1), diameter=1)][trial]
            if trial % 2:
                o.style.color = "blue"  # style already materialised, one own value
            o.style.model3d.add_trace(backend="generic", constructor="surface", kwargs={"x": [[0, 1]], "y": [[0, 1]], "z": [[0, 1]]})
            target = o if trial < 2 else magpy.Collection(o)
            before, before_id = o.style.as_dict(), id(o.style)
            raised = None
            with _w.catch_warnings():
                _w.simplefilter("ignore")
                try:
                    magpy.show(target, backend="plotly", return_fig=True, style_color="red", style_opacity=0.5, style_path_line_width=7)
                except Exception as e:  # noqa: BLE001
                    raised = type(e).__name__
            done += 1
            if raised is not None and (o.style.as_dict() != before or id(o.style) != before_id):
                after = o.style.as_dict()
                diff = {k: (before.get(k), after.get(k)) for k in after if before.get(k) != after.get(k)}
                bad("style:leak-after-failed-show", f"show() raised {raised} while drawing and left show-call / default values in the object's own style ({len(diff)} leaves changed)",
                    {"class": type(o).__name__, "raised": raised, "changed_leaves": dict(list(diff.items())[:6]), "style_object_replaced": id(o.style) != before_id})
                break
    finally:
        magpy.defaults.reset()
    return fails, {"c20_leaf_cases": done, "c20_per_family": stats}
