"""C19 failing-input search: figures from show(..., backend='plotly', return_fig=True) — every drawn vertex of a
magnet mapped back through (unit factor, pose of some displayed path index) must lie on the body's surface and
the drawn vertices must span its full extent; current lines pass through the conductor's points; the path line
passes through the path positions; nothing (objects, styles, defaults) is modified by displaying."""
import copy
import warnings

import numpy as np
from scipy.spatial.transform import Rotation as R

from oracles.c08 import snap_obj


def xyz(t):
    if getattr(t, "x", None) is None:
        return np.zeros((0, 3))
    a = np.stack([np.asarray(t.x, float), np.asarray(t.y, float), np.asarray(t.z, float)], axis=1)
    return a[np.isfinite(a).all(axis=1)]


def surf_dist(cls, kw, p):
    """distance-like residual of local points to the body's surface, normalised by its size"""
    if cls == "Cuboid":
        a = np.asarray(kw["dimension"]) / 2
        q = np.abs(p) / a
        return np.abs(q.max(axis=1) - 1)
    if cls == "Cylinder":
        r0, h = kw["dimension"][0] / 2, kw["dimension"][1] / 2
        r, z = np.hypot(p[:, 0], p[:, 1]) / r0, np.abs(p[:, 2]) / h
        on_hull = np.abs(r - 1) + np.maximum(z - 1, 0)
        on_base = np.abs(z - 1) + np.maximum(r - 1, 0)
        return np.minimum(on_hull, on_base)
    if cls == "Sphere":
        return np.abs(np.linalg.norm(p, axis=1) / (kw["diameter"] / 2) - 1)
    raise ValueError(cls)


def sweep(ctx, n):
    import magpylib as magpy

    rng, fails, done, kinds = ctx.rng, [], 0, {}

    def bad(key, desc, rep=None):
        fails.append({"key": key, "desc": desc, "replay": rep or {}})

    with warnings.catch_warnings():
        warnings.simplefilter("ignore")
        for i in range(n):
            nps = np.random.default_rng(rng.randrange(2**31))
            cls = ["Cuboid", "Cylinder", "Sphere", "Circle", "Polyline"][i % 5]
            m = rng.choice([1, 2, 3])
            pos = nps.uniform(-3, 3, (m, 3))
            ori = R.random(m, rng=nps)
            if cls == "Cuboid" and m > 1 and rng.random() < 0.5:
                pos[1:] = pos[0]  # rotating in place: same position, different orientation at every path index
                kinds["rotating-in-place"] = kinds.get("rotating-in-place", 0) + 1
            if cls in ("Cuboid", "Cylinder", "Polyline") and m > 1 and rng.random() < 0.4:
                # a wiper path: orientations +a, -a, +a ... about one coordinate axis (their quaternions differ only in signs)
                a_, ax_ = nps.uniform(0.3, 1.2), np.eye(3)[rng.randrange(3)]
                ori = R.from_rotvec([ax_ * a_ * (-1) ** j for j in range(m)])
                kinds["mirrored-orientations"] = kinds.get("mirrored-orientations", 0) + 1
            if cls == "Cuboid":
                kw = dict(dimension=nps.uniform(0.5, 2, 3), polarization=(0, 0, 1))
                obj = magpy.magnet.Cuboid(**kw)
            elif cls == "Cylinder":
                kw = dict(dimension=nps.uniform(0.5, 2, 2), polarization=(0, 0, 1))
                obj = magpy.magnet.Cylinder(**kw)
            elif cls == "Sphere":
                kw = dict(diameter=nps.uniform(0.5, 2), polarization=(0, 0, 1))
                obj = magpy.magnet.Sphere(**kw)
            elif cls == "Circle":
                kw = dict(diameter=nps.uniform(0.5, 2), current=1.0)
                obj = magpy.current.Circle(**kw)
            else:
                kw = dict(vertices=nps.uniform(-1, 1, (4, 3)), current=1.0)
                obj = magpy.current.Polyline(**kw)
            obj.position, obj.orientation = pos, ori
            # every SI prefix the documentation lists for lengths (the table is written out here, not read from the library):
            # the drawn coordinates are the lengths in metres divided by the announced unit — 'Mm' is mega, 'mm' is milli
            SI = {"ym": -24, "zm": -21, "am": -18, "fm": -15, "pm": -12, "nm": -9, "µm": -6, "mm": -3, "cm": -2, "dm": -1, "m": 0, "km": 3, "Mm": 6,
                  "Gm": 9, "Tm": 12, "Pm": 15, "Em": 18, "Zm": 21, "Ym": 24}
            unit = rng.choice(["m", "mm", "km", "cm"]) if rng.random() < 0.4 else sorted(SI)[(i + rng.randrange(2)) % len(SI)]
            f = 10.0 ** (-SI[unit])
            kinds["unit:" + unit] = kinds.get("unit:" + unit, 0) + 1
            inner = rng.random() < 0.4
            top = magpy.Collection(obj, position=(0, 0, 0)) if inner else obj
            before = snap_obj(obj)
            defaults_before = copy.deepcopy(magpy.defaults.as_dict())
            fig = magpy.show(top, backend="plotly", return_fig=True, style_path_frames=1, units_length=unit)
            done += 1
            kinds[cls] = kinds.get(cls, 0) + 1
            if snap_obj(obj) != before or magpy.defaults.as_dict() != defaults_before:
                bad(f"show-mutates:{cls}", "show() modified the object, its style or the global defaults")
            title = fig.layout.scene.xaxis.title.text or ""
            if f"({unit})" not in title:
                bad(f"axis-unit:{unit}", f"axis title {title!r} does not announce the length unit {unit}")
            meshes = [xyz(t) for t in fig.data if type(t).__name__ == "Mesh3d"]
            lines = [xyz(t) for t in fig.data if type(t).__name__ == "Scatter3d"]
            allpts = np.concatenate(lines) if lines else np.zeros((0, 3))
            # the path line passes through the path positions
            if m > 1:
                for p in pos:
                    if allpts.size == 0 or np.min(np.linalg.norm(allpts / f - p, axis=1)) > 1e-6:
                        bad(f"path-trace:{cls}", "path line does not pass through an object position", {"position": p.tolist(), "unit": unit})
                        break
            if cls in ("Cuboid", "Cylinder", "Sphere"):
                if not meshes:
                    bad(f"no-mesh:{cls}", "no Mesh3d trace for a magnet")
                    continue
                V = np.concatenate(meshes) / f
                best = np.full(len(V), np.inf)
                which = np.zeros(len(V), int)
                for j in range(m):
                    loc = ori[j].inv().apply(V - pos[j])
                    d = surf_dist(cls, kw, loc)
                    which[d < best] = j
                    best = np.minimum(best, d)
                if np.max(best) > 1e-6:
                    bad(f"vertex-off-surface:{cls}", f"a drawn vertex is not on the surface of the object at any displayed pose (residual {np.max(best):.2g})",
                        {"class": cls, "kw": {k: np.asarray(v).tolist() for k, v in kw.items()}, "unit": unit, "positions": pos.tolist()})
                    continue
                for j in range(m):
                    loc = ori[j].inv().apply(V[which == j] - pos[j])
                    if len(loc) == 0:
                        # a pose identical to an earlier one (rotating in place on a wiper path: +a, -a, +a) draws the same vertices again;
                        # they were all attributed to the earlier index above (strict `<`), which is not a missing frame
                        if any(np.allclose(pos[j], pos[q], atol=1e-12) and np.allclose(ori[j].as_matrix(), ori[q].as_matrix(), atol=1e-12) for q in range(j)):
                            continue
                        bad(f"frame-missing:{cls}", f"no drawn vertices for path index {j}")
                        break
                    ext = np.asarray(kw["dimension"]) / 2 if cls == "Cuboid" else (np.array([kw["dimension"][0] / 2] * 2 + [kw["dimension"][1] / 2]) if cls == "Cylinder" else np.full(3, kw["diameter"] / 2))
                    lo, hi = loc.min(axis=0) / ext, loc.max(axis=0) / ext
                    tol = 0.02 if cls == "Cuboid" else 0.12
                    if np.any(hi < 1 - tol) or np.any(lo > -1 + tol):
                        bad(f"extent:{cls}", "drawn vertices do not span the body's full extent", {"lo": lo.tolist(), "hi": hi.tolist()})
                        break
            elif cls == "Circle":
                P = allpts / f
                ok = False
                for j in range(m):
                    loc = ori[j].inv().apply(P - pos[j])
                    on = (np.abs(np.hypot(loc[:, 0], loc[:, 1]) - kw["diameter"] / 2) < 1e-6) & (np.abs(loc[:, 2]) < 1e-6)
                    if on.sum() < 8:
                        bad("circle-trace", f"fewer than 8 drawn points lie on the loop at path index {j}")
                        break
            else:
                P = allpts / f
                for j in range(m):
                    glob = ori[j].apply(kw["vertices"]) + pos[j]
                    if any(np.min(np.linalg.norm(P - g, axis=1)) > 1e-6 for g in glob):
                        bad("polyline-trace", f"a conductor vertex is not on the drawn line at path index {j}")
                        break
        # displaying never alters objects: every class (both vertex orders of Tetrahedron, meshes, segments, sensors),
        # alone or inside a collection, plotly and matplotlib; for Tetrahedron the drawn corners are the object's corners
        from oracles.sources import CLASSES, make
        from oracles.c08 import all_objs
        import matplotlib
        matplotlib.use("Agg")
        for k in range(max(2 * (len(CLASSES) + 2), n // 2)):
            nps = np.random.default_rng(rng.randrange(2**31))
            cls = (CLASSES + ["Tetrahedron", "Sensor"])[k % (len(CLASSES) + 2)]
            rescaled = False
            if cls == "Sensor":
                o = magpy.Sensor(pixel=nps.uniform(-1, 1, (2, 2, 3)), position=nps.uniform(-1, 1, (2, 3)), handedness=rng.choice(["left", "right"]))
            elif (k // (len(CLASSES) + 2)) % 2:  # every class once as it is and once resting at the origin in other units
                rescaled = True
                # an object in small / large numbers resting exactly at the origin with the unit orientation (the pose at which
                # placing is a no-op): the scene is drawn in mm, um, km, ... and the object must come out of it unchanged
                o = make(cls, nps, scale=rng.choice([1e-2, 1e-3, 1e-6, 1e3]))
                o.position, o.orientation = (0, 0, 0), None
                kinds["no-alter:origin-rescaled"] = kinds.get("no-alter:origin-rescaled", 0) + 1
            else:
                o = make(cls, nps, path=rng.choice([1, 2]))
            if cls == "Tetrahedron":
                v = np.array(o.vertices)
                kinds["tetra-count"] = kinds.get("tetra-count", 0) + 1
                if (np.linalg.det(v[1:] - v[0]) < 0) != bool(kinds["tetra-count"] % 2):  # alternate left- and right-handed vertex orders
                    o.vertices = v[[0, 1, 3, 2]]
            top = magpy.Collection(o, magpy.Sensor(position=(3, 3, 3))) if rng.random() < 0.4 else o
            objs = all_objs([top])
            before = [snap_obj(x) for x in objs]
            backend = "plotly" if k % 3 else "matplotlib"
            fig = magpy.show(top, backend=backend, return_fig=True, style_path_frames=1)
            if backend == "matplotlib":
                import matplotlib.pyplot as plt
                plt.close("all")
            done += 1
            kinds["no-alter:" + cls] = kinds.get("no-alter:" + cls, 0) + 1
            if [snap_obj(x) for x in objs] != before:
                bad(f"show-mutates:{cls}", f"show(backend={backend!r}) modified the object (geometry, pose, excitation, children or style)",
                    {"class": cls, "backend": backend})
            if cls == "Tetrahedron" and backend == "plotly" and top is o and not rescaled:  # (drawn in metres)
                V = np.concatenate([xyz(t) for t in fig.data if type(t).__name__ == "Mesh3d"])
                want = np.concatenate([o._orientation[j].apply(np.array(o.vertices)) + o._position[j] for j in range(len(o._position))])
                if any(np.min(np.linalg.norm(V - w, axis=1)) > 1e-9 for w in want) or any(np.min(np.linalg.norm(want - q, axis=1)) > 1e-9 for q in V):
                    bad("vertex-off-surface:Tetrahedron", "the drawn corners of a Tetrahedron are not its corners at its pose")
        # a show() call that FAILS while the traces are built (a user model3d trace the backend refuses): the object — style included —
        # is as it was, and the next show() draws it where it is
        for trial in range(3):
            nps = np.random.default_rng(rng.randrange(2**31))
            o = [magpy.magnet.Cuboid(polarization=(0, 0, 1), dimension=(1, 1, 1)), magpy.current.Circle(current=1, diameter=1), magpy.Sensor()][trial]
            o.position = np.cumsum(nps.uniform(1, 2, (3, 3)), axis=0)
            o.style.model3d.add_trace(backend="generic", constructor="scatter3d", kwargs={"x": [0, 1], "y": [0, 1]})  # no z: refused at draw time
            top = o if trial != 1 else magpy.Collection(o)
            objs = all_objs([top])
            before, sid = [snap_obj(x) for x in objs], id(o.style)
            raised = None
            try:
                magpy.show(top, backend="plotly", return_fig=True, style_color="blue", style_path_frames=[0])
            except Exception as e:  # noqa: BLE001
                raised = type(e).__name__
            done += 1
            kinds["failed-show"] = kinds.get("failed-show", 0) + 1
            if raised is not None and ([snap_obj(x) for x in objs] != before or id(o.style) != sid):
                bad("show-mutates:failed-show", f"show() raised {raised} while drawing and left the object changed (style object replaced: {id(o.style) != sid})",
                    {"class": type(o).__name__, "raised": raised})
        # explicit frame lists, including indices beyond the path length (an object shorter than the index stays at its last pose)
        for trial in range(max(3, n // 6)):
            nps = np.random.default_rng(rng.randrange(2**31))
            m = rng.choice([3, 4, 5])
            pos = np.cumsum(nps.uniform(0.5, 2, (m, 3)), axis=0)
            obj = magpy.magnet.Cuboid(dimension=(0.3, 0.3, 0.3), polarization=(0, 0, 1), position=pos)
            frames = sorted(set([0, rng.randrange(m), m + rng.choice([0, 3, 6])]))
            fig = magpy.show(obj, backend="plotly", return_fig=True, style_path_frames=frames)
            done += 1
            kinds["frames-list"] = kinds.get("frames-list", 0) + 1
            V = np.concatenate([xyz(t) for t in fig.data if type(t).__name__ == "Mesh3d"])
            centres = sorted({tuple(np.round(c, 6)) for c in V.reshape(-1, 8, 3).mean(axis=1)}) if len(V) % 8 == 0 else None
            want = sorted({tuple(np.round(pos[min(f, m - 1)], 6)) for f in frames})
            if centres is None or centres != want:
                bad("frames-list", f"with style_path_frames={frames} on a path of length {m} the object is not drawn at the poses of indices {[min(f, m - 1) for f in frames]}",
                    {"frames": frames, "path_length": m, "drawn_centres": centres, "expected_centres": want})
    return fails, {"c19_figures": done, "c19_kinds": kinds}
