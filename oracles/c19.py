"""C19 failing-input search: figures from show(..., backend='plotly', return_fig=True) — every drawn vertex of a
magnet mapped back through (unit factor, pose of some displayed path index) must lie on the body's surface and
the drawn vertices must span its full extent; current lines pass through the conductor's points; the path line
passes through the path positions; nothing (objects, styles, defaults) is modified by displaying.
mapback_section: Tetrahedron / Triangle / TriangularMesh (vertex sets, outward winding), CylinderSegment (radii, height, azimuth
range, corners), Dipole (arrow along the moment through the position, pivot), Sensor (pixel markers, axes glyph) mapped back through
every displayed pose.  units_section: every length-unit prefix (case-sensitive: Mm / mm, Pm / pm ...) announced in the axis titles and
applied as 10^-power to the drawn coordinates."""
import copy
import warnings

import numpy as np
from scipy.spatial.transform import Rotation as R

from oracles.c08 import snap_obj


def xyz(t):
    if getattr(t, "x", None) is None:
        return np.zeros((0, 3))
    a = np.stack([np.asarray(t.x, float), np.asarray(t.y, float), np.asarray(t.z, float)], axis=1)
    return a[np.isfinite(a).all(axis=1)]


def surf_dist(cls, kw, p):
    """distance-like residual of local points to the body's surface, normalised by its size"""
    if cls == "Cuboid":
        a = np.asarray(kw["dimension"]) / 2
        q = np.abs(p) / a
        return np.abs(q.max(axis=1) - 1)
    if cls == "Cylinder":
        r0, h = kw["dimension"][0] / 2, kw["dimension"][1] / 2
        r, z = np.hypot(p[:, 0], p[:, 1]) / r0, np.abs(p[:, 2]) / h
        on_hull = np.abs(r - 1) + np.maximum(z - 1, 0)
        on_base = np.abs(z - 1) + np.maximum(r - 1, 0)
        return np.minimum(on_hull, on_base)
    if cls == "Sphere":
        return np.abs(np.linalg.norm(p, axis=1) / (kw["diameter"] / 2) - 1)
    raise ValueError(cls)


def mesh_parts(fig):
    """[(vertices (k,3) as drawn, faces (f,3), facecolor array or None)] of the Mesh3d traces of a plotly figure"""
    out = []
    for t in fig.data:
        if type(t).__name__ != "Mesh3d" or t.x is None:
            continue
        V = np.stack([np.asarray(t.x, float), np.asarray(t.y, float), np.asarray(t.z, float)], axis=1)
        F = np.stack([np.asarray(t.i, int), np.asarray(t.j, int), np.asarray(t.k, int)], axis=1) if t.i is not None else np.zeros((0, 3), int)
        fc = np.asarray(t.facecolor, dtype=object) if getattr(t, "facecolor", None) is not None else None
        out.append((V, F, fc))
    return out


def used_vertices(parts):
    """the vertices that some face refers to (vertices no face uses are not rendered), all Mesh3d traces together"""
    got = [V[np.unique(F)] for V, F, _ in parts if len(F)]
    return np.concatenate(got) if got else np.zeros((0, 3))


def far_from(A, B):
    """largest distance of a row of A to its nearest row of B (inf when B is empty, 0 when A is empty)"""
    if len(A) == 0:
        return 0.0
    if len(B) == 0:
        return float("inf")
    return float(np.max(np.min(np.linalg.norm(A[:, None, :] - B[None, :, :], axis=2), axis=1)))


def signed_volume(V, F):
    """sum over the faces of the signed volumes of the pyramids (reference point, face): the enclosed volume when the
    mesh is closed and every face is wound counter-clockwise seen from outside; the reference point (the vertex mean)
    only matters when the mesh is not closed"""
    P = V - V[np.unique(F)].mean(axis=0)
    return float(np.einsum("ij,ij->i", P[F[:, 0]], np.cross(P[F[:, 1]], P[F[:, 2]])).sum() / 6)


def face_components(F, nvert):
    """connected components (lists of vertex indices) of the vertices used by the faces F"""
    from scipy.sparse import coo_matrix
    from scipy.sparse.csgraph import connected_components

    a = np.concatenate([F[:, 0], F[:, 1], F[:, 2]])
    b = np.concatenate([F[:, 1], F[:, 2], F[:, 0]])
    _, lab = connected_components(coo_matrix((np.ones(len(a)), (a, b)), shape=(nvert, nvert)), directed=False)
    used = np.unique(F)
    return [used[lab[used] == c] for c in np.unique(lab[used])]


def sweep(ctx, n):
    import magpylib as magpy

    rng, fails, done, kinds = ctx.rng, [], 0, {}

    def bad(key, desc, rep=None):
        fails.append({"key": key, "desc": desc, "replay": rep or {}})

    with warnings.catch_warnings():
        warnings.simplefilter("ignore")
        for i in range(n):
            nps = np.random.default_rng(rng.randrange(2**31))
            cls = ["Cuboid", "Cylinder", "Sphere", "Circle", "Polyline"][i % 5]
            m = rng.choice([1, 2, 3])
            pos = nps.uniform(-3, 3, (m, 3))
            ori = R.random(m, rng=nps)
            if cls == "Cuboid" and m > 1 and rng.random() < 0.5:
                pos[1:] = pos[0]  # rotating in place: same position, different orientation at every path index
                kinds["rotating-in-place"] = kinds.get("rotating-in-place", 0) + 1
            if cls in ("Cuboid", "Cylinder", "Polyline") and m > 1 and rng.random() < 0.4:
                # a wiper path: orientations +a, -a, +a ... about one coordinate axis (their quaternions differ only in signs)
                a_, ax_ = nps.uniform(0.3, 1.2), np.eye(3)[rng.randrange(3)]
                ori = R.from_rotvec([ax_ * a_ * (-1) ** j for j in range(m)])
                kinds["mirrored-orientations"] = kinds.get("mirrored-orientations", 0) + 1
            if cls == "Cuboid":
                kw = dict(dimension=nps.uniform(0.5, 2, 3), polarization=(0, 0, 1))
                obj = magpy.magnet.Cuboid(**kw)
            elif cls == "Cylinder":
                kw = dict(dimension=nps.uniform(0.5, 2, 2), polarization=(0, 0, 1))
                obj = magpy.magnet.Cylinder(**kw)
            elif cls == "Sphere":
                kw = dict(diameter=nps.uniform(0.5, 2), polarization=(0, 0, 1))
                obj = magpy.magnet.Sphere(**kw)
            elif cls == "Circle":
                kw = dict(diameter=nps.uniform(0.5, 2), current=1.0)
                obj = magpy.current.Circle(**kw)
            else:
                kw = dict(vertices=nps.uniform(-1, 1, (4, 3)), current=1.0)
                obj = magpy.current.Polyline(**kw)
            obj.position, obj.orientation = pos, ori
            # every SI prefix the documentation lists for lengths (the table is written out here, not read from the library):
            # the drawn coordinates are the lengths in metres divided by the announced unit — 'Mm' is mega, 'mm' is milli
            SI = {"ym": -24, "zm": -21, "am": -18, "fm": -15, "pm": -12, "nm": -9, "µm": -6, "mm": -3, "cm": -2, "dm": -1, "m": 0, "km": 3, "Mm": 6,
                  "Gm": 9, "Tm": 12, "Pm": 15, "Em": 18, "Zm": 21, "Ym": 24}
            unit = rng.choice(["m", "mm", "km", "cm"]) if rng.random() < 0.4 else sorted(SI)[(i + rng.randrange(2)) % len(SI)]
            f = 10.0 ** (-SI[unit])
            kinds["unit:" + unit] = kinds.get("unit:" + unit, 0) + 1
            inner = rng.random() < 0.4
            top = magpy.Collection(obj, position=(0, 0, 0)) if inner else obj
            before = snap_obj(obj)
            defaults_before = copy.deepcopy(magpy.defaults.as_dict())
            fig = magpy.show(top, backend="plotly", return_fig=True, style_path_frames=1, units_length=unit)
            done += 1
            kinds[cls] = kinds.get(cls, 0) + 1
            if snap_obj(obj) != before or magpy.defaults.as_dict() != defaults_before:
                bad(f"show-mutates:{cls}", "show() modified the object, its style or the global defaults")
            title = fig.layout.scene.xaxis.title.text or ""
            if f"({unit})" not in title:
                bad(f"axis-unit:{unit}", f"axis title {title!r} does not announce the length unit {unit}")
            meshes = [xyz(t) for t in fig.data if type(t).__name__ == "Mesh3d"]
            lines = [xyz(t) for t in fig.data if type(t).__name__ == "Scatter3d"]
            allpts = np.concatenate(lines) if lines else np.zeros((0, 3))
            # the path line passes through the path positions
            if m > 1:
                for p in pos:
                    if allpts.size == 0 or np.min(np.linalg.norm(allpts / f - p, axis=1)) > 1e-6:
                        bad(f"path-trace:{cls}", "path line does not pass through an object position", {"position": p.tolist(), "unit": unit})
                        break
            if cls in ("Cuboid", "Cylinder", "Sphere"):
                if not meshes:
                    bad(f"no-mesh:{cls}", "no Mesh3d trace for a magnet")
                    continue
                V = np.concatenate(meshes) / f
                best = np.full(len(V), np.inf)
                which = np.zeros(len(V), int)
                for j in range(m):
                    loc = ori[j].inv().apply(V - pos[j])
                    d = surf_dist(cls, kw, loc)
                    which[d < best] = j
                    best = np.minimum(best, d)
                if np.max(best) > 1e-6:
                    bad(f"vertex-off-surface:{cls}", f"a drawn vertex is not on the surface of the object at any displayed pose (residual {np.max(best):.2g})",
                        {"class": cls, "kw": {k: np.asarray(v).tolist() for k, v in kw.items()}, "unit": unit, "positions": pos.tolist()})
                    continue
                for j in range(m):
                    loc = ori[j].inv().apply(V[which == j] - pos[j])
                    if len(loc) == 0:
                        # a pose identical to an earlier one (rotating in place on a wiper path: +a, -a, +a) draws the same vertices again;
                        # they were all attributed to the earlier index above (strict `<`), which is not a missing frame
                        if any(np.allclose(pos[j], pos[q], atol=1e-12) and np.allclose(ori[j].as_matrix(), ori[q].as_matrix(), atol=1e-12) for q in range(j)):
                            continue
                        bad(f"frame-missing:{cls}", f"no drawn vertices for path index {j}")
                        break
                    ext = np.asarray(kw["dimension"]) / 2 if cls == "Cuboid" else (np.array([kw["dimension"][0] / 2] * 2 + [kw["dimension"][1] / 2]) if cls == "Cylinder" else np.full(3, kw["diameter"] / 2))
                    lo, hi = loc.min(axis=0) / ext, loc.max(axis=0) / ext
                    tol = 0.02 if cls == "Cuboid" else 0.12
                    if np.any(hi < 1 - tol) or np.any(lo > -1 + tol):
                        bad(f"extent:{cls}", "drawn vertices do not span the body's full extent", {"lo": lo.tolist(), "hi": hi.tolist()})
                        break
            elif cls == "Circle":
                P = allpts / f
                ok = False
                for j in range(m):
                    loc = ori[j].inv().apply(P - pos[j])
                    on = (np.abs(np.hypot(loc[:, 0], loc[:, 1]) - kw["diameter"] / 2) < 1e-6) & (np.abs(loc[:, 2]) < 1e-6)
                    if on.sum() < 8:
                        bad("circle-trace", f"fewer than 8 drawn points lie on the loop at path index {j}")
                        break
            else:
                P = allpts / f
                for j in range(m):
                    glob = ori[j].apply(kw["vertices"]) + pos[j]
                    if any(np.min(np.linalg.norm(P - g, axis=1)) > 1e-6 for g in glob):
                        bad("polyline-trace", f"a conductor vertex is not on the drawn line at path index {j}")
                        break
        # displaying never alters objects: every class (both vertex orders of Tetrahedron, meshes, segments, sensors),
        # alone or inside a collection, plotly and matplotlib; for Tetrahedron the drawn corners are the object's corners
        from oracles.sources import CLASSES, make
        from oracles.c08 import all_objs
        import matplotlib
        matplotlib.use("Agg")
        for k in range(max(2 * (len(CLASSES) + 2), n // 2)):
            nps = np.random.default_rng(rng.randrange(2**31))
            cls = (CLASSES + ["Tetrahedron", "Sensor"])[k % (len(CLASSES) + 2)]
            rescaled = False
            if cls == "Sensor":
                o = magpy.Sensor(pixel=nps.uniform(-1, 1, (2, 2, 3)), position=nps.uniform(-1, 1, (2, 3)), handedness=rng.choice(["left", "right"]))
            elif (k // (len(CLASSES) + 2)) % 2:  # every class once as it is and once resting at the origin in other units
                rescaled = True
                # an object in small / large numbers resting exactly at the origin with the unit orientation (the pose at which
                # placing is a no-op): the scene is drawn in mm, um, km, ... and the object must come out of it unchanged
                o = make(cls, nps, scale=rng.choice([1e-2, 1e-3, 1e-6, 1e3]))
                o.position, o.orientation = (0, 0, 0), None
                kinds["no-alter:origin-rescaled"] = kinds.get("no-alter:origin-rescaled", 0) + 1
            else:
                o = make(cls, nps, path=rng.choice([1, 2]))
            if cls == "Tetrahedron":
                v = np.array(o.vertices)
                kinds["tetra-count"] = kinds.get("tetra-count", 0) + 1
                if (np.linalg.det(v[1:] - v[0]) < 0) != bool(kinds["tetra-count"] % 2):  # alternate left- and right-handed vertex orders
                    o.vertices = v[[0, 1, 3, 2]]
            top = magpy.Collection(o, magpy.Sensor(position=(3, 3, 3))) if rng.random() < 0.4 else o
            objs = all_objs([top])
            before = [snap_obj(x) for x in objs]
            backend = "plotly" if k % 3 else "matplotlib"
            fig = magpy.show(top, backend=backend, return_fig=True, style_path_frames=1)
            if backend == "matplotlib":
                import matplotlib.pyplot as plt
                plt.close("all")
            done += 1
            kinds["no-alter:" + cls] = kinds.get("no-alter:" + cls, 0) + 1
            if [snap_obj(x) for x in objs] != before:
                bad(f"show-mutates:{cls}", f"show(backend={backend!r}) modified the object (geometry, pose, excitation, children or style)",
                    {"class": cls, "backend": backend})
            if cls == "Tetrahedron" and backend == "plotly" and top is o and not rescaled:  # (drawn in metres)
                V = np.concatenate([xyz(t) for t in fig.data if type(t).__name__ == "Mesh3d"])
                want = np.concatenate([o._orientation[j].apply(np.array(o.vertices)) + o._position[j] for j in range(len(o._position))])
                if any(np.min(np.linalg.norm(V - w, axis=1)) > 1e-9 for w in want) or any(np.min(np.linalg.norm(want - q, axis=1)) > 1e-9 for q in V):
                    bad("vertex-off-surface:Tetrahedron", "the drawn corners of a Tetrahedron are not its corners at its pose")
        # a show() call that FAILS while the traces are built (a user model3d trace the backend refuses): the object — style included —
        # is as it was, and the next show() draws it where it is
        for trial in range(3):
            nps = np.random.default_rng(rng.randrange(2**31))
            o = [magpy.magnet.Cuboid(polarization=(0, 0, 1), dimension=(1, 1, 1)), magpy.current.Circle(current=1, diameter=1), magpy.Sensor()][trial]
            o.position = np.cumsum(nps.uniform(1, 2, (3, 3)), axis=0)
            o.style.model3d.add_trace(backend="generic", constructor="scatter3d", kwargs={"x": [0, 1], "y": [0, 1]})  # no z: refused at draw time
            top = o if trial != 1 else magpy.Collection(o)
            objs = all_objs([top])
            before, sid = [snap_obj(x) for x in objs], id(o.style)
            raised = None
            try:
                magpy.show(top, backend="plotly", return_fig=True, style_color="blue", style_path_frames=[0])
            except Exception as e:  # noqa: BLE001
                raised = type(e).__name__
            done += 1
            kinds["failed-show"] = kinds.get("failed-show", 0) + 1
            if raised is not None and ([snap_obj(x) for x in objs] != before or id(o.style) != sid):
                bad("show-mutates:failed-show", f"show() raised {raised} while drawing and left the object changed (style object replaced: {id(o.style) != sid})",
                    {"class": type(o).__name__, "raised": raised})
        # explicit frame lists, including indices beyond the path length (an object shorter than the index stays at its last pose)
        for trial in range(max(3, n // 6)):
            nps = np.random.default_rng(rng.randrange(2**31))
            m = rng.choice([3, 4, 5])
            pos = np.cumsum(nps.uniform(0.5, 2, (m, 3)), axis=0)
            obj = magpy.magnet.Cuboid(dimension=(0.3, 0.3, 0.3), polarization=(0, 0, 1), position=pos)
            frames = sorted(set([0, rng.randrange(m), m + rng.choice([0, 3, 6])]))
            fig = magpy.show(obj, backend="plotly", return_fig=True, style_path_frames=frames)
            done += 1
            kinds["frames-list"] = kinds.get("frames-list", 0) + 1
            V = np.concatenate([xyz(t) for t in fig.data if type(t).__name__ == "Mesh3d"])
            centres = sorted({tuple(np.round(c, 6)) for c in V.reshape(-1, 8, 3).mean(axis=1)}) if len(V) % 8 == 0 else None
            want = sorted({tuple(np.round(pos[min(f, m - 1)], 6)) for f in frames})
            if centres is None or centres != want:
                bad("frames-list", f"with style_path_frames={frames} on a path of length {m} the object is not drawn at the poses of indices {[min(f, m - 1) for f in frames]}",
                    {"frames": frames, "path_length": m, "drawn_centres": centres, "expected_centres": want})
        # a user-defined 3D trace (style.model3d) in the display backend's own format, coordinates given as a STATIC kwargs dict, on an object
        # with a path shown at several frames: every copy of the trace is the given coordinates placed at that frame's pose, the
        # kwargs the user handed over are unchanged, and drawing twice gives the same figure
        for trial in range(max(2, n // 10)):
            nps = np.random.default_rng(rng.randrange(2**31))
            m = rng.choice([3, 4])
            pos = np.cumsum(nps.uniform(0.5, 2, (m, 3)), axis=0)
            ori = R.from_rotvec(nps.uniform(-1, 1, (m, 3)))
            obj = magpy.magnet.Cuboid(dimension=(0.3, 0.3, 0.3), polarization=(0, 0, 1), position=pos, orientation=ori, style_model3d_showdefault=False)
            pts = nps.uniform(-0.5, 0.5, (4, 3))
            user_kw = {"x": pts[:, 0].copy(), "y": pts[:, 1].copy(), "z": pts[:, 2].copy(), "mode": "markers"}
            obj.style.model3d.add_trace(backend="plotly", constructor="Scatter3d", kwargs=user_kw)
            frames = list(range(m))
            figs = [magpy.show(obj, backend="plotly", return_fig=True, style_path_frames=frames, style_path_show=False) for _ in range(2)]
            done += 1
            kinds["custom-trace-frames"] = kinds.get("custom-trace-frames", 0) + 1
            got = [np.concatenate([xyz(t) for t in f_.data if type(t).__name__ == "Scatter3d" and t.mode == "markers"]) if any(type(t).__name__ == "Scatter3d" for t in f_.data) else np.zeros((0, 3)) for f_ in figs]
            want = np.concatenate([ori[k_].apply(pts) + pos[k_] for k_ in range(m)])
            def same_set(a_, b_):
                return len(a_) == len(b_) and all(np.min(np.linalg.norm(b_ - p_, axis=1)) < 1e-9 for p_ in a_) and all(np.min(np.linalg.norm(a_ - p_, axis=1)) < 1e-9 for p_ in b_)
            kw_same = all(np.array_equal(user_kw[a_], pts[:, j_]) for j_, a_ in enumerate("xyz"))
            if not (same_set(got[0], want) and same_set(got[1], want) and kw_same):
                bad("custom-trace-frames", f"a user model3d trace (plotly Scatter3d, static kwargs) on an object shown at frames {frames}: drawn points are not the given points placed at each frame's pose "
                    f"(first show ok: {same_set(got[0], want)}, second show ok: {same_set(got[1], want)}, user's kwargs unchanged: {kw_same})", {"frames": frames, "path_length": m})
        # line currents written in SMALL numbers (a nanometre-scale loop, a micrometre meander given at a large offset, a finely sampled
        # curve): every vertex of the object is a vertex of the drawn line, in order
        for trial in range(max(3, n // 8)):
            nps = np.random.default_rng(rng.randrange(2**31))
            sc_ = 10.0 ** rng.choice([-9, -8, -7, -6, -3, 0])
            off_ = np.array([rng.choice([0.0, 0.0, 0.8, -3.0]), 0.0, 0.0])
            nv = rng.choice([4, 6, 9])
            vloc = np.cumsum(nps.uniform(0.2, 1.0, (nv, 3)) * nps.choice([-1, 1], (nv, 3)), axis=0) * sc_ + off_
            pl = magpy.current.Polyline(vertices=vloc, current=1.0, style_arrow_show=False)
            fig = magpy.show(pl, backend="plotly", return_fig=True, units_length="m")
            done += 1
            kinds["polyline-small-numbers"] = kinds.get("polyline-small-numbers", 0) + 1
            drawn = [xyz(t) for t in fig.data if type(t).__name__ == "Scatter3d"]
            pts_ = np.concatenate(drawn) if drawn else np.zeros((0, 3))
            missing = [k_ for k_, v_ in enumerate(vloc) if pts_.size == 0 or np.min(np.linalg.norm(pts_ - v_, axis=1)) > 1e-6 * sc_]
            if missing:
                bad("polyline-vertices-missing", f"a Polyline with segments of about {sc_:g} m (given around x = {off_[0]:g} m): vertices {missing[:5]} of {nv} are not on the drawn line",
                    {"scale": sc_, "offset": off_.tolist(), "vertices": vloc.tolist(), "missing": missing})
        done += mapback_section(magpy, rng, n, bad, kinds)
        done += units_section(magpy, rng, bad, kinds)
    return fails, {"c19_figures": done, "c19_kinds": kinds}


UNITS = {"m": 1.0, "mm": 1e3, "km": 1e-3, "cm": 1e2}
MAPBACK = ["Tetrahedron", "Triangle", "TriangularMesh", "CylinderSegment", "Dipole", "Sensor"]
# colours given to the sensors of the mapback section so that the parts of the merged sensor mesh can be told apart by facecolor
PIX_COL, AX_COLS = "#010203", {"x": "#fe0102", "y": "#01fe02", "z": "#0102fe"}


def mapback_section(magpy, rng, n, bad, kinds):
    """Tetrahedron, Triangle, TriangularMesh, CylinderSegment, Dipole, Sensor: what is drawn (plotly, all path frames, a random
    length unit, bare or inside a Collection), divided by the unit factor and mapped back through EVERY displayed pose j
    (loc = ori[j]^-1 (V - pos[j])), is the object's own geometry.  Glyphs that are not the body are switched off by style
    keywords (orientation arrows of Triangle / TriangularMesh are a second Mesh3d trace: style_orientation_show=False; with
    the plotly backend the magnetization is shown as a colour gradient on the body, not as an arrow; grid / open / disconnected /
    selfintersecting markers of a TriangularMesh are Scatter3d traces and are switched off too); only Mesh3d traces are read."""
    from scipy.spatial import ConvexHull
    from oracles.sources import CUBE12

    done = 0
    for k in range(max(2 * len(MAPBACK), n // 2)):
        nps = np.random.default_rng(rng.randrange(2**31))
        cls, rnd = MAPBACK[k % len(MAPBACK)], k // len(MAPBACK)
        u = nps.uniform
        m = rng.choice([1, 2, 3])
        pos, ori = u(-3, 3, (m, 3)), R.random(m, rng=nps)
        unit = rng.choice(list(UNITS))
        f = UNITS[unit]
        inner = rng.random() < 0.4
        show_kw, note, vol = {}, {}, None
        if cls == "Tetrahedron":
            while True:
                v = u(-1, 1, (4, 3))
                if abs(np.linalg.det(v[1:] - v[0])) > 0.2:
                    break
            if (np.linalg.det(v[1:] - v[0]) > 0) != bool(rnd % 2):  # both chiralities of the vertex order, alternating
                v = v[[0, 1, 3, 2]]
            note["right_handed"] = bool(np.linalg.det(v[1:] - v[0]) > 0)
            kw = dict(vertices=v, polarization=u(-1, 1, 3))
            obj, want, vol = magpy.magnet.Tetrahedron(**kw), v, abs(np.linalg.det(v[1:] - v[0])) / 6
        elif cls == "Triangle":
            while True:
                v = u(-1, 1, (3, 3))
                if np.linalg.norm(np.cross(v[1] - v[0], v[2] - v[0])) > 0.3:
                    break
            # a generic polarization (when it is exactly normal to the facet the code deliberately draws a thin double layer instead)
            kw = dict(vertices=v, polarization=u(-1, 1, 3))
            obj, want, show_kw = magpy.misc.Triangle(**kw), v, dict(style_orientation_show=False)
        elif cls == "TriangularMesh":
            show_kw = dict(style_orientation_show=False, style_mesh_grid_show=False, style_mesh_open_show=False,
                           style_mesh_disconnected_show=False, style_mesh_selfintersecting_show=False)
            if rnd % 2 == 0:  # the convex hull of random points (points inside the hull are kept as vertices no face uses)
                while True:
                    pts = u(-1, 1, (int(nps.integers(5, 11)), 3)) * u(0.5, 1.5, 3)
                    hull = ConvexHull(pts)
                    if hull.volume > 0.2:
                        break
                kw = dict(points=pts, polarization=u(-1, 1, 3))
                obj, want, vol = magpy.magnet.TriangularMesh.from_ConvexHull(**kw), pts[hull.vertices], hull.volume
                note["from"] = "ConvexHull"
            else:  # a box given by vertices and faces
                d = u(0.5, 1.5, 3)
                verts = np.array([[x, y, z] for x in (-1, 1) for y in (-1, 1) for z in (-1, 1)]) * d / 2 + u(-0.3, 0.3, 3)
                kw = dict(vertices=verts, faces=CUBE12, polarization=u(-1, 1, 3))
                obj, want, vol = magpy.magnet.TriangularMesh(**kw), verts, float(np.prod(d))
                note["from"] = "box"
        elif cls == "CylinderSegment":
            r1 = 0.0 if (rnd % 4 == 0 or rng.random() < 0.25) else u(0.2, 0.9)
            r2, h = r1 + u(0.3, 1), u(0.5, 2)
            if rnd % 4 == 1:  # the full ring: phi2 - phi1 = 360 exactly (whole degrees)
                p1 = float(nps.integers(-360, 1))
                p2 = p1 + 360.0
            else:
                p1 = u(-360, 330)
                p2 = p1 + u(10, min(359, 360 - p1))
            kw = dict(dimension=(r1, r2, h, p1, p2), polarization=u(-1, 1, 3))
            obj = magpy.magnet.CylinderSegment(**kw)
        elif cls == "Dipole":
            while True:  # a moment along no coordinate axis or plane: every component at least 10 % of its length
                mom = u(-1, 1, 3)
                if np.min(np.abs(mom)) > 0.1 * np.linalg.norm(mom):
                    break
            pivot = rng.choice([None, "middle", "tail", "tip"])
            kw = dict(moment=mom, **({} if pivot is None else {"style_pivot": pivot}))
            obj = magpy.misc.Dipole(**kw)
        else:
            a, b = rng.choice([1, 2, 3]), rng.choice([1, 2, 3])
            pix = None if rnd % 3 == 2 else u(-1, 1, (a, b, 3)) * rng.choice([2e-3, 5e-3, 0.5, 2.0])  # a few mm / m
            kw = dict(pixel=pix, handedness=rng.choice(["left", "right"]))
            obj = magpy.Sensor(**kw, style_pixel_color=PIX_COL, **{f"style_arrows_{c}_color": v for c, v in AX_COLS.items()})
        obj.position, obj.orientation = pos, ori
        top = magpy.Collection(obj, position=(0, 0, 0)) if inner else obj
        rep = {"class": cls, "kw": {k_: (None if v_ is None else np.asarray(v_).tolist()) for k_, v_ in kw.items()}, "positions": pos.tolist(),
               "quaternions": ori.as_quat().tolist(), "unit": unit, "in_collection": inner, "show_kw": show_kw, **note}
        before = snap_obj(obj)
        fig = magpy.show(top, backend="plotly", return_fig=True, style_path_frames=1, units_length=unit, **show_kw)
        done += 1
        kinds["mapback:" + cls] = kinds.get("mapback:" + cls, 0) + 1
        if snap_obj(obj) != before:
            bad(f"show-mutates:{cls}", "show() modified the object or its style", rep)
        parts = mesh_parts(fig)
        if not parts:
            bad(f"mapback:{cls}:no-mesh", "no Mesh3d trace is drawn for the object", rep)
            continue

        def back(P, j):
            return ori[j].inv().apply(P - pos[j])

        # Rounding: coordinates are O(5) (positions within +-3, bodies within +-2), every step (rotate, translate, scale by the unit
        # factor and back) is good to a few 1e-16 relative, so residuals are ~1e-15; 1e-9 * scale leaves six orders of margin and
        # is far below any modelling error (a wrong dimension, pose or unit is off by >= 1e-3)
        scale = max(1.0, float(np.abs(pos).max()))
        tol = 1e-9 * scale
        D = used_vertices(parts) / f  # what is rendered (vertices that a face uses), in metres
        if len(D) == 0:
            bad(f"mapback:{cls}:no-mesh", "the Mesh3d trace of the object has no faces", rep)
            continue
        if cls in ("Tetrahedron", "Triangle", "TriangularMesh"):
            # (1) every vertex of the object (for a convex hull: every hull vertex of the input points), placed at EVERY displayed
            #     pose, coincides with a drawn vertex (distance <= 1e-9 * scale)
            for j in range(m):
                miss = far_from(ori[j].apply(want) + pos[j], D)
                if miss > tol:
                    bad(f"mapback:{cls}:vertex-missing", f"a vertex of the object at path index {j} is not among the drawn vertices (nearest drawn vertex {miss:.3g} m away)",
                        {**rep, "path_index": j})
                    break
            # (2) every drawn vertex that a face uses, mapped back through some displayed pose, is a vertex of the object (same tolerance)
            dmin = np.min([np.min(np.linalg.norm(back(D, j)[:, None, :] - want[None, :, :], axis=2), axis=1) for j in range(m)], axis=0)
            if dmin.max() > tol:
                bad(f"mapback:{cls}:vertex-extra", f"a drawn vertex is not a vertex of the object at any displayed pose (off by {dmin.max():.3g} m)", rep)
            # (3) closed bodies: the drawn faces enclose the body's volume once per displayed pose with outward winding, i.e. the sum of the
            #     signed pyramid volumes over all drawn faces is m * volume.  One inward face changes the sum by O(volume); terms are
            #     O(100) with 1e-14 rounding each, volumes are > 0.03, so 1e-8 relative is safe on both sides
            if vol is not None:
                got = sum(signed_volume(V / f, F) for V, F, _ in parts if len(F))
                if abs(got - m * vol) > 1e-8 * m * vol:
                    bad(f"mapback:{cls}:winding", f"the drawn faces enclose a signed volume of {got:.9g} m^3 instead of {m} x {vol:.9g} m^3 (faces not closed / not all wound outward)",
                        {**rep, "signed_volume": got, "expected": m * vol})
        elif cls == "CylinderSegment":
            w = p2 - p1
            # every drawn vertex, mapped back through some displayed pose, lies on the inner or outer radius (|r - r1| or |r - r2| <= 1e-9 r2),
            # on the top or bottom plane (||z| - h/2| <= 1e-9 h) and within the angular range: (azimuth - phi1) mod 360 in [0, phi2 - phi1]
            # up to 1e-7 degrees (atan2 of coordinates with ~1e-15 absolute rounding at radius >= 0.2 gives ~1e-12 degrees); vertices on the
            # axis (r1 = 0) have no azimuth.  score = the largest of the three residuals in units of its tolerance, best over the poses
            score, comp = np.full(len(D), np.inf), np.zeros(len(D), int)
            for j in range(m):
                loc = back(D, j)
                rr = np.hypot(loc[:, 0], loc[:, 1])
                res_r = np.minimum(np.abs(rr - r1), np.abs(rr - r2)) / r2 / 1e-9
                res_z = np.abs(np.abs(loc[:, 2]) - h / 2) / h / 1e-9
                dphi = (np.degrees(np.arctan2(loc[:, 1], loc[:, 0])) - p1) % 360.0
                res_a = np.where(rr <= 1e-9 * r2, 0.0, np.where(dphi <= w, 0.0, np.minimum(dphi - w, 360.0 - dphi))) / 1e-7
                res = np.stack([res_r, res_z, res_a])
                s_ = res.max(axis=0)
                comp[s_ < score] = res.argmax(axis=0)[s_ < score]
                score = np.minimum(score, s_)
            if score.max() > 1:
                what = ["radius", "height", "azimuth"][comp[score.argmax()]]
                bad(f"mapback:CylinderSegment:{what}", f"a drawn vertex, mapped back through the pose, is not on the segment's boundary: {what} off by {score.max():.3g} tolerances", rep)
            # the 8 corners (r1|r2, phi1|phi2, +-h/2), placed at EVERY displayed pose, are drawn vertices (distance <= 1e-9 * scale)
            C = np.array([[r * np.cos(np.radians(p)), r * np.sin(np.radians(p)), z] for r in (r1, r2) for p in (p1, p2) for z in (-h / 2, h / 2)])
            for j in range(m):
                miss = far_from(ori[j].apply(C) + pos[j], D)
                if miss > tol:
                    bad("mapback:CylinderSegment:corner-missing", f"a corner (r1|r2, phi1|phi2, +-h/2) of the segment at path index {j} is not a drawn vertex (nearest {miss:.3g} m away)",
                        {**rep, "path_index": j})
                    break
        elif cls == "Dipole":
            # make_Dipole draws a Mesh3d arrow (cone + shaft, make_Arrow) of a length set by the scene size, turned from +z onto the moment
            # and anchored according to style.pivot; default pivot read from the defaults at run time ("middle")
            eff = pivot if pivot is not None else magpy.defaults.display.style.dipole.pivot
            V = parts[0][0] / f
            nv = mom / np.linalg.norm(mom)
            if len(parts) != 1 or len(V) % m or len(V) == 0:
                bad("mapback:Dipole:arrow-count", f"{len(parts)} Mesh3d traces with {len(V)} vertices for {m} displayed poses: not one arrow per pose", rep)
                continue
            chunks = V.reshape(m, -1, 3)  # one copy of the arrow per displayed pose (equal vertex counts); which copy belongs to which pose is not assumed

            def arrow_residual(P, j):
                """(angle between the arrow's axis and the moment, distance of the axis from the position, pivot offset) / tolerance"""
                loc = back(P, j)
                s_ = loc @ nv
                L = s_.max() - s_.min()
                if not L > 0:
                    return {"degenerate": np.inf}
                tip = loc[s_.argmax()]  # the apex of the cone: the extreme vertex along the moment
                tail = loc[s_ <= s_.min() + 1e-6 * L].mean(axis=0)  # centre of the tail cap: mean of the extreme vertices against the moment
                ax = tip - tail
                t_ = 1e-9 * max(scale, L)
                piv = {"middle": abs(s_.max() + s_.min()) / 2, "tail": abs(s_.min()), "tip": abs(s_.max())}[eff]
                return {
                    # the axis (tail-cap centre -> apex) is parallel to the moment and points the same way: sin(angle) < 1e-6
                    # (make_Dipole builds the turn from arccos of the z component; with every |component| >= 0.1 that is good to ~1e-15)
                    "direction": (np.linalg.norm(np.cross(ax, nv)) / np.linalg.norm(ax) if ax @ nv > 0 else np.inf) / 1e-6,
                    # both the apex and the tail-cap centre lie on the line through the object's position along the moment
                    "axis-off-position": max(np.linalg.norm(tip - (tip @ nv) * nv), np.linalg.norm(tail - (tail @ nv) * nv)) / t_,
                    # pivot: "middle" = the extent along the moment is centred on the position, "tail" / "tip" = that end is at the position
                    "pivot": piv / t_,
                }
            for j in range(m):
                cand = [arrow_residual(c_, j) for c_ in chunks]
                best = min(cand, key=lambda r_: max(r_.values()))
                if max(best.values()) > 1:
                    what = max(best, key=best.get)
                    bad(f"mapback:Dipole:{what}", f"no drawn arrow is along the moment through the position (pivot {eff!r}) at path index {j}: {what} off by {best[what]:.3g} tolerances",
                        {**rep, "path_index": j, "pivot": eff})
                    break
        else:
            # make_Sensor merges into ONE Mesh3d: the axes glyph (98 template vertices; every template vertex inside the unit cube — the centre
            # cube and the inner ends of the three shafts — is collapsed onto the origin, the rest is scaled by one common length), one cube
            # per pixel (always cubes; side = half the smallest pixel distance x style.pixel.size; no pixel-count limit; none when pixel is
            # None or size 0) and the pixels' bounding box.  Faces carry facecolor, by which the parts are told apart here.
            if len(parts) != 1 or parts[0][2] is None:
                bad("mapback:Sensor:structure", "the sensor is not drawn as one Mesh3d trace with face colours", rep)
                continue
            V, F, fc = parts[0]
            V = V / f
            psz = 0.0 if pix is None else float(np.abs(pix).max())
            tol_s = 1e-9 * max(scale, psz)
            if pix is not None:
                P = pix.reshape(-1, 3)
                Fp = F[fc == PIX_COL]
                cubes = face_components(Fp, len(V)) if len(Fp) else []
                cent = np.array([V[c_].mean(axis=0) for c_ in cubes]) if cubes else np.zeros((0, 3))
                # for every pixel p and every displayed pose j a pixel cube (a connected component of the pixel-coloured faces) is drawn whose
                # vertex centroid is ori[j] p + pos[j]; and there are exactly (pixels x poses) cubes of 8 vertices, each centred on such a point
                for j in range(m):
                    miss = far_from(ori[j].apply(P) + pos[j], cent)
                    if miss > tol_s:
                        bad("mapback:Sensor:pixel", f"no pixel marker is centred on a pixel's position at path index {j} (nearest marker centre {miss:.3g} m away)", {**rep, "path_index": j})
                        break
                allp = np.concatenate([ori[j].apply(P) + pos[j] for j in range(m)])
                if len(cubes) != m * len(P) or any(len(c_) != 8 for c_ in cubes) or far_from(cent, allp) > tol_s:
                    bad("mapback:Sensor:pixel-extra", f"{len(cubes)} pixel markers for {len(P)} pixels at {m} poses, or a marker that is not centred on a pixel", rep)
            # axes: (a) the sensor position is a vertex of the glyph at every displayed pose (where the three shafts start);
            #       (b) for each axis c, of the vertices of the faces in that axis' colour mapped back through pose j, those ON the local c axis
            #           (|perpendicular part| <= tol; vertices of other poses' copies are generically off it) are: at least one at the origin (the
            #           arrow starts at the sensor position) and otherwise only points s t e_c with t > 0, the farthest being the apex s L e_c;
            #           s = +1 except for the x axis of a left-handed sensor (drawn along -x: handedness 'left' flips the x axis);
            #           L is the same for the three axes (rel 1e-9; the glyph is scaled by one common length)
            Fg = F[fc != PIX_COL]
            G = V[np.unique(Fg)] if len(Fg) else np.zeros((0, 3))
            for j in range(m):
                if far_from(pos[j][None, :], G) > tol_s:
                    bad("mapback:Sensor:axes-origin", f"the sensor position at path index {j} is not a vertex of the axes glyph (the arrows do not start there)", {**rep, "path_index": j})
                    break
                Ls, why = [], None
                for c, col in AX_COLS.items():
                    Fh = F[fc == col]
                    loc = back(V[np.unique(Fh)], j) if len(Fh) else np.zeros((0, 3))
                    e = np.eye(3)["xyz".index(c)]
                    along = loc @ e
                    perp = np.linalg.norm(loc - along[:, None] * e, axis=1)
                    on = along[perp <= tol_s]
                    sign = -1.0 if (c == "x" and kw["handedness"] == "left") else 1.0
                    if not np.any(np.abs(on) <= tol_s):  # (the coloured faces reach down to the collapsed inner end of the shaft)
                        why = f"the {c} arrow does not start at the sensor position"
                        break
                    on = on[np.abs(on) > tol_s]
                    if len(on) == 0 or not np.all(sign * on > 0):
                        why = f"the {c} arrow has no vertex (its apex) on the local {'-' if sign < 0 else '+'}{c} axis through the position"
                        break
                    Ls.append(float(np.max(sign * on)))
                if why is None and max(Ls) - min(Ls) > 1e-9 * max(Ls):
                    why = f"the three axes arrows have different lengths {Ls}"
                if why is not None:
                    bad("mapback:Sensor:axes", f"{why} (path index {j}, handedness {kw['handedness']})", {**rep, "path_index": j})
                    break
    return done


def units_section(magpy, rng, bad, kinds):
    """every SI prefix that get_unit_factor knows (read from magpylib._src.utility._UNIT_PREFIX at run time, '' = plain m, upper and lower
    case letters are different prefixes: Mm is mega, mm is milli, Pm peta, pm pico, ...) plus d and c: one Cuboid per prefix of about the size
    of the unit (numbers O(1) in the displayed unit), for some also a metre-sized one (numbers ~10^-power), shown with the explicit
    units_length='<prefix>m'.  (i) the three axis titles are exactly '<axis> (<prefix>m)'; (ii) the 8 drawn corners divided by the EXPECTED
    factor 10.0**(-power) (from the table, not from get_unit_factor) and mapped back through the pose are the cuboid's corners and vice versa,
    to 1e-9 of the object's size / distance (pure rounding otherwise: one multiplication by the factor, one rotation, one translation)."""
    from magpylib._src.utility import _UNIT_PREFIX

    prefixes = [(p, k) for k, p in _UNIT_PREFIX.items()] + [("d", -1), ("c", -2)]
    also_metre = set(rng.sample(range(len(prefixes)), 5))
    done = 0
    for idx, (p, power) in enumerate(prefixes):
        for metre_sized in ([False, True] if idx in also_metre else [False]):
            nps = np.random.default_rng(rng.randrange(2**31))
            unit, s = f"{p}m", (1.0 if metre_sized else 10.0**power)
            dim, position, o = nps.uniform(0.5, 2, 3) * s, nps.uniform(-3, 3, 3) * s, R.random(rng=nps)
            cub = magpy.magnet.Cuboid(dimension=dim, polarization=(0, 0, 1), position=position, orientation=o)
            inner = rng.random() < 0.3
            rep = {"unit": unit, "power": power, "dimension": dim.tolist(), "position": position.tolist(), "quaternion": o.as_quat().tolist(), "in_collection": inner}
            top = magpy.Collection(cub) if inner else cub
            before = snap_obj(cub)
            try:
                fig = magpy.show(top, backend="plotly", return_fig=True, units_length=unit)
            except Exception as e:  # noqa: BLE001  (no prefix of the table is refused on the checked tree; a refusal is a finding)
                kinds[f"units:raised:{unit}"] = type(e).__name__
                bad(f"units:{unit}", f"show(units_length={unit!r}) raised {type(e).__name__}: {str(e)[:120]}", rep)
                continue
            done += 1
            kinds["units"] = kinds.get("units", 0) + 1
            if metre_sized:
                kinds["units:metre-sized"] = kinds.get("units:metre-sized", 0) + 1
            if snap_obj(cub) != before:
                bad("show-mutates:Cuboid", f"show(units_length={unit!r}) modified the object", rep)
            titles = [getattr(fig.layout.scene, a + "axis").title.text for a in "xyz"]
            if titles != [f"{a} ({unit})" for a in "xyz"]:
                bad(f"units:{unit}", f"axis titles {titles} do not announce the requested length unit ({unit})", {**rep, "titles": titles})
            V = used_vertices(mesh_parts(fig))
            corners = np.array([[x, y, z] for x in (-1, 1) for y in (-1, 1) for z in (-1, 1)]) * dim / 2
            loc = o.inv().apply(V / 10.0 ** (-power) - position)
            size = float(max(np.abs(dim).max(), np.abs(position).max()))
            err = max(far_from(corners, loc), far_from(loc, corners)) if len(V) else float("inf")
            if len(V) != 8 or err > 1e-9 * size:
                ratio = float(np.abs(V).max() / np.abs(o.apply(corners) + position).max()) if len(V) else float("nan")
                # telling a wrong factor from a wrong pose: the 28 vertex-to-vertex distances do not depend on the pose; when they are the cuboid's
                # (x expected factor, rel 1e-9) the unit factor was applied correctly and the body is merely misplaced
                from scipy.spatial.distance import pdist
                scale_ok = len(V) == 8 and np.allclose(np.sort(pdist(V)) / 10.0 ** (-power), np.sort(pdist(corners)), rtol=1e-9, atol=0)
                bad(f"units-pose:{unit}" if scale_ok else f"units:{unit}",
                    ("the drawn cuboid has the right size in the displayed unit but is not at its pose " if scale_ok else f"drawn coordinates are not metres x 1e{-power} ")
                    + f"for units_length={unit!r} (drawn / metres = {ratio:.6g}, corners off by {err / size:.3g} of the size)",
                    {**rep, "drawn_over_metres": ratio, "expected_factor": 10.0 ** (-power)})
    return done
