"""C08 failing-input search on the real code: deep snapshots of every involved object and of every
caller-owned array before/after getB/getH/getJ/getM calls that return and that fail at each of
the failure points named in the property (fault schedules on custom field functions included)."""
import numpy as np
from scipy.spatial.transform import Rotation as R

from oracles.sources import CLASSES, far_points, make


def snap_obj(o):
    d = {"pos": o._position.tobytes(), "pos_shape": o._position.shape, "quat": o._orientation.as_quat().tobytes(),
         "nquat": len(o._orientation), "parent": id(o._parent) if o._parent is not None else None}
    for a in ("_dimension", "_diameter", "_vertices", "_faces", "_polarization", "_magnetization", "_current", "_moment", "_pixel", "_handedness"):
        if hasattr(o, a):
            v = getattr(o, a)
            d[a] = v.tobytes() + str(v.shape).encode() if isinstance(v, np.ndarray) else repr(v)
    for a in ("_status_open", "_status_open_data", "_status_disconnected", "_status_disconnected_data", "_status_selfintersecting",
              "_status_selfintersecting_data", "_status_reoriented"):
        if hasattr(o, a):  # TriangularMesh: results of the (possibly skipped) validity checks are part of the object's state
            v = getattr(o, a)
            d[a] = (np.asarray(v).tobytes() + str(np.shape(v)).encode()) if isinstance(v, (np.ndarray, list)) else repr(v)
    if hasattr(o, "_children"):
        d["children"] = [id(c) for c in o._children]
        d["sources"] = [id(c) for c in o._sources]
        d["sensors"] = [id(c) for c in o._sensors]
    # every list-valued instance attribute is bookkeeping the object owns (a collection's _collections, ...): same entries, same order
    for a, v in sorted(vars(o).items()):
        if isinstance(v, list) and a not in ("_children", "_sources", "_sensors"):
            d["list:" + a] = [id(c) for c in v]
    # every other instance attribute with a plain value (a failed call must not leave notes on the object: caches, flags, counters)
    for a, v in sorted(vars(o).items()):
        if a not in d and a.lstrip("_") not in ("style", "style_kwargs", "parent", "position", "orientation", "field_func") and isinstance(v, (tuple, str, int, float, bool, type(None), frozenset)):
            d["attr:" + a] = repr(v)
    d["attr-names"] = sorted(a for a in vars(o) if a.lstrip("_") not in ("style", "style_kwargs"))
    # observable style values (reading obj.style materialises the lazily created style object; that
    # is not a change of any style value, so the snapshot reads through the public attribute)
    d["style"] = repr(o.style.as_dict())
    return d


def all_objs(xs):
    out = []
    for x in xs:
        out.append(x)
        if hasattr(x, "_children"):
            out += all_objs(x._children)
    return out


def Faulty(at, kind, once=False):
    """custom field function with a fault schedule: at its i-th invocation (`once`) / from its i-th invocation on: raise / return
    None / wrong shape"""
    state = {"calls": 0}

    def ff(field, observers):
        state["calls"] += 1
        if (state["calls"] == at + 3) if once else (state["calls"] >= at + 3):  # two validation calls happen at assignment
            if kind == "raise":
                raise RuntimeError("injected fault")
            if kind == "none":
                return None
            if kind == "shape":
                return np.zeros((len(observers) + 1, 3))
            if kind == "scalar":
                return 0.0
        return np.array(observers, dtype=float) * 2.0

    return ff


def sweep(ctx, n):
    import magpylib as magpy

    rng, fails, done, kinds = ctx.rng, [], 0, {}
    FAULTS = ["none-ok", "missing-dimension", "missing-excitation", "custom-raise", "custom-none", "custom-shape", "custom-scalar",
              "custom-no-H", "custom-no-func", "bad-pixel-agg", "bad-output", "bad-in_out", "pixel-shapes", "bad-observer", "dict-kwargs-mix", "left-handed-tetra", "unchecked-mesh"]
    for i in range(n):
        nps = np.random.default_rng(rng.randrange(2**31))
        fault = FAULTS[i % len(FAULTS)]
        srcs = [make(rng.choice(CLASSES), nps, path=rng.choice([1, 1, 2, 3, 4])) for _ in range(rng.choice([1, 2, 3]))]
        for s in srcs:
            if rng.random() < 0.3:
                s.style.color = "red"
            if rng.random() < 0.3:
                s.rotate(R.random(rng=nps))
        sens = [magpy.Sensor(position=far_points(nps, rng.choice([1, 2, 3, 5]), lo=4, hi=8), orientation=R.random(rng=nps),
                             pixel=nps.uniform(-0.2, 0.2, (2, 3))) for _ in range(rng.choice([1, 2]))]
        if rng.random() < 0.5:
            srcs = [magpy.Collection(*srcs[:2], position=nps.uniform(-1, 1, (rng.choice([1, 2]), 3)))] + srcs[2:]
        kw = {}
        field = rng.choice(["B", "H", "J", "M"])
        expect_fail = fault != "none-ok"
        obs_in = sens
        if fault == "missing-dimension":
            srcs.append(magpy.magnet.Cuboid(polarization=(1, 2, 3)))
        elif fault == "missing-excitation":
            srcs.append(magpy.current.Circle(diameter=1))
        elif fault.startswith("custom-") and fault not in ("custom-no-H", "custom-no-func"):
            once = rng.random() < 0.5
            srcs.append(magpy.misc.CustomSource(field_func=Faulty(0 if once else rng.choice([0, 0, 1]), fault.split("-")[1], once=once)))
            field = rng.choice(["B", "H"])
        elif fault == "custom-no-func":
            srcs.append(magpy.misc.CustomSource(position=nps.uniform(-1, 1, (rng.choice([1, 2]), 3))))
            field = rng.choice(["B", "H"])
        elif fault == "custom-no-H":
            srcs.append(magpy.misc.CustomSource(field_func=lambda field, observers: np.array(observers) if field == "B" else None))
            field = "H"
        elif fault == "bad-pixel-agg":
            kw["pixel_agg"] = rng.choice(["foo", "array"])
        elif fault == "bad-output":
            kw["output"] = "xml"
        elif fault == "bad-in_out":
            kw["in_out"] = "inside"  # legal value; only warns — must not fail or change anything
            expect_fail = False
        elif fault == "pixel-shapes":
            sens.append(magpy.Sensor(pixel=nps.uniform(-1, 1, (3, 3)), position=(7, 7, 7)))
        elif fault == "bad-observer":
            obs_in = [sens[0], "nonsense"]
        elif fault == "dict-kwargs-mix":
            kw["diameter"] = 3.0
        elif fault == "unchecked-mesh":
            # a TriangularMesh whose validity checks were all skipped at construction (closed or with one face missing)
            from oracles.sources import CUBE12
            dd = nps.uniform(0.5, 1.5, 3)
            vv = np.array([[x, y, z] for x in (-1, 1) for y in (-1, 1) for z in (-1, 1)]) * dd / 2
            ff = CUBE12 if rng.random() < 0.6 else CUBE12[:-1]
            srcs.append(magpy.magnet.TriangularMesh(vertices=vv, faces=ff, polarization=nps.uniform(-1, 1, 3), check_open="skip", check_disconnected="skip",
                                                    check_selfintersecting="skip", reorient_faces="skip"))
            field = rng.choice(["B", "B", "H"])
            expect_fail = False
        elif fault == "left-handed-tetra":
            v = np.array([(0, 0, 0), (1, 0, 0), (0, 0, 1), (0, 1, 0)], float) * nps.uniform(0.5, 2)
            srcs.append(magpy.magnet.Tetrahedron(vertices=v, polarization=(0.1, 0.2, 0.3)))
            expect_fail = False
        caller_arrays = []
        if fault == "none-ok" and rng.random() < 0.5:
            arr = far_points(nps, 3, lo=4, hi=8)
            obs_in = arr
            caller_arrays.append(arr)
        # the same call through the other interfaces: the method of a collection that holds everything in a tree three or four levels
        # deep, the method of the first source, the method of the first sensor
        form = "top"
        if fault not in ("dict-kwargs-mix", "bad-observer") and not caller_arrays and rng.random() < 0.45:
            form = rng.choice(["coll-method", "coll-method", "src-method", "sens-method"])
        if form == "coll-method":
            inner = magpy.Collection(*srcs[:1])
            mid = magpy.Collection(inner, *srcs[1:2])
            top = magpy.Collection(magpy.Collection(mid), *srcs[2:]) if rng.random() < 0.5 else magpy.Collection(mid, *srcs[2:])
            srcs = [top]
        kinds["form:" + form] = kinds.get("form:" + form, 0) + 1
        objs = all_objs(srcs + sens)
        before = [snap_obj(o) for o in objs]
        hashes = [a.tobytes() for a in caller_arrays]
        get = getattr(magpy, "get" + field)
        if form == "coll-method":
            get = lambda s_, o_, _m=getattr(srcs[0], "get" + field), **k_: _m(*(o_ if isinstance(o_, list) else [o_]), **k_)
        elif form == "src-method" and len(srcs) == 1:
            get = lambda s_, o_, _m=getattr(srcs[0], "get" + field), **k_: _m(*(o_ if isinstance(o_, list) else [o_]), **k_)
        elif form == "sens-method" and len(sens) == 1:
            get = lambda s_, o_, _m=getattr(sens[0], "get" + field), **k_: _m(*s_, **k_)
        err = None
        res = None
        try:
            import warnings
            with warnings.catch_warnings():
                warnings.simplefilter("ignore")
                res = get(srcs, obs_in, **kw)
        except Exception as e:  # noqa
            err = type(e).__name__
        after = [snap_obj(o) for o in objs]
        done += 1
        kinds[f"{fault}:{err}"] = kinds.get(f"{fault}:{err}", 0) + 1
        changed = [(type(o).__name__, k) for o, b, a in zip(objs, before, after) for k in b if b[k] != a.get(k)]
        if [a.tobytes() for a in caller_arrays] != hashes:
            changed.append(("caller-array", "observers"))
        if changed:
            fails.append({"key": f"mutation:{fault}:{sorted(set(k for _, k in changed))[0]}",
                          "desc": f"get{field} changed {sorted(set(changed))[:4]} (call {'raised ' + err if err else 'returned'})",
                          "replay": {"fault": fault, "field": field, "error": err, "changed": sorted(set(changed))[:8]}})
            continue
        if err is not None and fault.startswith("custom-") and fault not in ("custom-no-H", "custom-no-func") and "once" in dir() and once:
            # the cause of the failure is gone (the field function misbehaved at one invocation only): calling again gives the field
            try:
                with warnings.catch_warnings():
                    warnings.simplefilter("ignore")
                    again = get(srcs, obs_in, **kw)
                    again2 = get(srcs, obs_in, **kw)
                same = np.array_equal(np.asarray(again), np.asarray(again2), equal_nan=True)
                if not same:
                    fails.append({"key": f"second-call-differs:{fault}", "desc": "after a failed call, two further calls returned different results", "replay": {"fault": fault, "field": field}})
            except Exception as e2:  # noqa: BLE001
                fails.append({"key": f"failed-call-remembered:{fault}", "desc": f"get{field} failed once because a custom field function misbehaved at that invocation; the repeated call raises {type(e2).__name__} although the function now answers",
                              "replay": {"fault": fault, "field": field, "first_error": err, "second_error": type(e2).__name__}})
        if err is None and res is not None and not fault.startswith("custom-"):
            with warnings.catch_warnings():
                warnings.simplefilter("ignore")
                res2 = get(srcs, obs_in, **kw)
            if not np.array_equal(np.asarray(res), np.asarray(res2), equal_nan=True):
                fails.append({"key": f"second-call-differs:{fault}", "desc": "calling again returned a different result",
                              "replay": {"fault": fault, "field": field}})
    # minimal calls: ONE source of its kind (alone or next to sources of other classes), static, evaluated at exactly ONE point
    # (bare position or single-pixel Sensor) - shortcuts that skip a tile/repeat copy hand the object's own arrays to the kernel
    for i in range(max(len(CLASSES) + 2, n // 3)):
        nps = np.random.default_rng(rng.randrange(2**31))
        cls = (CLASSES + ["Tetrahedron", "Tetrahedron"])[i % (len(CLASSES) + 2)]
        src = make(cls, nps)
        if cls == "Tetrahedron":
            v = np.array(src.vertices)
            if np.linalg.det(v[1:] - v[0]) > 0:  # make it left-handed: check_chirality reorders such vertices in its input
                src.vertices = v[[0, 1, 3, 2]]
        others = [make(c, nps) for c in rng.sample([c for c in CLASSES if c != cls], rng.choice([0, 0, 1, 2]))]
        obs = far_points(nps, 1, lo=3, hi=6)[0] if i % 2 else magpy.Sensor(position=far_points(nps, 1, lo=3, hi=6)[0])
        srcs = [src] + others
        rng.shuffle(srcs)
        objs = all_objs(srcs + ([obs] if not isinstance(obs, np.ndarray) else []))
        before = [snap_obj(o) for o in objs]
        field = rng.choice(["B", "H"])
        import warnings
        with warnings.catch_warnings():
            warnings.simplefilter("ignore")
            r1 = getattr(magpy, "get" + field)(srcs, obs)
            after = [snap_obj(o) for o in objs]
            r2 = getattr(magpy, "get" + field)(srcs, obs)
        done += 1
        kinds["minimal:" + cls] = kinds.get("minimal:" + cls, 0) + 1
        changed = [(type(o).__name__, k) for o, b, a in zip(objs, before, after) for k in b if b[k] != a.get(k)]
        if changed:
            fails.append({"key": f"mutation:minimal-call:{sorted(set(k for _, k in changed))[0]}", "desc": f"get{field} of a single static {cls} at one point changed {sorted(set(changed))[:4]}",
                          "replay": {"class": cls, "field": field, "changed": sorted(set(changed))[:8], "others": [type(o).__name__ for o in others]}})
        elif not np.array_equal(np.asarray(r1), np.asarray(r2), equal_nan=True):
            fails.append({"key": "second-call-differs:minimal-call", "desc": "calling again returned a different result", "replay": {"class": cls, "field": field}})
    # caller-owned arrays through the functional interface and the core functions (float64 ndarrays, stacks of n >= 2)
    from oracles.sources import params
    n_dict = 0
    for i in range(max(10, n // 3)):
        nps = np.random.default_rng(rng.randrange(2**31))
        cls = CLASSES[i % len(CLASSES)]
        k = rng.choice([2, 3])
        arrays = {}
        for _ in range(k):
            for a, v in params(cls, nps).items():
                if a == "faces":
                    continue
                arrays.setdefault(a, []).append(np.asarray(v, float))
        if cls == "TriangularMesh":
            import magpylib as _m
            meshes = [_m.magnet.TriangularMesh(**params(cls, nps)).mesh.copy() for _ in range(k)]
            arrays = {"mesh": meshes, "polarization": arrays["polarization"]}
        if cls == "Tetrahedron":  # make some of them left-handed
            for vtx in arrays["vertices"]:
                if rng.random() < 0.7:
                    vtx[[2, 3]] = vtx[[3, 2]]
        try:
            stacked = {a: np.array(v, dtype=float) for a, v in arrays.items()}
        except ValueError:
            continue
        obs = far_points(nps, k, lo=4, hi=8)
        pos = nps.uniform(-1, 1, (k, 3))
        callers = {**stacked, "observers": obs, "position": pos}
        hashes = {a: v.tobytes() for a, v in callers.items()}
        field = rng.choice(["B", "H", "J", "M"])
        try:
            import warnings
            with warnings.catch_warnings():
                warnings.simplefilter("ignore")
                getattr(magpy, "get" + field)(cls, obs, position=pos, **stacked)
        except Exception as e:  # noqa
            kinds[f"dict:{cls}:{type(e).__name__}"] = kinds.get(f"dict:{cls}:{type(e).__name__}", 0) + 1
        n_dict += 1
        changed = [a for a, v in callers.items() if v.tobytes() != hashes[a]]
        if changed:
            fails.append({"key": f"caller-array-mutated:{cls}:{changed[0]}", "desc": f"get{field}('{cls}', ...) modified the caller's array(s) {changed}",
                          "replay": {"class": cls, "field": field, "changed": changed, "n": k}})
    # a user-defined source whose field function hands out an array it KEEPS (a memoised constant, a lookup table), with a
    # non-unit orientation and a path: the library may read that array, never write to it, and repeated calls agree
    for trial in range(max(3, n // 12)):
        nps = np.random.default_rng(rng.randrange(2**31))
        npts = rng.choice([1, 3, 4])
        plen = rng.choice([1, 2, 3])
        table = {}

        def ff(field, observers, table=table):
            key = (field, len(observers))
            if key not in table:
                table[key] = np.arange(3.0 * len(observers)).reshape(-1, 3) * (1.0 if field == "B" else 2.0) + 0.25
            return table[key]

        cs = magpy.misc.CustomSource(field_func=ff, position=nps.uniform(-1, 1, (plen, 3)), orientation=R.random(plen, rng=nps))
        other = make(rng.choice(CLASSES), nps)
        obs = far_points(nps, npts, lo=4, hi=8)
        X = rng.choice(["B", "H"])
        calls = [lambda: getattr(magpy, "get" + X)(cs, obs), lambda: getattr(cs, "get" + X)(obs), lambda: getattr(magpy, "get" + X)([other, cs], obs, sumup=True),
                 lambda: getattr(magpy, "get" + X)(magpy.Collection(cs.copy(), other.copy()), obs)]
        f_ = rng.choice(calls[:3])
        r1 = np.array(f_())
        kept = {k_: v_.copy() for k_, v_ in table.items()}
        r2 = np.array(f_())
        try:
            getattr(magpy, "get" + X)(cs, obs, output="xml")
        except Exception:  # noqa: BLE001
            pass
        r3 = np.array(f_())
        done += 1
        kinds["custom-memoised-array"] = kinds.get("custom-memoised-array", 0) + 1
        changed_tbl = [k_ for k_ in kept if not np.array_equal(kept[k_], table[k_])]
        if changed_tbl or not (np.array_equal(r1, r2) and np.array_equal(r1, r3)):
            fails.append({"key": "mutation:custom-source:returned-array", "desc": f"get{X} wrote into the array a CustomSource's field function returned and keeps (changed tables: {changed_tbl}); "
                          f"repeated identical calls equal: {bool(np.array_equal(r1, r2) and np.array_equal(r1, r3))}", "replay": {"field": X, "path_length": plen, "observers": npts}})
    return fails, {"c08_calls": done, "c08_dict_interface_calls": n_dict, "c08_fault_kinds": kinds}
