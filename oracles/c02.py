"""C02 failing-input search on the real code: residuals B - mu0*H - J and J - mu0*M for every class at
stratified observers (far, inside, exactly on faces / edges / corners / hull / bases / segment surfaces),
J against the geometric inside test where it is elementary, and the attribute relation J = mu0*M."""
import numpy as np
from scipy.spatial.transform import Rotation as R

from oracles.sources import CLASSES, MAGNETS, interior_points, make


def special_points(src, cls, rng, nps):
    """local-frame observers incl. points exactly on the boundary sets of the body"""
    pts = [nps.uniform(-3, 3, 3), nps.uniform(-0.2, 0.2, 3)]
    if cls == "Cuboid":
        a = src.dimension / 2
        for _ in range(6):
            p = nps.uniform(-1.3, 1.3, 3) * a
            for ax in rng.sample(range(3), rng.choice([1, 2, 3])):
                p[ax] = rng.choice([-1, 1]) * a[ax]
            pts.append(p)
    elif cls == "Cylinder":
        r0, h = src.dimension[0] / 2, src.dimension[1] / 2
        for _ in range(6):
            phi = nps.uniform(0, 2 * np.pi)
            k = rng.choice(["edge", "hull", "base", "axis"])
            r = r0 if k in ("edge", "hull") else (0 if k == "axis" else nps.uniform(0, r0))
            z = (rng.choice([-1, 1]) * h) if k in ("edge", "base") else nps.uniform(-h, h)
            pts.append(np.array([r * np.cos(phi), r * np.sin(phi), z]))
    elif cls == "CylinderSegment":
        r1, r2, h, p1, p2 = src.dimension
        for _ in range(8):
            k = rng.choice(["top", "rin", "rout", "phi1", "phi2", "in", "edge"])
            r = {"rin": r1, "rout": r2}.get(k, nps.uniform(r1, r2))
            ph = np.radians({"phi1": p1, "phi2": p2}.get(k, nps.uniform(p1, p2)))
            z = h / 2 * rng.choice([-1, 1]) if k in ("top", "edge") else nps.uniform(-h / 2, h / 2)
            if k == "edge":
                r = rng.choice([r1, r2])
            pts.append(np.array([r * np.cos(ph), r * np.sin(ph), z]))
    elif cls == "Sphere":
        for _ in range(4):
            d = nps.normal(size=3)
            pts.append(d / np.linalg.norm(d) * src.diameter / 2 * rng.choice([1, 1, 0.5, 1.5]))
    elif cls in ("Tetrahedron", "TriangularMesh"):
        v = np.asarray(src.vertices)
        pts.append(v.mean(axis=0))
        pts.append(v.mean(axis=0) + nps.uniform(-0.05, 0.05, 3))
    from oracles.sources import interior_points
    ip = interior_points(cls, src, nps, 3)
    if ip is not None:
        pts += list(ip)
    return np.array(pts)


def sweep(ctx, n):
    import magpylib as magpy
    from magpylib import mu_0

    rng, fails, done, per = ctx.rng, [], 0, {}
    nonfinite_rows = 0
    for i in range(n):
        nps = np.random.default_rng(rng.randrange(2**31))
        cls = CLASSES[i % len(CLASSES)]
        src = make(cls, nps)
        local = special_points(src, cls, rng, nps)
        pos, ori = nps.uniform(-2, 2, 3), (R.random(rng=nps) if rng.random() < 0.5 else R.identity())
        src.position, src.orientation = pos, ori
        obs = ori.apply(local) + pos if rng.random() < 0.5 else local
        if obs is local:
            src.position, src.orientation = (0, 0, 0), None
        B, H, J, M = (getattr(magpy, "get" + f)(src, obs) for f in "BHJM")
        sc = float(np.max(np.abs(J))) + float(np.max(np.abs(B))) + 1e-300
        done += len(obs)
        per[cls] = per.get(cls, 0) + len(obs)
        # rows where B or H is not finite are C15's business (recorded there); the relation is checked on the finite rows
        fin = np.isfinite(B).all(axis=1) & np.isfinite(H).all(axis=1)
        nonfinite_rows += int((~fin).sum())
        sc = float(np.max(np.abs(J))) + float(np.max(np.abs(B[fin]))) + 1e-300 if fin.any() else 1.0
        r1 = np.where(fin, np.abs(np.where(fin[:, None], B - mu_0 * H - J, 0.0)).max(axis=1), 0.0)
        r2 = np.abs(J - mu_0 * M).max(axis=1)
        badrow = np.where((r1 > 1e-9 * sc) | (r2 > 1e-12 * sc) | ~np.isfinite(r2))[0]
        if len(badrow):
            k = int(badrow[0])
            fails.append({"key": f"bhjm-consistency:{cls}", "desc": f"B != mu0*H + J (residual {r1[k]:.3g}) or J != mu0*M (residual {r2[k]:.3g})",
                          "replay": {"class": cls, "source": {a: np.asarray(getattr(src, a)).tolist() for a in ("dimension", "diameter", "vertices", "polarization") if getattr(src, a, None) is not None},
                                     "observer_local": local[k].tolist(), "B": B[k].tolist(), "H": H[k].tolist(), "J": J[k].tolist()}})
        if cls not in MAGNETS and np.any(J != 0):
            fails.append({"key": f"j-nonzero:{cls}", "desc": "J/M not identically zero for a current/dipole/triangle", "replay": {"class": cls}})
        if cls in ("Tetrahedron", "TriangularMesh", "CylinderSegment") and obs is local:
            ip = interior_points(cls, src, nps, 8 if cls == "CylinderSegment" else 4)
            Jin = magpy.getJ(src, ip)
            if not np.allclose(Jin, src.polarization):
                fails.append({"key": f"j-indicator:{cls}", "desc": "J is not the polarization at a point inside the body", "replay": {"class": cls, "points": ip.tolist(), "J": Jin.tolist(),
                              "geometry": np.asarray(src.vertices if getattr(src, "vertices", None) is not None else src.dimension).tolist()}})
        # J is pol (observer frame) strictly inside, 0 strictly outside — classes with an elementary inside test, local frame
        if cls in ("Cuboid", "Cylinder", "Sphere") and obs is local:
            if cls == "Cuboid":
                q = np.abs(local) / (src.dimension / 2)
                inside, outside = np.all(q < 1 - 1e-9, axis=1), np.any(q > 1 + 1e-9, axis=1)
            elif cls == "Cylinder":
                rr, zz = np.hypot(local[:, 0], local[:, 1]) / (src.dimension[0] / 2), np.abs(local[:, 2]) / (src.dimension[1] / 2)
                inside, outside = (rr < 1 - 1e-9) & (zz < 1 - 1e-9), (rr > 1 + 1e-9) | (zz > 1 + 1e-9)
            else:
                rr = np.linalg.norm(local, axis=1) / (src.diameter / 2)
                inside, outside = rr < 1 - 1e-9, rr > 1 + 1e-9
            if not (np.allclose(J[inside], src.polarization) and np.all(J[outside] == 0)):
                fails.append({"key": f"j-indicator:{cls}", "desc": "J is not polarization inside / zero outside", "replay": {"class": cls}})
    # several bodies of the same geometry with different polarizations evaluated jointly: each J is its own polarization
    for i in range(max(6, n // 20)):
        nps = np.random.default_rng(rng.randrange(2**31))
        mcls = MAGNETS[i % len(MAGNETS)]
        proto = make(mcls, nps)
        if mcls == "CylinderSegment":
            r1, r2, h, p1, p2 = proto.dimension
            c0 = np.array([(r1 + r2) / 2 * np.cos(np.radians((p1 + p2) / 2)), (r1 + r2) / 2 * np.sin(np.radians((p1 + p2) / 2)), 0.0])
        else:
            c0 = np.asarray(proto.vertices).mean(axis=0) if getattr(proto, "vertices", None) is not None else np.zeros(3)
        group = [proto.copy(polarization=nps.uniform(-1, 1, 3), position=(5.0 * j, 0, 0)) for j in range(rng.choice([2, 3]))]
        obs = np.array([c0 + (5.0 * j, 0, 0) for j in range(len(group))])
        J = magpy.getJ(group, obs)
        B, H = magpy.getB(group, obs), magpy.getH(group, obs)
        done += len(obs)
        for j, g in enumerate(group):
            if not np.allclose(J[j, j], g.polarization, rtol=1e-12):
                fails.append({"key": f"j-own-polarization:{mcls}", "desc": "in a joint call J inside a body is not that body's own polarization",
                              "replay": {"class": mcls, "source_index": j, "J": J[j, j].tolist(), "polarization": np.asarray(g.polarization).tolist()}})
                break
            if not np.allclose(B[j, j], mu_0 * H[j, j] + g.polarization, atol=1e-9 * (np.abs(B[j, j]).max() + 1)):
                fails.append({"key": f"bhjm-consistency-joint:{mcls}", "desc": "in a joint call B != mu0*H + polarization inside a body", "replay": {"class": mcls, "source_index": j}})
                break
    # rows of box meshes with equal face counts in adversarial arrangements (same mesh re-appearing after another one,
    # concentric sizes): jointly evaluated, at interior lattice points and outside points, every body alone gives the same
    from oracles.sources import lattice_points, mesh_row
    for i in range(max(3, n // 40)):
        nps = np.random.default_rng(rng.randrange(2**31))
        kind, meshes, cubs, dims, poss, oris = mesh_row(rng, nps, rotate=True)
        for j, (ms, d, q, o) in enumerate(zip(meshes, dims, poss, oris)):
            loc = np.concatenate([lattice_points(d, nps, 5), nps.uniform(0.55, 0.9, (2, 3)) * d * nps.choice([-1, 1], (2, 3))])
            obs = (o.apply(loc) if o is not None else loc) + q
            inside = np.arange(len(loc)) < 5
            Jj, Bj, Hj = magpy.getJ(meshes, obs)[j], magpy.getB(meshes, obs)[j], magpy.getH(meshes, obs)[j]
            done += len(obs)
            want = np.where(inside[:, None], ms.polarization if o is None else o.apply(ms.polarization), 0.0)
            if not np.allclose(Jj, want, atol=1e-12) or not np.allclose(Bj, mu_0 * Hj + want, atol=1e-9):
                fails.append({"key": "bhjm-consistency-joint:TriangularMesh", "desc": f"row of box meshes ({kind}): J / B - mu0*H of body {j} in the joint call is not its own polarization inside and 0 outside",
                              "replay": {"arrangement": kind, "source_index": j, "dims": [np.asarray(x).tolist() for x in dims], "observers": obs.tolist(), "J": Jj.tolist()}})
                break
    from oracles.sources import lattice_box_case
    for _ in range(max(2, n // 60)):
        nps = np.random.default_rng(rng.randrange(2**31))
        mesh, cub, obs = lattice_box_case(rng, nps)
        J, B, H = magpy.getJ(mesh, obs), magpy.getB(mesh, obs), magpy.getH(mesh, obs)
        done += len(obs)
        if not np.allclose(J, mesh.polarization, atol=1e-12) or not np.allclose(B, mu_0 * H + mesh.polarization, atol=1e-9):
            k = int(np.argmax(np.abs(J - mesh.polarization).max(axis=1) + np.abs(B - mu_0 * H - mesh.polarization).max(axis=1)))
            fails.append({"key": "j-indicator:TriangularMesh", "desc": "J is not the polarization (or B != mu0*H + J) at an interior grid point of a box mesh",
                          "replay": {"dimension": np.asarray(cub.dimension).tolist(), "observer": obs[k].tolist(), "J": J[k].tolist(), "polarization": np.asarray(mesh.polarization).tolist()}})
    # truthful in_out overrides (the property's quantifier): 'inside' for observers strictly inside the body, 'outside' for
    # observers well outside must give the four fields of 'auto' — every magnet class (for four of them the keyword is dropped)
    import warnings as _w
    for i in range(max(6, n // 20)):
        nps = np.random.default_rng(rng.randrange(2**31))
        mcls = MAGNETS[i % len(MAGNETS)]
        s = make(mcls, nps)
        ip = interior_points(mcls, s, nps, 3)
        if ip is None:
            continue
        ext = float(np.max(np.abs(np.asarray(s.vertices if getattr(s, "vertices", None) is not None else
                                             (s.dimension[:3] if mcls != "Sphere" else [s.diameter])))))
        far = nps.uniform(2, 5, (3, 3)) * ext * nps.choice([-1, 1], (3, 3))
        for io, obs in (("inside", ip), ("outside", far)):
            with _w.catch_warnings():
                _w.simplefilter("ignore")
                auto = [getattr(magpy, "get" + f)(s, obs) for f in "BHJM"]
                forced = [getattr(magpy, "get" + f)(s, obs, in_out=io) for f in "BHJM"]
            done += len(obs)
            sc = max(float(np.max(np.abs(auto[0]))), float(np.max(np.abs(auto[2]))), 1e-300)
            bad = [f for f, a, b in zip("BHJM", auto, forced) if not np.allclose(a, b, rtol=1e-9, atol=1e-12 * sc * (1 if f in "BJ" else 1 / mu_0), equal_nan=True)]
            Bf, Hf, Jf, Mf = forced
            if not bad and not (np.allclose(Bf, mu_0 * Hf + Jf, rtol=1e-9, atol=1e-9 * sc) and np.allclose(Jf, mu_0 * Mf, rtol=1e-12, atol=1e-300)):
                bad = ["B-mu0*H-J"]
            if bad:
                fails.append({"key": f"in_out-truthful:{mcls}:{io}", "desc": f"truthful in_out='{io}' changes field(s) {bad} with respect to 'auto' (or breaks B = mu0*H + J)",
                              "replay": {"class": mcls, "in_out": io, "observers": np.asarray(obs).tolist(),
                                         "geometry": np.asarray(s.vertices if getattr(s, "vertices", None) is not None else (s.dimension if mcls != "Sphere" else s.diameter)).tolist(),
                                         "polarization": np.asarray(s.polarization).tolist()}})
                break
    # attribute relation under assignment histories
    attr_bad = None
    nps = np.random.default_rng(rng.randrange(2**31))
    for cls in MAGNETS:
        s = make(cls, nps)
        for _ in range(4):
            if rng.random() < 0.5:
                s.polarization = nps.uniform(-1, 1, 3)
            else:
                s.magnetization = nps.uniform(-1e6, 1e6, 3)
            rel = np.max(np.abs(s.polarization - mu_0 * s.magnetization)) / np.max(np.abs(s.polarization))
            if rel > 1e-14:
                attr_bad = (cls, float(rel))
    if attr_bad:
        fails.append({"key": "mu0-literal:BaseMagnet-setters",
                      "desc": f"obj.polarization != magpylib.mu_0 * obj.magnetization (relative {attr_bad[1]:.2e}): the setters convert with the literal 4*pi*1e-7",
                      "replay": {"class": attr_bad[0], "relative_difference": attr_bad[1],
                                 "reproduce": "c = magpylib.magnet.Cuboid(polarization=(0,0,1)); c.polarization[2] - magpylib.mu_0*c.magnetization[2]"}})
    # assignments that end in an exception (rejected values; warnings escalated to errors, as under `python -W error`):
    # afterwards polarization and magnetization must still describe the same excitation, and getJ/getM must follow them
    import warnings
    cand = [nps.uniform(-1, 1, 3) * 1e-4, nps.uniform(-1, 1, 3) * 500.0, nps.uniform(-1, 1, 3), nps.uniform(-1e6, 1e6, 3), (1, 2), "x", None, np.nan * np.ones(3), (1, 2, 3, 4)]
    for cls in MAGNETS:
        s = make(cls, nps)
        ip = interior_points(cls, s, nps, 1)
        for _ in range(8):
            attr, val = rng.choice(["polarization", "magnetization"]), rng.choice(cand)
            with warnings.catch_warnings():
                warnings.simplefilter(rng.choice(["error", "ignore"]))
                try:
                    setattr(s, attr, val)
                    outcome = "ok"
                except Exception as e:  # noqa: BLE001
                    outcome = type(e).__name__
            done += 1
            P, Mg = s.polarization, s.magnetization
            if (P is None) != (Mg is None):
                consistent = False
            elif P is None:
                consistent = True
            else:
                # 1e-8: the setters convert with the literal 4*pi*1e-7 (4.5e-10 off the exported mu_0) — that is the
                # separately recorded finding mu0-literal:BaseMagnet-setters, not this check's business
                consistent = bool(np.allclose(P, mu_0 * np.asarray(Mg), rtol=1e-8, atol=0, equal_nan=True))
            if consistent and P is not None and ip is not None and np.all(np.isfinite(P)):
                with warnings.catch_warnings():
                    warnings.simplefilter("ignore")
                    Jm, Mm = magpy.getJ(s, ip).reshape(-1, 3)[0], magpy.getM(s, ip).reshape(-1, 3)[0]
                consistent = bool(np.allclose(Jm, P, rtol=1e-12, atol=0) and np.allclose(Mm, Mg, rtol=1e-8, atol=0))
            if not consistent:
                fails.append({"key": f"excitation-pair-inconsistent:{attr}:{'raised' if outcome != 'ok' else 'ok'}",
                              "desc": f"after `{attr} = {val!r}` ({outcome}) polarization={P!r} and magnetization={Mg!r} (or getJ/getM inside the body) no longer describe the same excitation",
                              "replay": {"class": cls, "attribute": attr, "value": repr(val), "outcome": outcome, "polarization": repr(P), "magnetization": repr(Mg)}})
                break
    # the caller keeps using the array it assigned (one scratch buffer for several magnets, `arr *= 0.5` afterwards): the
    # object's polarization / magnetization views and getJ / getM must keep describing the excitation that was assigned
    for cls in MAGNETS:
        s = make(cls, nps)
        ip = interior_points(cls, s, nps, 1)
        for attr, scale in (("polarization", 1.0), ("magnetization", 1e6)):
            buf = np.ascontiguousarray(nps.uniform(0.3, 1, 3) * scale, dtype=np.float64)
            setattr(s, attr, buf)
            P0, M0 = np.array(s.polarization, dtype=float), np.array(s.magnetization, dtype=float)
            assigned = buf.copy()
            buf *= -0.5
            buf[rng.randrange(3)] = 7.0 * scale
            done += 1
            P, Mg = np.asarray(s.polarization, dtype=float), np.asarray(s.magnetization, dtype=float)
            ok = bool(np.array_equal(P, P0) and np.array_equal(Mg, M0) and np.allclose(P, mu_0 * Mg, rtol=1e-8, atol=0))
            if ok and ip is not None:
                with warnings.catch_warnings():
                    warnings.simplefilter("ignore")
                    Jm, Mm = magpy.getJ(s, ip).reshape(-1, 3)[0], magpy.getM(s, ip).reshape(-1, 3)[0]
                ok = bool(np.allclose(Jm, P0, rtol=1e-12, atol=0) and np.allclose(Mm, M0, rtol=1e-8, atol=0))
            if not ok:
                fails.append({"key": f"excitation-follows-callers-array:{attr}",
                              "desc": f"{cls}: after `{attr} = arr` the caller changed `arr` in place; the object's polarization / magnetization (or getJ / getM inside the body) "
                                      f"changed with it or no longer agree: polarization {P0.tolist()} -> {P.tolist()}, magnetization {M0.tolist()} -> {Mg.tolist()}",
                              "replay": {"class": cls, "attribute": attr, "assigned": assigned.tolist(), "array_afterwards": buf.tolist(),
                                         "polarization": P.tolist(), "magnetization": Mg.tolist()}})
                break
    # ONE large call: a finely triangulated sphere (320 faces) asked at ~8000 / ~25000 observers inside its bounding box
    # (observers x faces beyond a few million pairs — where an implementation would start to chunk its work): J is the
    # polarization well inside the inscribed sphere, 0 outside the circumscribed one, and B = mu0 H + J at every row
    import magpylib as magpy
    from scipy.spatial import ConvexHull
    nps = np.random.default_rng(rng.randrange(2**31))
    ico = nps.normal(size=(162, 3))
    ico /= np.linalg.norm(ico, axis=1)[:, None]
    hull_ = ConvexHull(ico)
    polb = nps.uniform(-1, 1, 3)
    with warnings.catch_warnings():
        warnings.simplefilter("ignore")
        ball = magpy.magnet.TriangularMesh(vertices=ico, faces=hull_.simplices, polarization=polb, check_selfintersecting="ignore")
        tri_ = ico[hull_.simplices]
        nrm_ = np.cross(tri_[:, 1] - tri_[:, 0], tri_[:, 2] - tri_[:, 0])
        r_in = float(np.min(np.abs(np.einsum("ij,ij->i", nrm_ / np.linalg.norm(nrm_, axis=1)[:, None], tri_[:, 0]))))  # inscribed radius of the hull
        for nobs in ((8000,) if ctx.tier == "quick" else (8000, 25000)):
            pts = nps.uniform(-0.99, 0.99, (nobs, 3))
            rr = np.linalg.norm(pts, axis=1)
            Jb, Bb, Hb = magpy.getJ(ball, pts), magpy.getB(ball, pts), magpy.getH(ball, pts)
            done += nobs
            per["large-call"] = per.get("large-call", 0) + nobs
            surely_in, surely_out = rr < 0.98 * r_in, rr > 1.0 + 1e-9
            bad_in = int(np.sum(~np.all(np.isclose(Jb[surely_in], polb, rtol=1e-12, atol=0), axis=1)))
            bad_out = int(np.sum(np.any(Jb[surely_out] != 0, axis=1)))
            cons = np.abs(Bb - (magpy.mu_0 * Hb + Jb)).max()
            if bad_in or bad_out or not cons < 1e-9 * np.max(np.abs(polb)):
                fails.append({"key": "j-indicator:TriangularMesh:large-call", "desc": f"a {len(hull_.simplices)}-face sphere mesh asked at {nobs} observers in one call: J differs from the polarization at "
                              f"{bad_in} of {int(surely_in.sum())} observers well inside and is non-zero at {bad_out} of {int(surely_out.sum())} observers outside the circumscribed sphere; max |B - mu0 H - J| = {cons:.2g}",
                              "replay": {"faces": int(len(hull_.simplices)), "observers": nobs, "bad_inside": bad_in, "bad_outside": bad_out}})
    return fails, {"c02_rows": done, "c02_per_class": per, "c02_nonfinite_rows_left_to_C15": nonfinite_rows}
