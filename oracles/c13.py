"""C13 failing-input search: whole body vs sum of parts / alternative classes on the real code"""
import warnings

import numpy as np
from scipy.spatial.transform import Rotation as R

from oracles.sources import far_points


def sweep(ctx, n):
    import magpylib as magpy
    from magpylib import mu_0

    rng, fails, done, kinds = ctx.rng, [], 0, {}
    KINDS = ["cuboid-split", "cuboid-mesh-tetra-triangles", "cylinder-segments", "sphere-dipole", "mesh-converters", "polyline-circle",
             "polyline-split", "segment-angle-turns", "cuboid-mesh-lattice", "mesh-row", "vertex-touching", "glued", "triangle-split"]

    def rel(a, b):
        return float(np.max(np.abs(a - b)) / (np.max(np.abs(b)) + 1e-300))

    with warnings.catch_warnings():
        warnings.simplefilter("ignore")
        for i in range(n):
            nps = np.random.default_rng(rng.randrange(2**31))
            kind = KINDS[i % len(KINDS)]
            pol = nps.uniform(-1, 1, 3)
            pos, ori = nps.uniform(-1, 1, 3), R.random(rng=nps)
            err, field = 0.0, rng.choice(["B", "H"])
            get = magpy.getB if field == "B" else magpy.getH

            def place(objs):
                c = magpy.Collection(*objs)
                c.rotate(ori, anchor=0).move(pos)
                return c

            if kind == "cuboid-split":
                dim = nps.uniform(0.5, 2, 3)
                ax = rng.randrange(3)
                cut = nps.uniform(0.2, 0.8)
                d1, d2 = dim.copy(), dim.copy()
                d1[ax], d2[ax] = dim[ax] * cut, dim[ax] * (1 - cut)
                p1, p2 = np.zeros(3), np.zeros(3)
                p1[ax], p2[ax] = -dim[ax] / 2 + d1[ax] / 2, dim[ax] / 2 - d2[ax] / 2
                whole = place([magpy.magnet.Cuboid(dimension=dim, polarization=pol)])
                parts = place([magpy.magnet.Cuboid(dimension=d1, polarization=pol, position=p1), magpy.magnet.Cuboid(dimension=d2, polarization=pol, position=p2)])
                local = np.concatenate([far_points(nps, 3, lo=1.5, hi=5), np.array([p1 * 0.9 + nps.uniform(-0.05, 0.05, 3) * d1, p2 + nps.uniform(-0.1, 0.1, 3) * d2])])
                obs = ori.apply(local) + pos
                err = rel(get(parts, obs), get(whole, obs))
                # the same body as an n x m x k grid of cells (cuboid_grid_partition / cuboid_grid_partition_wrapper): all four
                # fields; observers far away, inside randomly chosen cells, and close to (not on) internal cut planes
                edges = [np.concatenate([[-0.5], np.sort(nps.uniform(-0.4, 0.4, rng.randrange(3))), [0.5]]) * dim[a_] for a_ in range(3)]
                if all(np.min(np.diff(e_)) > 0.02 for e_ in edges):
                    cells = [magpy.magnet.Cuboid(dimension=(x1 - x0, y1 - y0, z1 - z0), polarization=pol, position=((x0 + x1) / 2, (y0 + y1) / 2, (z0 + z1) / 2))
                             for x0, x1 in zip(edges[0][:-1], edges[0][1:]) for y0, y1 in zip(edges[1][:-1], edges[1][1:]) for z0, z1 in zip(edges[2][:-1], edges[2][1:])]
                    grid = place(cells)
                    inner = []
                    for _ in range(3):
                        j_ = [rng.randrange(len(e_) - 1) for e_ in edges]
                        inner.append([e_[k_] + nps.uniform(0.1, 0.9) * (e_[k_ + 1] - e_[k_]) for e_, k_ in zip(edges, j_)])
                    near = np.array(inner[0])
                    a_ = rng.randrange(3)
                    near[a_] = edges[a_][rng.randrange(len(edges[a_]))] + rng.choice([-1, 1]) * 1e-6 * dim[a_]
                    gobs = ori.apply(np.concatenate([far_points(nps, 2, lo=1.5, hi=5), np.array(inner), near[None, :]])) + pos
                    for g_ in (magpy.getB, magpy.getH, magpy.getJ, magpy.getM):
                        ref_ = g_(whole, gobs)
                        if np.max(np.abs(ref_)) > 0:
                            err = max(err, rel(g_(grid, gobs), ref_))
            elif kind == "cuboid-mesh-tetra-triangles":
                # in metres, millimetres, micrometres … (the same body in small numbers: volumes and determinants of the parts are tiny)
                lsc = 10.0 ** rng.choice([0, 0, -3, -4, -6, 2])
                dim = nps.uniform(0.5, 2, 3) * lsc
                cub = magpy.magnet.Cuboid(dimension=dim, polarization=pol)
                v = np.array([[x, y, z] for x in (-1, 1) for y in (-1, 1) for z in (-1, 1)]) * dim / 2
                mesh = magpy.magnet.TriangularMesh.from_ConvexHull(points=v, polarization=pol)
                tets = [[0, 1, 3, 7], [0, 1, 5, 7], [0, 2, 3, 7], [0, 2, 6, 7], [0, 4, 5, 7], [0, 4, 6, 7]]
                tet = magpy.Collection(*[magpy.magnet.Tetrahedron(vertices=v[t], polarization=pol) for t in tets])
                tris = mesh.to_TriangleCollection()
                obs = np.concatenate([far_points(nps, 3, lo=1.5, hi=5) * lsc, nps.uniform(-0.3, 0.3, (2, 3)) * dim])
                ref = get(cub, obs)
                err = max(rel(get(mesh, obs), ref), rel(get(tet, obs), ref), rel(magpy.getH(tris, obs), magpy.getH(cub, obs)))
            elif kind == "cylinder-segments":
                r2, h = nps.uniform(0.5, 1.5), nps.uniform(0.5, 2)
                r1 = 0 if rng.random() < 0.5 else nps.uniform(0.1, 0.4) * r2
                cuts = sorted(nps.uniform(0, 360, rng.choice([2, 3, 4])))
                whole = magpy.magnet.CylinderSegment(dimension=(r1, r2, h, 0, 360), polarization=pol)
                segs = [magpy.magnet.CylinderSegment(dimension=(r1, r2, h, a, b), polarization=pol) for a, b in zip(cuts, cuts[1:] + [cuts[0] + 360])]
                obs = np.concatenate([far_points(nps, 3, lo=2.2, hi=5), [[0.01, 0.02, 0.03]] if r1 == 0 else [[(r1 + r2) / 2 * np.cos(0.3 + np.radians(cuts[0])), (r1 + r2) / 2 * np.sin(0.3 + np.radians(cuts[0])), 0.1 * h]]])
                ref = get(whole, obs)
                err = rel(get(magpy.Collection(*segs), obs), ref)
                if r1 == 0:
                    err = max(err, rel(get(magpy.magnet.Cylinder(dimension=(2 * r2, h), polarization=pol), obs), ref))
                else:
                    zc = nps.uniform(0.2, 0.8) * h
                    ax = [magpy.magnet.CylinderSegment(dimension=(r1, r2, zc, 0, 360), polarization=pol, position=(0, 0, -h / 2 + zc / 2)),
                          magpy.magnet.CylinderSegment(dimension=(r1, r2, h - zc, 0, 360), polarization=pol, position=(0, 0, h / 2 - (h - zc) / 2))]
                    err = max(err, rel(get(magpy.Collection(*ax), obs[:3]), ref[:3]))
                # the ring cut at round angles written from -360 or up to +360 degrees (a face at exactly -360 / +360), observers exactly
                # on the negative x axis and on the y axes (diametrically opposite to / at right angles with that face), inside and outside
                for lo_ in (-360.0, 0.0):
                    mids = sorted(float(v_) for v_ in np.round(nps.uniform(lo_ + 20, lo_ + 340, rng.choice([1, 2, 3])) / 5) * 5 + 1.0)
                    cuts2 = [lo_] + mids + [lo_ + 360.0]
                    segs2 = [magpy.magnet.CylinderSegment(dimension=(r1, r2, h, a_, b_), polarization=pol) for a_, b_ in zip(cuts2, cuts2[1:])]
                    rho = np.array([0.5 * (r1 + r2), 1.7 * r2, 0.5 * (r1 + r2), 2.4 * r2])
                    zz_ = np.array([0.2 * h, 0.3 * h, 1.4 * h, -0.8 * h])
                    obs2 = np.concatenate([np.stack([-rho, 0 * rho, zz_], axis=1), np.stack([0 * rho, rho, zz_], axis=1), np.stack([0 * rho, -rho, zz_], axis=1), [[1.9 * r2, 0.0, 0.4 * h]]])
                    err = max(err, rel(get(magpy.Collection(*segs2), obs2), get(whole, obs2)))
                # the same parts in ONE joint call (list, per-source output), proper segments listed before and after a full ring:
                # every part in the batch equals the part evaluated alone
                zc = nps.uniform(0.3, 0.7) * h
                ring = magpy.magnet.CylinderSegment(dimension=(max(r1, 0.2 * r2), r2, zc, 0, 360), polarization=pol, position=(0, 0, 2.5 * h))
                solid = magpy.magnet.CylinderSegment(dimension=(0, 0.5 * r2, zc, 0, 360), polarization=pol, position=(0, 0, -2.5 * h))
                parts = list(segs) + [ring, solid]
                rng.shuffle(parts)
                for p_ in parts[:2]:
                    p_.rotate_from_angax(float(nps.uniform(20, 160)), "z")
                joint = get(parts, obs, squeeze=False)[:, 0, 0]
                for j_, p_ in enumerate(parts):
                    err = max(err, rel(joint[j_], get(p_, obs)))
            elif kind == "segment-angle-turns":
                # the same angular range written one or two full turns away is the same body
                r2, h = nps.uniform(0.5, 1.5), nps.uniform(0.5, 2)
                r1 = nps.uniform(0.1, 0.6) * r2
                a = float(np.round(nps.uniform(-180, 120), 2))
                b = a + float(np.round(nps.uniform(30, 330), 2))
                k = rng.choice([-2, -1, 1, 2])
                s0 = magpy.magnet.CylinderSegment(dimension=(r1, r2, h, a, b), polarization=pol)
                s1 = magpy.magnet.CylinderSegment(dimension=(r1, r2, h, a + 360 * k, b + 360 * k), polarization=pol)
                ph = np.radians(a + (b - a) * np.array([0.03, 0.2, 0.5, 0.8, 0.97]))
                rr = (r1 + r2) / 2
                inner = np.stack([rr * np.cos(ph), rr * np.sin(ph), nps.uniform(-0.3, 0.3, 5) * h], axis=1)
                gap = np.radians(b + (a + 360 - b) * np.array([0.1, 0.5, 0.9]))
                outer = np.stack([rr * np.cos(gap), rr * np.sin(gap), nps.uniform(-0.3, 0.3, 3) * h], axis=1)
                obs = np.concatenate([far_points(nps, 3, lo=2.2, hi=5), inner, outer])
                err = max(rel(magpy.getB(s1, obs), magpy.getB(s0, obs)), rel(magpy.getH(s1, obs), magpy.getH(s0, obs)),
                          rel(magpy.getJ(s1, obs), magpy.getJ(s0, obs)))
            elif kind == "cuboid-mesh-lattice":
                # observers on a lattice commensurate with the body (coordinates in simple ratios): inside/outside
                # decisions of the mesh classes must not depend on such coincidences
                dim = np.array([rng.choice([1.0, 1.5, 2.0]) for _ in range(3)])
                size = dim.max()
                cub = magpy.magnet.Cuboid(dimension=dim, polarization=pol)
                v = np.array([[x, y, z] for x in (-1, 1) for y in (-1, 1) for z in (-1, 1)]) * dim / 2
                fc = np.array([[0, 1, 3], [0, 3, 2], [4, 6, 7], [4, 7, 5], [0, 4, 5], [0, 5, 1], [2, 3, 7], [2, 7, 6], [0, 2, 6], [0, 6, 4], [1, 5, 7], [1, 7, 3]])
                meshes = [magpy.magnet.TriangularMesh(vertices=v, faces=fc, polarization=pol), magpy.magnet.TriangularMesh.from_ConvexHull(points=v, polarization=pol)]
                nlat = rng.choice([10, 20, 40])
                ijk = nps.integers(1, nlat * 2, (700, 3))
                # lines on which the coordinates measured from the lowest corner are in ratio 1:2, 2:1, 1:1
                t = nps.integers(1, nlat, 60)
                ijk = np.concatenate([ijk, np.stack([2 * t, t, nps.integers(1, nlat, 60)], axis=1), np.stack([t, 2 * t, nps.integers(1, nlat, 60)], axis=1),
                                      np.stack([t, t, t], axis=1)])
                pts = -dim / 2 + ijk * size / nlat
                pts = pts[np.all(np.abs(pts) < dim / 2 * (1 - 1e-9), axis=1)]
                ref = magpy.getB(cub, pts)
                err = max(rel(magpy.getB(m, pts), ref) for m in meshes)
                err = max(err, max(rel(magpy.getJ(m, pts), magpy.getJ(cub, pts)) for m in meshes))
            elif kind == "mesh-row":
                # a row of boxes, once as Cuboids and once as TriangularMeshes with equal face counts (same mesh re-appearing
                # after a different one, concentric sizes ...): the two rows and the sums over single bodies agree for B, H, J
                from oracles.sources import lattice_points, mesh_row
                arrangement, meshes, cubs, dims, poss, oris = mesh_row(rng, nps, rotate=True)
                obs = []
                for d, q, o in zip(dims, poss, oris):
                    loc = np.concatenate([lattice_points(d, nps, 4), nps.uniform(-0.45, 0.45, (3, 3)) * d, nps.uniform(0.55, 1.2, (3, 3)) * d * nps.choice([-1, 1], (3, 3))])
                    obs.append((o.apply(loc) if o is not None else loc) + q)
                obs = np.concatenate(obs)
                for g in (magpy.getB, magpy.getH, magpy.getJ):
                    a, b = g(meshes, obs), g(cubs, obs)
                    single = np.array([g(ms, obs) for ms in meshes])
                    sc = np.max(np.abs(b)) + 1e-300
                    err = max(err, float(np.max(np.abs(a - b)) / sc), float(np.max(np.abs(a - single)) / sc),
                              float(np.max(np.abs(g(magpy.Collection(*[ms.copy() for ms in meshes]), obs) - b.sum(axis=0))) / sc))
            elif kind == "sphere-dipole":
                d = nps.uniform(0.5, 2)
                sph = magpy.magnet.Sphere(diameter=d, polarization=pol, position=pos)
                dip = magpy.misc.Dipole(moment=pol / mu_0 * 4 / 3 * np.pi * (d / 2) ** 3, position=pos)
                obs = pos + far_points(nps, 5, lo=0.6, hi=20) * d
                obs = obs[np.linalg.norm(obs - pos, axis=1) > d / 2 * 1.001]
                err = rel(get(dip, obs), get(sph, obs))
            elif kind == "mesh-converters":
                csc = 10.0 ** rng.choice([0, 0, -3, -4, -5, -6, 3])  # the same body in millimetres / micrometres: another representation of it is still the same body
                pts = nps.uniform(-1, 1, (rng.choice([6, 8, 12]), 3)) * csc
                m0 = magpy.magnet.TriangularMesh.from_ConvexHull(points=pts, polarization=pol)
                m1 = magpy.magnet.TriangularMesh.from_triangles(triangles=m0.to_TriangleCollection().sources, polarization=pol)
                m2 = magpy.magnet.TriangularMesh.from_mesh(mesh=m0.mesh, polarization=pol)
                obs = np.concatenate([far_points(nps, 3, lo=2.5, hi=6) * csc, m0.vertices.mean(axis=0)[None]])
                ref = get(m0, obs)
                err = max(rel(get(m1, obs), ref), rel(get(m2, obs), ref), rel(magpy.getH(m0.to_TriangleCollection(), obs), magpy.getH(m0, obs)))
                # a mesh given with some inward faces, evaluated once, repaired with reorient_faces(), evaluated again
                fl = m0.faces.copy()
                flip = nps.random(len(fl)) < 0.5
                flip[0] = True
                fl[flip] = fl[flip][:, [0, 2, 1]]
                m3 = magpy.magnet.TriangularMesh(vertices=m0.vertices, faces=fl, polarization=pol, reorient_faces="skip", check_selfintersecting="skip")
                get(m3, obs)
                _ = m3.mesh
                m3.reorient_faces()
                err = max(err, rel(get(m3, obs), ref), rel(magpy.getH(m3.to_TriangleCollection(), obs), magpy.getH(m0, obs)))
            elif kind == "vertex-touching":
                # one mesh made of two closed pieces that meet in a single vertex only (an hourglass of two tetrahedra sharing the
                # apex; two boxes corner to corner), one piece given inside-out: after the default reorientation the mesh is the
                # sum of the two bodies
                if rng.random() < 0.5:
                    a = nps.uniform(0.5, 1.5, 3)
                    t1 = np.array([[0, 0, 0], [a[0], 0, a[2]], [0, a[1], a[2]], [-a[0], -a[1], a[2]]], float)
                    t2 = -t1 * nps.uniform(0.6, 1.4)
                    verts = np.concatenate([t1, t2[1:]])
                    f1 = [[0, 1, 2], [0, 2, 3], [0, 3, 1], [1, 3, 2]]
                    f2 = [[0, 4, 5], [0, 5, 6], [0, 6, 4], [4, 6, 5]]
                    bodies = [magpy.magnet.Tetrahedron(vertices=t1, polarization=pol), magpy.magnet.Tetrahedron(vertices=t2, polarization=pol)]
                    inner = [t1.mean(axis=0), t2.mean(axis=0)]
                else:
                    d1, d2 = nps.uniform(0.5, 1.5, 3), nps.uniform(0.5, 1.5, 3)
                    box = np.array([[x, y, z] for x in (0, 1) for y in (0, 1) for z in (0, 1)], float)
                    quad = [[0, 1, 3], [0, 3, 2], [4, 6, 7], [4, 7, 5], [0, 4, 5], [0, 5, 1], [2, 3, 7], [2, 7, 6], [0, 2, 6], [0, 6, 4], [1, 5, 7], [1, 7, 3]]
                    v1, v2 = box * d1, -box * d2  # both have the corner (0,0,0)
                    verts = np.concatenate([v1, v2[1:]])
                    f1 = quad
                    f2 = [[(0 if k == 0 else k + 7) for k in f] for f in quad]
                    bodies = [magpy.magnet.Cuboid(dimension=d1, polarization=pol, position=d1 / 2), magpy.magnet.Cuboid(dimension=d2, polarization=pol, position=-d2 / 2)]
                    inner = [d1 / 2, -d2 / 2]
                faces = np.array(f1 + f2)
                flipped = faces.copy()
                which = rng.choice(["second", "first", "mixed"])
                sel = np.zeros(len(faces), bool)
                if which == "second":
                    sel[len(f1):] = True
                elif which == "first":
                    sel[:len(f1)] = True
                else:
                    sel = nps.random(len(faces)) < 0.5
                flipped[sel] = flipped[sel][:, [0, 2, 1]]
                order = nps.permutation(len(faces))
                mesh = magpy.magnet.TriangularMesh(vertices=verts, faces=flipped[order], polarization=pol, check_selfintersecting="skip")
                obs = np.concatenate([far_points(nps, 3, lo=2.5, hi=6), np.array(inner)])
                err = rel(get(mesh, obs), get(bodies, obs, sumup=True))
            elif kind == "glued":
                # a random convex body cut by a random plane through its centroid into two convex bodies (the points on each side
                # plus the corners of the cut polygon), each a TriangularMesh of its own convex hull: field of the whole = sum of
                # the fields of the parts (B or H, and J), far away, inside either part and near (not on) the cut, at lengths
                # 1e-6 ... 1e3 (cf. trimesh_glue_additive / tetra_list_glue: internal walls cancel, inside exactly one part)
                from scipy.spatial import ConvexHull
                gsc = 10.0 ** rng.choice([-6, -4, -3, 0, 0, 2, 3])
                pts = nps.uniform(-1, 1, (rng.choice([6, 8, 12, 20]), 3)) * gsc
                hull = ConvexHull(pts)
                hv = pts[hull.vertices]
                cen = hv.mean(axis=0)
                nrm = nps.normal(size=3)
                nrm /= np.linalg.norm(nrm)
                sd = (hv - cen) @ nrm
                if np.min(np.abs(sd)) < 1e-3 * gsc:
                    done += 1
                    continue  # a vertex (almost) in the cut plane: not the generic situation this case is about
                edges = {tuple(sorted((int(f[i]), int(f[(i + 1) % 3])))) for f in hull.simplices for i in range(3)}
                cutpts = []
                for a_, b_ in edges:
                    da, db = (pts[a_] - cen) @ nrm, (pts[b_] - cen) @ nrm
                    if da * db < 0:
                        cutpts.append(pts[a_] + (pts[b_] - pts[a_]) * (da / (da - db)))
                cutpts = np.array(cutpts)
                side = [np.concatenate([hv[sd > 0], cutpts]), np.concatenate([hv[sd < 0], cutpts])]
                whole = magpy.magnet.TriangularMesh.from_ConvexHull(points=hv, polarization=pol)
                parts = [magpy.magnet.TriangularMesh.from_ConvexHull(points=q, polarization=pol) for q in side]
                inner = []
                for q in side:
                    w_ = nps.dirichlet(np.ones(len(q)), 2)
                    inner += [q.mean(axis=0), *(w_ @ q)]
                near = [cen + s_ * 1e-3 * gsc * nrm for s_ in (-1, 1)]
                local = np.concatenate([far_points(nps, 3, lo=2.5, hi=6) * gsc, np.array(inner), np.array(near)])
                wc, pc = place([whole]), place(parts)
                obs = ori.apply(local) + pos
                err = rel(get(pc, obs), get(wc, obs))
                jw = magpy.getJ(wc, obs)
                err = max(err, rel(magpy.getJ(pc, obs), jw), float(np.max(np.abs(jw[3:] - ori.apply(pol)))) / (np.max(np.abs(pol)) + 1e-300))
            elif kind == "triangle-split":
                # a Triangle sheet cut through a random point of one edge into two Triangles, a Tetrahedron cut through a random point
                # of one edge into two Tetrahedra (triangle_split_additive / tetra_edge_split_additive): whole = sum of the halves,
                # far away, close above the sheet's interior, above the cut line, inside either half and next to the cut plane;
                # lengths 1e-3 ... 1e2.  Observers keep 1e-3 sizes from the sheet: within ~1e-9 sizes of a sheet's interior the
                # code clamps the solid angle to 0 and the property is FALSE (solid_angle_additive_fails_near_sheet; the fixed
                # input is the listed finding representation:triangle-split:clamp-band, replayed by oracles/known.py)
                tsc = 10.0 ** rng.choice([0, 0, -3, -1, 2])
                tv = nps.uniform(-1, 1, (3, 3)) * tsc
                while np.linalg.norm(np.cross(tv[1] - tv[0], tv[2] - tv[0])) < 0.2 * tsc**2:
                    tv = nps.uniform(-1, 1, (3, 3)) * tsc
                k_ = rng.randrange(3)
                ta, tb, tc = tv[k_], tv[(k_ + 1) % 3], tv[(k_ + 2) % 3]
                tt = nps.uniform(0.1, 0.9)
                tm = ta + tt * (tb - ta)
                whole = place([magpy.misc.Triangle(vertices=[ta, tb, tc], polarization=pol)])
                parts = place([magpy.misc.Triangle(vertices=[ta, tm, tc], polarization=pol), magpy.misc.Triangle(vertices=[tm, tb, tc], polarization=pol)])
                nrm = np.cross(tb - ta, tc - ta)
                nrm /= np.linalg.norm(nrm)
                w_ = nps.dirichlet(np.ones(3), 3) @ np.array([ta, tb, tc])
                cutl = tm + nps.uniform(0.1, 0.9, (2, 1)) * (tc - tm)
                hgt = 10.0 ** nps.uniform(-3, 0, (5, 1)) * nps.choice([-1, 1], (5, 1)) * tsc
                local = np.concatenate([far_points(nps, 3, lo=1.5, hi=5) * tsc, np.concatenate([w_, cutl]) + hgt * nrm])
                obs = ori.apply(local) + pos
                err = rel(get(parts, obs), get(whole, obs))
                # the Tetrahedron with apex d over the triangle
                td = np.array([ta, tb, tc]).mean(axis=0) + nrm * nps.uniform(0.4, 1.2) * tsc * rng.choice([-1, 1])
                wt = place([magpy.magnet.Tetrahedron(vertices=[ta, tb, tc, td], polarization=pol)])
                pt = place([magpy.magnet.Tetrahedron(vertices=[ta, tm, tc, td], polarization=pol), magpy.magnet.Tetrahedron(vertices=[tm, tb, tc, td], polarization=pol)])
                in1 = nps.dirichlet(np.ones(4), 2) @ np.array([ta, tm, tc, td])
                in2 = nps.dirichlet(np.ones(4), 2) @ np.array([tm, tb, tc, td])
                cn = np.cross(tc - tm, td - tm)
                cn /= np.linalg.norm(cn)
                nearcut = (nps.dirichlet(np.ones(3), 2) @ np.array([tm, tc, td])) + np.array([[1e-3], [-1e-3]]) * tsc * cn
                local = np.concatenate([far_points(nps, 3, lo=2.5, hi=6) * tsc, in1, in2, nearcut])
                obs = ori.apply(local) + pos
                err = max(err, rel(get(pt, obs), get(wt, obs)))
                jw = magpy.getJ(wt, obs)
                # (the points next to the cut may lie outside when the cut triangle is a sliver: only the four interior points must have J = pol)
                err = max(err, rel(magpy.getJ(pt, obs), jw), float(np.max(np.abs(jw[3:7] - ori.apply(pol)))) / (np.max(np.abs(pol)) + 1e-300))
            elif kind == "polyline-circle":
                nseg = 4000
                ph = np.linspace(0, 2 * np.pi, nseg + 1)
                dia = nps.uniform(0.5, 2)
                poly = magpy.current.Polyline(vertices=np.stack([np.cos(ph), np.sin(ph), 0 * ph], axis=1) * dia / 2, current=1.7)
                circ = magpy.current.Circle(diameter=dia, current=1.7)
                obs = far_points(nps, 4, lo=1.2, hi=5) * dia
                err = rel(get(poly, obs), get(circ, obs)) / 50  # O(1/n^2) discretisation error allowed: 5e-7*50
            else:  # polyline-split: inserting a collinear vertex / reversing negates
                v = nps.uniform(-1, 1, (3, 3))
                t = nps.uniform(0.2, 0.8)
                v2 = np.array([v[0], v[0] + t * (v[1] - v[0]), v[1], v[2]])
                obs = far_points(nps, 4, lo=1.5, hi=5)
                a, b = magpy.current.Polyline(vertices=v, current=2.0), magpy.current.Polyline(vertices=v2, current=2.0)
                c = magpy.current.Polyline(vertices=v[::-1], current=2.0)
                err = max(rel(get(b, obs), get(a, obs)), rel(-get(c, obs), get(a, obs)))
            done += 1
            kinds[kind] = max(kinds.get(kind, 0.0), err)
            if not err < 5e-7:
                fails.append({"key": f"representation:{kind}", "desc": f"whole and parts / alternative class differ (rel. {err:.2g}, field {field})",
                              "replay": {"kind": kind, "field": field, "rel_err": err, "polarization": pol.tolist()}})
    # ONE large call: a Tetrahedron against the TriangularMesh of its hull at tens of thousands of observers inside the bounding box
    # (observers x faces far beyond what one chunk of any blocked evaluation would hold) — B, which carries the inside decision
    import magpylib as _mp
    with warnings.catch_warnings():
        warnings.simplefilter("ignore")
        nps = np.random.default_rng(rng.randrange(2**31))
        vt = nps.uniform(-1, 1, (4, 3))
        while abs(np.linalg.det(vt[1:] - vt[0])) < 0.3:
            vt = nps.uniform(-1, 1, (4, 3))
        polt = nps.uniform(-1, 1, 3)
        tet = _mp.magnet.Tetrahedron(vertices=vt, polarization=polt)
        msh = _mp.magnet.TriangularMesh.from_ConvexHull(points=vt, polarization=polt)
        nbig = 20000 if getattr(ctx, "tier", "quick") == "quick" else 60000
        pts = nps.uniform(vt.min(axis=0), vt.max(axis=0), (nbig, 3))
        Bt, Bm = _mp.getB(tet, pts), _mp.getB(msh, pts)
        dev = np.linalg.norm(Bt - Bm, axis=1) / (np.linalg.norm(polt) + 1e-300)
        nbad = int(np.sum(dev > 1e-6))
        # observers within the inside test's touch band (1e-6 of the size off a face) may legitimately be decided differently
        if nbad > max(3, nbig // 2000):
            fails.append({"key": "representation:tetra-mesh:large-call", "desc": f"a Tetrahedron and the TriangularMesh of its hull asked at {nbig} observers in their bounding box in one call: B differs at {nbad} observers "
                          f"(max {float(dev.max()):.2g} |J|)", "replay": {"vertices": vt.tolist(), "polarization": polt.tolist(), "observers": nbig, "differing": nbad}})
    return fails, {"c13_cases": done, "c13_worst_rel_err": {k: float(f"{v:.3g}") for k, v in kinds.items()}}
