"""C17 failing-input search: a grammar of Python values x every public attribute x {constructor, setter}
on the real classes, against an independently written predicate of the documented format."""
import warnings

import numpy as np
from scipy.spatial.transform import Rotation as R


def is_num(x):
    return isinstance(x, (int, float, np.integer, np.floating)) and not isinstance(x, (str, bytes, np.ndarray)) and np.isfinite(x)


def shape_of(v):
    """shape of a rectangular nesting of numbers (lists/tuples/ndarrays), else None"""
    if isinstance(v, np.ndarray):
        if v.dtype.kind == "O":    # an object array is an array of numbers when every element is one
            return v.shape if all(is_num(x) or isinstance(x, (bool, np.bool_)) for x in v.flat) else None
        return v.shape if v.dtype.kind in "fiub" else None
    if is_num(v):
        return ()
    if isinstance(v, (list, tuple)):
        subs = [shape_of(x) for x in v]
        if any(s is None for s in subs):
            return None
        if len(set(subs)) > 1:
            return None
        return (len(v),) + (subs[0] if subs else ())
    return None


def arr(v):
    return np.array(v, dtype=float)


def doc_vec(k, positive=False, none_ok=True):
    def pred(v):
        if v is None:
            return none_ok
        if not isinstance(v, (list, tuple, np.ndarray)):
            return False
        s = shape_of(v)
        return s == (k,) and (not positive or bool(np.all(arr(v) > 0)))
    return pred


def doc_rows(n=None, nmin=1):
    def pred(v):
        if v is None:
            return True
        if not isinstance(v, (list, tuple, np.ndarray)):
            return False
        s = shape_of(v)
        return s is not None and len(s) == 2 and s[1] == 3 and (s[0] == n if n else s[0] >= nmin)
    return pred


def doc_poly_vertices(v):
    """Polyline.vertices: rows of three numbers; in a list/tuple, rows (None, None, None) separate disconnected parts of the line"""
    if v is None:
        return True
    if isinstance(v, np.ndarray):
        return doc_rows(nmin=2)(v)
    if not isinstance(v, (list, tuple)) or len(v) < 2:
        return False
    return all((isinstance(r, (list, tuple)) and len(r) == 3 and all(x is None for x in r))
               or (isinstance(r, (list, tuple, np.ndarray)) and shape_of(r) == (3,)) for r in v)


def doc_position(v):
    if not isinstance(v, (list, tuple, np.ndarray)):
        return False
    s = shape_of(v)
    return s == (3,) or (s is not None and len(s) == 2 and s[1] == 3 and s[0] >= 1)


def doc_scalar(nonneg=False):
    def pred(v):
        if v is None:
            return True
        return is_num(v) and (not nonneg or v >= 0)
    return pred


def doc_segment(v):
    if v is None:
        return True
    if not isinstance(v, (list, tuple, np.ndarray)) or shape_of(v) != (5,):
        return False
    r1, r2, h, p1, p2 = arr(v)
    return 0 <= r1 < r2 and h > 0 and p1 < p2 and p2 - p1 <= 360


def doc_pixel(v):
    if v is None:
        return True
    if not isinstance(v, (list, tuple, np.ndarray)):
        return False
    s = shape_of(v)
    return s is not None and len(s) >= 1 and s[-1] == 3 and 0 not in s


def grammar(rng, nps):
    """values: scalars, None, strings, sequences of all ranks/lengths, ragged, sign variants, ndarrays"""
    vals = [None, 0, 1, -1.5, 2.5, True, "abc", "", (), [], [[]], {"a": 1}, object()]
    for k in range(1, 7):
        base = list(nps.uniform(0.2, 3, k))
        vals += [base, tuple(base), np.array(base), [-x for x in base], base[:-1] + [0.0]]
    for n in range(0, 6):
        for m in (2, 3, 4):
            a = nps.uniform(-2, 2, (n, m))
            vals += [a, a.tolist()]
    vals += [nps.uniform(-1, 1, (2, 2, 3)), nps.uniform(-1, 1, (2, 2, 3)).tolist(), [[1, 2, 3], [1, 2]], [1, "x", 3], [[1, 2, 3], "row"],
             [0.5, 1.0, 1.0, 0, 90], [1.0, 0.5, 1.0, 0, 90], [0.5, 1.0, 1.0, 90, 0], [0.5, 1.0, 1.0, 0, 400], [0.5, 1.0, -1.0, 0, 90],
             [-0.5, 1.0, 1.0, 0, 90], [0.0, 1.0, 1.0, -30, 330], [0.5, 1.0, 0.0, 0, 90], np.array([1, 2, 3]), np.array([1, 2, 3], dtype=int),
             np.zeros((0, 3)), np.float64(2.0), np.int64(3), "right", "left", "up",
             "3", "1e3", " 2.5 ", "inf", "nan", b"4", np.array(2.0), np.array([2.0]), [2.0], (1.5,)]
    # right shape, one element that float() cannot convert (TypeError / OverflowError inside the conversion, not ValueError)
    for bad in (1 + 2j, {}, object(), {1}, 10**400, [3.0], slice(1)):
        for k in (2, 3, 5):
            vals.append(list(nps.uniform(0.2, 3, k - 1)) + [bad])
        vals += [[[1.0, 2.0, 3.0], [1.0, 2.0, bad]], [[0, 0, 0], [1, 0, 0], [0, 1, 0], [0, 0, bad]], [[0, 0, 0], [1, 0, 0], [0, 1, bad]]]
    # right shape, one entry that np.array(dtype=float) silently coerces: None (-> nan) or a numeric string (-> parsed)
    for k in (2, 3, 5):
        vals += [list(nps.uniform(0.2, 3, k - 1)) + [None], list(nps.uniform(0.2, 3, k - 1)) + ["2"]]
    vals += [[[1.0, 2.0, 3.0], [1.0, None, 3.0]], [[0, 0, 0], [1, 0, 0], [0, 1, 0], [0, 0, "1"]], [[0, 0, 0], [1, 0, 0], [0, None, 0]]]
    # None rows: the documented separator of Polyline.vertices (stored as nan rows), malformed everywhere else and in every other form;
    # non-numeric ndarrays (object dtype with None / with numbers only, strings, bytes, complex, datetime)
    N3 = [None, None, None]
    vals += [[N3, [0, 0, 0], [0, 0, 1], N3, N3, [1, 0, 0], [1, 0, 1], N3], [[0, 0, 0], N3, [1.0, 2.0, 3.0]], (N3, (None,) * 3), [N3, N3, N3], [N3, N3, N3, N3],
             [[0, 0, 0], [None, None, 1.0], [1, 1, 1]], [[None, None], [None, None]], [[N3, N3], [N3, N3]], [N3], N3, [[0, 0, 0], None],
             np.array([N3, [0, 0, 0]], dtype=object), np.array([[0, 0, 0], [1, 2, 3]], dtype=object), np.array([1, None, 3], dtype=object),
             np.array([1, 2, 3], dtype=object), np.array(["1", "2", "3"]), np.array([b"1", b"2", b"3"]), np.array([1 + 0j, 2, 3]),
             np.array([1, 2, 3], dtype="datetime64[s]"), [1, b"2", 3], ["1", "2", "3"]]
    # values a hair beyond / exactly on the documented bounds (no tolerance is documented): an angular range of 360 + 3e-3, + 1e-9 and
    # exactly 360 degrees, equal radii up to the last bit, a height of the smallest positive number
    vals += [[0.5, 1.0, 1.0, 0, 360.003], [0.5, 1.0, 1.0, 0, 360.0000001], [0.5, 1.0, 1.0, 10, 370.0000000001], [0.5, 1.0, 1.0, 0, 360.0], [0.5, 1.0, 1.0, -180.0015, 180.0015],
             [1.0, np.nextafter(1.0, 2), 1.0, 0, 90], [np.nextafter(1.0, 2), 1.0, 1.0, 0, 90], [0.5, 1.0, 5e-324, 0, 90], [0.5, 1.0, 1.0, 90, np.nextafter(90.0, 0)],
             [0.5, 1.0, 1.0, 0.0, 5e-324], [1.0, -5e-324], [5e-324, 1.0], [1.0, 1.0, -5e-324], [-5e-324, 1.0, 1.0]]
    rng.shuffle(vals)
    return vals


def coerced_leaf(v):
    """'None' / 'numeric-string' if the nesting v has such a leaf (and no other non-number), else None"""
    kinds = set()

    def walk(x):
        if isinstance(x, (list, tuple)):
            for y in x:
                walk(y)
        elif x is None:
            kinds.add("None")
        elif isinstance(x, str):
            try:
                float(x)
                kinds.add("numeric-string")
            except ValueError:
                kinds.add("other")
        elif not is_num(x):
            kinds.add("other")
    if not isinstance(v, (list, tuple)):
        return None
    walk(v)
    return next(iter(kinds)) if len(kinds) == 1 and "other" not in kinds else None


def attributes():
    import magpylib as magpy
    m, c, x = magpy.magnet, magpy.current, magpy.misc
    tet = [(0, 0, 0), (1, 0, 0), (0, 1, 0), (0, 0, 1)]
    return [
        (m.Cuboid, dict(dimension=(1, 2, 3), polarization=(1, 2, 3)), "position", doc_position),
        (magpy.Sensor, {}, "position", doc_position),
        (magpy.Collection, {}, "position", doc_position),
        (m.Cuboid, dict(dimension=(1, 2, 3), polarization=(1, 2, 3)), "dimension", doc_vec(3, positive=True)),
        (m.Cuboid, dict(dimension=(1, 2, 3), polarization=(1, 2, 3)), "polarization", doc_vec(3)),
        (m.Cuboid, dict(dimension=(1, 2, 3), polarization=(1, 2, 3)), "magnetization", doc_vec(3)),
        (m.Cylinder, dict(dimension=(1, 2), polarization=(1, 2, 3)), "dimension", doc_vec(2, positive=True)),
        (m.CylinderSegment, dict(dimension=(1, 2, 1, 0, 90), polarization=(1, 2, 3)), "dimension", doc_segment),
        (m.Sphere, dict(diameter=1, polarization=(1, 2, 3)), "diameter", doc_scalar(nonneg=True)),
        (m.Tetrahedron, dict(vertices=tet, polarization=(1, 2, 3)), "vertices", doc_rows(n=4)),
        (x.Triangle, dict(vertices=tet[:3], polarization=(1, 2, 3)), "vertices", doc_rows(n=3)),
        (c.Circle, dict(diameter=1, current=1), "diameter", doc_scalar(nonneg=True)),
        (c.Circle, dict(diameter=1, current=1), "current", doc_scalar()),
        (c.Polyline, dict(vertices=tet[:3], current=1), "vertices", doc_poly_vertices),
        (c.Polyline, dict(vertices=tet[:3], current=1), "current", doc_scalar()),
        (x.Dipole, dict(moment=(1, 2, 3)), "moment", doc_vec(3)),
        (magpy.Sensor, {}, "pixel", doc_pixel),
        (magpy.Sensor, {}, "handedness", lambda v: isinstance(v, str) and v in ("right", "left")),
    ]


def snapshot(o):
    out = {}
    for k, v in o.__dict__.items():
        if isinstance(v, np.ndarray):
            out[k] = (v.shape, v.tobytes())
        elif isinstance(v, R):
            out[k] = v.as_quat().tobytes()
        elif isinstance(v, (int, float, str, type(None), bool)):
            out[k] = v
    return out


def sweep(ctx, n_rounds):
    import magpylib as magpy
    from magpylib._src.exceptions import MagpylibBadUserInput, MagpylibMissingInput

    rng, fails, done, stats = ctx.rng, [], 0, {"accepted": 0, "rejected": 0}

    def report(key, desc, rep):
        fails.append({"key": key, "desc": desc, "replay": rep})

    with warnings.catch_warnings():
        warnings.simplefilter("ignore")
        for _ in range(n_rounds):
            nps = np.random.default_rng(rng.randrange(2**31))
            vals = grammar(rng, nps)
            for ctor, kw, attr, doc in attributes():
                for v in vals[: 75]:
                    name = f"{ctor.__name__}.{attr}"
                    vrepr = repr(v)[:80]
                    try:
                        good = bool(doc(v))
                    except Exception:
                        good = False
                    for via in ("setter", "ctor"):
                        done += 1
                        obj = ctor(**kw)
                        before = snapshot(obj)
                        vin = v.copy() if isinstance(v, np.ndarray) else v
                        err = None
                        try:
                            if via == "setter":
                                setattr(obj, attr, vin)
                            else:
                                kw2 = {k: x for k, x in kw.items() if not (attr in ("polarization", "magnetization") and k in ("polarization", "magnetization"))}
                                obj = ctor(**{**kw2, attr: vin})
                        except MagpylibBadUserInput:
                            err = "BadUserInput"
                        except Exception as e:
                            err = "Foreign:" + type(e).__name__
                        if good:
                            stats["accepted"] += 1
                            if err:
                                report(f"valid-rejected:{name}", f"documented value {vrepr} rejected ({err}) via {via}", {"attr": name, "value": vrepr, "via": via})
                                continue
                            back = getattr(obj, attr)
                            if v is None:
                                ok = back is None
                            elif isinstance(v, str):
                                ok = back == v
                            else:
                                a = arr(v)   # a separator row (None, None, None) is stored as a nan row
                                ok = np.allclose(np.asarray(back, float).reshape(-1), a.reshape(-1), equal_nan=True) and np.asarray(back).dtype == float
                                if isinstance(vin, np.ndarray) and vin.size and vin.dtype == float:
                                    vin.flat[0] += 7.0
                                    ok = ok and np.allclose(np.asarray(getattr(obj, attr), float).reshape(-1), a.reshape(-1), equal_nan=True)
                            if not ok:
                                report(f"stored-differs:{name}", f"value {vrepr} not read back equal / not an independent float copy", {"attr": name, "value": vrepr, "via": via})
                            # no accepted object may later fail with an internal error
                            if isinstance(obj, magpy._src.obj_classes.class_BaseExcitations.BaseSource):
                                try:
                                    obj.getB((3.1, 2.2, 1.3))
                                except (MagpylibMissingInput, MagpylibBadUserInput):
                                    pass
                                except Exception as e:
                                    report(f"accepted-then-internal-error:{name}", f"accepted {vrepr}, getB then raised {type(e).__name__}", {"attr": name, "value": vrepr})
                        else:
                            stats["rejected"] += 1
                            if err is None and coerced_leaf(v):
                                report(f"coerced-entry:{coerced_leaf(v)}", f"value {vrepr} with a {coerced_leaf(v)} entry accepted for {name} (stored {np.asarray(getattr(obj, attr)).tolist()!r})",
                                       {"attr": name, "value": vrepr, "via": via})
                            elif err is None:
                                report(f"malformed-accepted:{name}", f"malformed value {vrepr} accepted via {via}", {"attr": name, "value": vrepr, "via": via})
                            elif err != "BadUserInput":
                                report(f"foreign-error:{name}:{err}", f"malformed value {vrepr} raised {err} instead of the library's input error (via {via})", {"attr": name, "value": vrepr, "via": via})
                            elif via == "setter" and snapshot(obj) != before:
                                report(f"rejected-changed-object:{name}", f"rejected value {vrepr} changed the object", {"attr": name, "value": vrepr})
        # the two views of a magnet's excitation: assigning None to either withdraws the excitation as a whole
        # (both read back None, field computation refuses with the library's missing-input error), like constructing with None
        from oracles.sources import MAGNETS, make as _make
        for cls in MAGNETS:
            for attr, other in (("magnetization", "polarization"), ("polarization", "magnetization")):
                nps = np.random.default_rng(rng.randrange(2**31))
                o = _make(cls, nps)
                setattr(o, attr, None)
                done += 1
                refused = False
                try:
                    o.getB((3.0, 2.0, 1.0))
                except MagpylibMissingInput:
                    refused = True
                except Exception:  # noqa: BLE001
                    refused = False
                if getattr(o, attr) is not None or getattr(o, other) is not None or not refused:
                    report(f"none-not-stored:{attr}", f"after `{attr} = None` on a {cls}: {attr}={getattr(o, attr)!r}, {other}={getattr(o, other)!r}, getB refused={refused}",
                           {"class": cls, "attribute": attr})
        # arguments of the transform methods: a malformed angle / anchor must raise the library's input error at the call and leave the object as it was
        # (repaired: complex or out-of-range angle escaped as TypeError / OverflowError; the empty (0,3) anchor passed the check and failed later)
        for label, call in ARG_CASES:
            done += 1
            o = magpy.Sensor(position=(1, 2, 3))
            before = snapshot(o)
            try:
                call(o)
                err = None
            except MagpylibBadUserInput:
                err = "BadUserInput"
            except Exception as e:  # noqa: BLE001
                err = "Foreign:" + type(e).__name__
            if err is None:
                report(f"malformed-accepted:{label}", f"{label} accepted", {"call": label})
            elif err != "BadUserInput":
                report(f"foreign-error:{label}:{err}", f"{label} raised {err} instead of the library's input error", {"call": label})
            elif snapshot(o) != before:
                report(f"rejected-changed-object:{label}", f"rejected call {label} changed the object", {"call": label})
        stats["observed_not_recorded"] = observe(magpy, MagpylibBadUserInput)
    return fails, {"c17_assignments": done, **stats}


ARG_CASES = [
    ("rotate_from_angax(angle=1j)", lambda o: o.rotate_from_angax(1j, "z")),
    ("rotate_from_angax(angle=10**400)", lambda o: o.rotate_from_angax(10**400, "z")),
    ("rotate_from_angax(angle=[1, 1j])", lambda o: o.rotate_from_angax([1, 1j], "z")),
    ("rotate_from_angax(anchor=zeros((0,3)))", lambda o: o.rotate_from_angax(45, "z", anchor=np.zeros((0, 3)))),
    ("rotate(anchor=zeros((0,3)))", lambda o: o.rotate(R.from_rotvec((0, 0, 1)), anchor=np.zeros((0, 3)))),
    ("rotate_from_euler(anchor=zeros((0,3)))", lambda o: o.rotate_from_euler(45, "z", anchor=np.zeros((0, 3)))),
    ("rotate_from_angax(anchor=[])", lambda o: o.rotate_from_angax(45, "z", anchor=[])),
    ("rotate_from_angax(axis=(0,0,0))", lambda o: o.rotate_from_angax(45, (0, 0, 0))),
    ("rotate_from_angax(degrees=1)", lambda o: o.rotate_from_angax(45, "z", degrees=1)),
    ("move(start=1.0)", lambda o: o.move((1, 2, 3), start=1.0)),
]


_TET = [(0, 0, 0), (1, 0, 0), (0, 1, 0), (0, 0, 1)]
_FACES = [(0, 2, 1), (0, 1, 3), (0, 3, 2), (1, 2, 3)]


def _inout(magpy, which):
    import warnings

    with warnings.catch_warnings():
        warnings.simplefilter("ignore")
        src = magpy.magnet.Tetrahedron(vertices=_TET, polarization=(0, 0, 1)) if which == "tetra" else \
            magpy.magnet.TriangularMesh(vertices=_TET, faces=_FACES, polarization=(0, 0, 1))
        try:
            return "J = polarization (read as 'auto')" if src.getJ((0.1, 0.1, 0.1), in_out="bogus")[2] == 1 else "J = 0 (read as 'outside')"
        except Exception as e:  # noqa: BLE001
            return "Foreign:" + type(e).__name__


def _children_after(magpy, Bad):
    a, b = magpy.Sensor(), magpy.Sensor()
    c = magpy.Collection(a, b)
    try:
        c.children = [a, 1]
        return "accepted"
    except Bad:
        return f"BadUserInput, {len(c.children)} children left, a.parent is {'c' if a.parent is c else a.parent}"
    except Exception as e:  # noqa: BLE001
        return "Foreign:" + type(e).__name__


def _coll_junk(magpy, attr, val):
    c = magpy.Collection(magpy.Sensor(), magpy.Collection(), magpy.misc.Dipole(moment=(1, 2, 3)))
    n = len(c.children)
    try:
        setattr(c, attr, val)
        return f"accepted, {n} -> {len(c.children)} children"
    except Exception as e:  # noqa: BLE001
        return type(e).__name__


def observe(magpy, Bad):
    """behaviour that is NOT counted as a violation (pinned by tests, or accepted beyond the documented format): what the real code does
    now, so that a change shows in the evidence"""
    def kind(f):
        try:
            f()
            return "accepted"
        except Bad:
            return "BadUserInput"
        except Exception as e:  # noqa: BLE001
            return "Foreign:" + type(e).__name__
    d = magpy.misc.Dipole(moment=(1, 2, 3))
    S = magpy.Sensor
    return {
        # foreign errors pinned by tests
        "getB(output='bad') [tests/test_getBH_interfaces.py::test_getBH_bad_output_type pins ValueError]": kind(lambda: d.getB((1, 2, 3), output="bad")),
        "getB(output=1)": kind(lambda: d.getB((1, 2, 3), output=1)),
        "getB(pixel_agg='bad_aggregator') [tests/test_getBH_level2.py::test_pixel_agg_heterogeneous_pixel_shapes pins AttributeError]": kind(lambda: d.getB((1, 2, 3), pixel_agg="bad_aggregator")),
        "getB(pixel_agg=1)": kind(lambda: d.getB((1, 2, 3), pixel_agg=1)),
        "getB(pixel_agg='pi')": kind(lambda: d.getB((1, 2, 3), pixel_agg="pi")),
        "getB(pixel_agg='any')": kind(lambda: d.getB((1, 2, 3), pixel_agg="any")),
        "getB(pixel_agg='argmax')": kind(lambda: d.getB((1, 2, 3), pixel_agg="argmax")),
        # accepted beyond the documented format
        "rotate_from_angax(anchor=0j)": kind(lambda: S().rotate_from_angax(45, "z", anchor=0j)),
        "rotate_from_angax(anchor=False)": kind(lambda: S().rotate_from_angax(45, "z", anchor=False)),
        "move(start=True)": kind(lambda: S().move((1, 2, 3), start=True)),
        "rotate_from_angax(angle=[])": kind(lambda: S().rotate_from_angax([], "z")),
        "rotate_from_angax(degrees=np.True_)": kind(lambda: S().rotate_from_angax(45, "z", degrees=np.True_)),
        "Sphere(diameter=nan)": kind(lambda: magpy.magnet.Sphere(diameter=float("nan"), polarization=(0, 0, 1))),
        "Cuboid(dimension=(1, nan, 3))": kind(lambda: magpy.magnet.Cuboid(dimension=(1, float("nan"), 3), polarization=(0, 0, 1))),
        "CylinderSegment(dimension=(1, 2, 1, nan, 90))": kind(lambda: magpy.magnet.CylinderSegment(dimension=(1, 2, 1, float("nan"), 90), polarization=(0, 0, 1))),
        "Sensor(position=(nan, 0, 0))": kind(lambda: S(position=(float("nan"), 0, 0))),
        # call arguments nothing validates, or whose refusal is a foreign error (modelled: Model/CallArgs.lean, Props/C17b.lean; `callargs` stream)
        "Tetrahedron.getJ(in_out='bogus') at an inside point -> polarization?": _inout(magpy, "tetra"),
        "TriangularMesh.getJ(in_out='bogus') at the same point -> polarization?": _inout(magpy, "mesh"),
        "getB(in_out=np.array([1, 2]))": kind(lambda: magpy.magnet.Tetrahedron(vertices=_TET, polarization=(0, 0, 1)).getB((1, 2, 3), in_out=np.array([1, 2]))),
        "magpy.getB(sumup='no') (taken as True)": kind(lambda: magpy.getB(d, (1, 2, 3), sumup="no")),
        "getB(squeeze=np.array([1, 2]))": kind(lambda: d.getB((1, 2, 3), squeeze=np.array([1, 2]))),
        "TriangularMesh(check_open=1) (accepted, acts as 'ignore')": kind(lambda: magpy.magnet.TriangularMesh(vertices=_TET, faces=_FACES, polarization=(0, 0, 1), check_open=1)),
        "TriangularMesh(check_open='bad') [docstring promises ValueError]": kind(lambda: magpy.magnet.TriangularMesh(vertices=_TET, faces=_FACES, polarization=(0, 0, 1), check_open="bad")),
        "Sensor(style=5) (constructed; fails at first .style access)": kind(lambda: S(style=5)),
        "Sensor(style=5).style": kind(lambda: S(style=5).style),
        "Sensor(style=Sensor().style).style (setter accepts the same object)": kind(lambda: S(style=S().style).style),
        "Sensor().style = 5": kind(lambda: setattr(S(), "style", 5)),
        "Sensor().style = {'opacity': 5} [assert-based validation]": kind(lambda: setattr(S(), "style", {"opacity": 5})),
        "CustomSource(field_func=dict) [inspect cannot read the signature]": kind(lambda: magpy.misc.CustomSource(field_func=dict)),
        "Cuboid().field_func = f [read-only attribute]": kind(lambda: setattr(magpy.magnet.Cuboid(), "field_func", None)),
        "getB(pixel_agg='ndim') (accepted by the check, TypeError inside getBH_level2)": kind(lambda: d.getB(S(pixel=[(1, 2, 3), (2, 3, 4)]), pixel_agg="ndim")),
        "Collection(a, b).children = [a, 1] -> rejected; children afterwards": _children_after(magpy, Bad),
        "Collection(sensor).sensors = [a source] (accepted: the source is filtered out, the sensors are dropped)": _coll_junk(magpy, "sensors", [magpy.misc.Dipole(moment=(1, 2, 3))]),
        "Collection(sub).collections = [a source] (accepted: Magpylib objects of another kind are still dropped; Props/C17b collections_setter_drops_other_objects)": _coll_junk(magpy, "collections", [magpy.misc.Dipole(moment=(1, 2, 3))]),
        # same coercion as the repaired make_float_array, outside attribute assignment
        "getB(observers=(1, None, 3))": kind(lambda: d.getB((1, None, 3))),
        "getB(observers=(1, '2', 3))": kind(lambda: d.getB((1, "2", 3))),
    }
