"""Extended-precision reference for homogeneously charged triangles (the core of Triangle, Tetrahedron and
TriangularMesh), independent of the float evaluation order of triangle_Bfield.

The closed form (Guptasarma 1999) is evaluated with `decimal` at 60 significant digits on the EXACT values of the
double inputs, with the edge integral in its symmetric form  I = 1/l * ln((r1 + r2 + l) / (r1 + r2 - l))  (r1, r2 the
distances of the observer from the two ends of the edge).  That form is regular everywhere off the closed edge, has no
branch switch, and its only cancellation (r1 + r2 - l close to the edge, ~ rho^2 / l) costs at most ~32 of the 60 digits
for observers 1e-16 edge lengths off the edge line.  The solid angle is van Oosterom-Strackee, 2*atan2(N, D), with the
same `|angle| > 6.2831853 -> 0` cut as solid_angle() (in-plane observers inside the triangle).

Validated once against mpmath (80 digits) and against Gauss-Legendre quadrature of the surface-charge integral at moderate
distances; see DESIGN.md section 10 (triangle repair)."""
from decimal import Decimal, getcontext, localcontext

PREC = 60
PI = Decimal("3.14159265358979323846264338327950288419716939937510582097494459230781640628620899")


def _atan_small(x):
    # Taylor series for |x| <= ~0.1
    x2 = x * x
    term, s, k = x, x, 1
    eps = Decimal(10) ** (-(PREC + 5))
    while True:
        term = -term * x2
        k += 2
        d = term / k
        s += d
        if abs(d) < eps * max(abs(s), Decimal("1e-400")):
            return s


def _atan(x):
    # halve the angle until the argument is small: atan(x) = 2 atan(x / (1 + sqrt(1 + x^2)))
    n = 0
    while abs(x) > Decimal("0.1"):
        x = x / (1 + (1 + x * x).sqrt())
        n += 1
    return _atan_small(x) * (2 ** n)


def atan2(y, x):
    if x == 0 and y == 0:
        return Decimal(0)
    if abs(y) <= abs(x):
        a = _atan(y / x)
        if x > 0:
            return a
        return a + PI if y >= 0 else a - PI
    a = _atan(x / y)
    return PI / 2 - a if y > 0 else -PI / 2 - a


def _D(v):
    return [Decimal(float(t)) for t in v]


def _sub(a, b):
    return [a[i] - b[i] for i in range(3)]


def _dot(a, b):
    return a[0] * b[0] + a[1] * b[1] + a[2] * b[2]


def _cross(a, b):
    return [a[1] * b[2] - a[2] * b[1], a[2] * b[0] - a[0] * b[2], a[0] * b[1] - a[1] * b[0]]


def sheet_B(vertices, pol, obs):
    """B of one charged triangle (surface charge = unit normal (right-hand rule) . pol) at obs, as three floats;
    None if the observer is on a closed edge (the closed form diverges there); zero for a triangle without area"""
    with localcontext() as ctx:
        ctx.prec = PREC
        v = [_D(p) for p in vertices]
        p = _D(pol)
        x = _D(obs)
        n = _cross(_sub(v[1], v[0]), _sub(v[2], v[0]))
        nn = _dot(n, n).sqrt()
        if nn == 0:
            return [0.0, 0.0, 0.0]
        n = [t / nn for t in n]
        sigma = _dot(n, p)
        R = [_sub(v[i], x) for i in range(3)]
        r = [_dot(t, t).sqrt() for t in R]
        PQR = [Decimal(0)] * 3
        for i in range(3):
            j = (i + 1) % 3
            L = _sub(v[j], v[i])
            l = _dot(L, L).sqrt()
            den = r[i] + r[j] - l
            if den <= 0:
                return None
            I = ((r[i] + r[j] + l) / den).ln() / l
            PQR = [PQR[k] + I * L[k] for k in range(3)]
        N = _dot(R[2], _cross(R[1], R[0]))
        Dn = r[0] * r[1] * r[2] + _dot(R[2], R[1]) * r[0] + _dot(R[2], R[0]) * r[1] + _dot(R[1], R[0]) * r[2]
        sa = 2 * atan2(N, Dn)
        if abs(sa) > Decimal("6.2831853"):
            sa = Decimal(0)
        nxP = _cross(n, PQR)
        return [float(sigma * (n[k] * sa - nxP[k]) / PI / 4) for k in range(3)]


def outward_faces(vertices, faces):
    """triangles of a convex body, each oriented so that its normal points away from the centroid"""
    import numpy as np
    v = np.asarray(vertices, float)
    c = v.mean(axis=0)
    out = []
    for f in faces:
        t = v[list(f)]
        nrm = np.cross(t[1] - t[0], t[2] - t[0])
        if np.dot(nrm, t.mean(axis=0) - c) < 0:
            t = t[[0, 2, 1]]
        out.append(t)
    return out


def body_B(tris, pol, obs, J):
    """B of a homogeneously polarised body bounded by outward oriented triangles: sum of the sheets + J (the polarisation
    at the observer, taken from getJ: the inside test is not what this reference checks)"""
    tot = [float(t) for t in J]
    for t in tris:
        b = sheet_B(t, pol, obs)
        if b is None:
            return None
        tot = [tot[k] + b[k] for k in range(3)]
    return tot


getcontext().prec = max(getcontext().prec, 28)
