"""C15 failing-input search: per geometry the exact special sets (faces, edges, corners, apex, axis, wire,
segment extension lines, r/r0 thresholds, phi limits, the apex line of wedges, the 5e-13 shell around CylinderSegment
vertices and edges) and their +-1,2,4 ulp and denormal neighbours,
zero-size / zero-excitation sources, distances up to 1e12 sizes.  Evaluated in watchdogged worker
processes: a hang is reported with the batch that hung."""
import json
import os
import subprocess
import sys
import tempfile

import numpy as np

from oracles.sources import CLASSES, params

HERE = os.path.dirname(os.path.abspath(__file__))


def nudge(x, k):
    y = float(x)
    for _ in range(abs(k)):
        y = np.nextafter(y, np.inf if k > 0 else -np.inf)
    return y


def special_points(cls, kw, rng, nps, acc=None):
    acc = [] if acc is None else acc  # indices of the observers with an accuracy assertion (triangle-sheet classes)
    pts = [[0.0, 0.0, 0.0], [1e12, -3e11, 2e11], [5e-324, 0, 0], [0, 0, 1e-200], [1e-160, 1e-160, 1e-160]]
    vals = lambda c: [c, nudge(c, 1), nudge(c, -1), nudge(c, 4), nudge(c, -4), -c]
    if cls == "Cuboid":
        a = np.asarray(kw["dimension"]) / 2
        for _ in range(10):
            p = list(nps.uniform(-1.2, 1.2, 3) * a)
            for ax in rng.sample(range(3), rng.choice([1, 2, 3])):
                p[ax] = rng.choice(vals(a[ax]))
            pts.append(p)
        # just outside the wrapper's 1e-15 edge mask: relative offsets 1e-14 ... 1e-9 from an edge line
        for _ in range(4):
            p = list(nps.uniform(-0.9, 0.9, 3) * a)
            ax1, ax2 = rng.sample(range(3), 2)
            e = 10.0 ** rng.choice([-14, -13, -12, -11, -9, -8])
            p[ax1] = rng.choice([-1, 1]) * a[ax1] * (1 + rng.choice([-1, 1]) * e)
            p[ax2] = rng.choice([-1, 1]) * a[ax2] * (1 + rng.choice([-1, 0, 1]) * e)
            pts.append(p)
    elif cls in ("Cylinder", "Circle"):
        r0 = (kw["dimension"][0] if cls == "Cylinder" else kw["diameter"]) / 2
        h = kw["dimension"][1] / 2 if cls == "Cylinder" else 0.0
        for _ in range(12):
            ph = rng.choice([0.0, np.pi / 2, np.pi, nps.uniform(0, 6.28)])
            r = rng.choice(vals(r0) + [0.05 * r0, nudge(0.05 * r0, 1), nudge(0.05 * r0, -1), 0.0, 1e-300])
            z = rng.choice(vals(h) + [0.0, 1e-200, -1e-310, nps.uniform(-2, 2) * max(h, r0)])
            pts.append([r * np.cos(ph), r * np.sin(ph), z])
        # close to the wire / the edge but outside the 1e-15 masks: relative offsets 1e-14 ... 1e-6 in r and z
        for _ in range(6):
            e1, e2 = 10.0 ** rng.choice([-14, -12, -10, -9, -8, -6]), 10.0 ** rng.choice([-14, -12, -10, -9, -8, -6])
            ph = rng.choice([0.0, np.pi / 2, nps.uniform(0, 6.28)])
            r = r0 * (1 + rng.choice([-1, 0, 1]) * e1)
            z = (h if h else 0.0) * rng.choice([-1, 1]) + rng.choice([-1, 1]) * e2 * r0
            pts.append([r * np.cos(ph), r * np.sin(ph), z])
    elif cls == "CylinderSegment":
        r1, r2, h, p1, p2 = kw["dimension"]
        for _ in range(14):
            r = rng.choice(vals(r1) + vals(r2) + [0.0, 5e-324, (r1 + r2) / 2])
            ph = np.radians(rng.choice(vals(p1) + vals(p2) + [(p1 + p2) / 2, p1 + 180, 0.0, 90.0]))
            z = rng.choice(vals(h / 2) + [0.0, 0.4 * h, -0.4 * h])
            pts.append([abs(r) * np.cos(ph), abs(r) * np.sin(ph), z])
        pts += [[-5e-324, 0, 0.4 * h], [-5e-324, 0, -0.4 * h], [0, 0, 0.4 * h]]
        # the apex line (axis) incl. its end points: for a wedge (r1 = 0) whose range does not contain azimuth 0 the surface mask
        # missed it (arctan2(0, 0) = 0) and the end points met the unhandled case ids 111 / 121 / 131
        pts += [[0.0, 0.0, h / 2], [0.0, 0.0, -h / 2], [0.0, 0.0, 0.3 * h], [0.0, 0.0, -0.1 * h]]
        # 5e-13 (in units of r2) outside vertices and edges: inside the 1e-12 of `close` (determine_cases), formerly outside the
        # wrapper's 1e-14 slabs - neither surface nor inside, unhandled case id 114 next to a vertex
        e = 5e-13 * r2
        for rv in ([r2, r1] if r1 else [r2]):
            for p in (p1, p2):
                a = np.radians(p)
                for sg in (1, -1):
                    pts.append([(rv + e) * np.cos(a), (rv + e) * np.sin(a), sg * (h / 2 + e)])
            am = np.radians((p1 + p2) / 2)
            pts.append([(rv + e) * np.cos(am), (rv + e) * np.sin(am), h / 2 + e])
            pts.append([(rv + e) * np.cos(np.radians(p1)), (rv + e) * np.sin(np.radians(p1)), 0.2 * h])
    elif cls == "Sphere":
        R = kw["diameter"] / 2
        for c in vals(R):
            d = nps.normal(size=3)
            pts.append(list(d / np.linalg.norm(d) * c))
            pts.append([c, 0, 0])
    elif cls in ("Triangle", "Tetrahedron", "TriangularMesh", "Polyline"):
        v = np.asarray(kw["vertices"], float)
        for _ in range(10):
            i, j = rng.sample(range(len(v)), 2)
            t = rng.choice([0.5, 0.0, 1.0, -0.5, 1.5, nudge(0.5, 1), 1e-300])
            pts.append(list(v[i] + t * (v[j] - v[i])))  # on edges / wire / extensions (vertices are documented singular for triangles)
        if len(v) >= 3:
            pts.append(list(v[:3].mean(axis=0)))  # in a face plane
        if cls != "Polyline" and len(v) >= 3:
            # close to an edge line of the sheet(s), where the earlier edge integral switched formulas inside a cone (`ind <= 1e-12 l`)
            # and returned NaN / values wrong by O(polarization); the repaired kernel is ASSERTED to be finite and accurate here
            # (reference: oracles/tri_reference.py).  Tagged in `acc`.
            def perp(L):
                d = np.cross(L, nps.normal(size=3))
                return d / np.linalg.norm(d) * np.linalg.norm(L) if np.linalg.norm(d) > 0 and np.linalg.norm(L) > 0 else None
            for _ in range(4):  # next to a vertex, displaced perpendicular to an edge that ends there by 1e-10 ... 1e-6 edge lengths
                i, j = rng.sample(range(len(v)), 2)
                d = perp(v[j] - v[i])
                if d is not None:
                    acc.append(len(pts))
                    pts.append(list(v[j] + d * 10.0 ** rng.choice([-10, -9.5, -9, -8.5, -7, -6])))
            for _ in range(3):  # inside the former cone beyond the end vertex: 1e-6 ... 2 edge lengths out, 1e-12 ... 1e-5 off the line
                i, j = rng.sample(range(len(v)), 2)
                d = perp(v[j] - v[i])
                if d is not None:
                    acc.append(len(pts))
                    pts.append(list(v[j] + rng.choice([1e-6, 1e-3, 0.3, 2.0]) * (v[j] - v[i]) + d * 10.0 ** rng.choice([-12, -10, -8, -7, -6, -5])))
            for _ in range(2):  # alongside an edge, 1e-8 ... 1e-5 edge lengths off it
                i, j = rng.sample(range(len(v)), 2)
                d = perp(v[j] - v[i])
                if d is not None:
                    acc.append(len(pts))
                    pts.append(list(v[i] + rng.choice([1e-6, 0.2, 0.5, 0.9, 1 - 1e-6]) * (v[j] - v[i]) + d * 10.0 ** rng.choice([-8, -7, -6, -5])))
            # exactly on the extension of an edge, both directions (finite, continuous)
            i, j = rng.sample(range(len(v)), 2)
            acc.append(len(pts))
            pts.append(list(v[j] + 2.0 * (v[j] - v[i])))
    return [[float(x) for x in p] for p in pts]


def make_cases(ctx, n):
    rng, cases = ctx.rng, []
    for i in range(n):
        nps = np.random.default_rng(rng.randrange(2**31))
        cls = CLASSES[i % len(CLASSES)]
        kw = params(cls, nps)
        if cls == "CylinderSegment" and (i // len(CLASSES)) % 2 == 1 and kw["dimension"][4] - kw["dimension"][3] < 360:
            kw["dimension"] = (0.0,) + tuple(kw["dimension"][1:])  # every second segment is a wedge without bore (apex line on the axis)
        variant = rng.choice(["plain", "plain", "zero-exc", "zero-size", "huge", "tiny"])
        exc = [k for k in kw if k in ("polarization", "current", "moment")][0]
        if variant == "zero-exc":
            kw[exc] = np.zeros_like(np.asarray(kw[exc], float)) if np.ndim(kw[exc]) else 0.0
        elif variant == "zero-size" and cls in ("Cuboid", "Cylinder", "Sphere", "Circle"):
            key = "dimension" if "dimension" in kw else "diameter"
            if np.ndim(kw[key]):
                kw[key] = np.array(kw[key], float)
                kw[key][rng.randrange(len(kw[key]))] = 0.0 if key != "dimension" else kw[key][0]  # dimension must stay > 0
            else:
                kw[key] = 0.0
        elif variant == "zero-size" and cls in ("Tetrahedron", "Triangle", "Polyline"):
            # zero volume / area / length: the last vertex moved into the span of the others (flat tetrahedron, needle triangle,
            # polyline with a repeated vertex)
            v = np.array(kw["vertices"], float)
            v[-1] = v[0] + 0.25 * (v[1] - v[0]) + (0.5 * (v[2] - v[0]) if cls == "Tetrahedron" else 0.0) if cls != "Polyline" else v[-2]
            kw["vertices"] = v
        elif variant == "zero-size" and cls == "TriangularMesh":
            # one extra face without area (a duplicated vertex): must contribute nothing.  The observers of this variant are kept
            # outside the body (the inside test of a mesh with a degenerate face is not what is checked here).
            # The faces are oriented outward here (the bodies are convex) and the mesh checks / the reorientation are skipped: given
            # the degenerate face, reorient_faces turns such a mesh inside out (a mesh-validity matter, not the sheet kernel).
            v = np.array(kw["vertices"], float)
            f = np.array(kw["faces"])
            cen = v.mean(axis=0)
            f = np.array([t if np.dot(np.cross(v[t[1]] - v[t[0]], v[t[2]] - v[t[0]]), v[list(t)].mean(axis=0) - cen) > 0 else [t[0], t[2], t[1]] for t in f.tolist()])
            a, b = int(f[0][0]), int(f[0][1])
            kw["vertices"] = np.vstack([v, v[a]])
            kw["faces"] = np.vstack([f, [a, len(v), b]])
            kw.update(reorient_faces="skip", check_open="skip", check_disconnected="skip", check_selfintersecting="skip")
        elif variant in ("huge", "tiny") and cls != "TriangularMesh":
            s = 1e9 if variant == "huge" else 1e-9
            for k in ("dimension", "diameter", "vertices"):
                if k in kw:
                    v = np.array(kw[k], float)
                    if cls == "CylinderSegment":
                        v[:3] *= s
                    else:
                        v = v * s
                    kw[k] = v if np.ndim(v) else float(v)
        acc = []
        vertex_singular = cls in ("Triangle", "Tetrahedron", "TriangularMesh")
        if cls == "TriangularMesh" and variant == "zero-size":
            v = np.asarray(kw["vertices"], float)
            rad = float(np.max(np.linalg.norm(v, axis=1)))
            pts = [[float(x) for x in (lambda d: d / np.linalg.norm(d) * rad * rng.choice([1.01, 1.5, 4.0, 1e3]))(nps.normal(size=3))] for _ in range(8)]
        else:
            pts = special_points(cls, kw, rng, nps, acc)
        cases.append({"id": i, "cls": cls, "variant": variant, "kw": {k: (v if isinstance(v, str) else np.asarray(v).tolist() if np.ndim(v) else float(v)) for k, v in kw.items()},
                      "obs": pts, "vertex_singular": vertex_singular, "want_values": vertex_singular, "acc": acc})
    return cases


# deterministic regression inputs of the two repaired defects of triangle_Bfield (known_findings.json, `fixed`): evaluated on every
# sweep; they carry the accuracy assertion on every observer
def regression_cases(first_id):
    pol = [0.3, -0.7, 0.5]
    obs = [[1.0, 2.5e-9, 0.0], [1.0, 1e-7, 0.0], [1.0, 1e-9, 1e-9], [1.0 + 1e-6, 1e-12, 0.0], [2.0, 1e-9, 0.0], [0.5, 1e-8, 0.0], [3.0, 0.0, 0.0], [-1.0, 0.0, 0.0]]
    tet = [[0, 0, 0], [1, 0, 0], [0, 1, 0], [0, 0, 1]]
    out = [
        {"cls": "Triangle", "variant": "plain", "kw": {"vertices": tet[:3], "polarization": pol}, "obs": obs},
        {"cls": "Tetrahedron", "variant": "plain", "kw": {"vertices": tet, "polarization": pol}, "obs": obs},
        {"cls": "TriangularMesh", "variant": "plain", "kw": {"vertices": tet, "faces": [[0, 2, 1], [0, 1, 3], [1, 2, 3], [0, 3, 2]], "polarization": pol}, "obs": obs},
        {"cls": "Triangle", "variant": "zero-size", "kw": {"vertices": [[0, 0, 0], [1, 0, 0], [0.25, 0, 0]], "polarization": [0.1, 0.2, 0.3]},
         "obs": [[0.3, 0.4, 0.5], [0.5, 0.0, 0.0], [2.0, 0.0, 0.0], [0.0, 0.0, 0.0]]},
        {"cls": "TriangularMesh", "variant": "zero-size", "kw": {"vertices": tet + [[0, 0, 0]], "faces": [[0, 2, 1], [0, 1, 3], [1, 2, 3], [0, 3, 2], [0, 4, 1]], "polarization": pol,
                                                                 "reorient_faces": "skip", "check_open": "skip", "check_disconnected": "skip", "check_selfintersecting": "skip"},
         "obs": [[1.0, 1.0, 1.0], [-0.3, 0.4, 2.5], [30.0, -20.0, 10.0]]},
    ]
    for k, c in enumerate(out):
        c.update(id=first_id + k, vertex_singular=True, want_values=True, acc=list(range(len(c["obs"]))), regression=True)
    # bodies without volume through the functional interface (the classes refuse a side length of 0, the field functions document
    # it as 'no field'): sheets in the three orientations, lines, a point; observers on the rim, at the corners, on the line, in the
    # sheet, beside it and far away — every value is finite
    fun = []
    for dim in ([0, 2, 2], [2, 0, 2], [2, 2, 0], [0, 0, 2], [0, 3, 0], [0, 0, 0]):
        a_ = [d_ / 2 for d_ in dim]
        obsf = [[a_[0], a_[1], a_[2]], [a_[0], a_[1], 0.0], [a_[0], 0.0, a_[2]], [0.0, a_[1], a_[2]], [0.0, 0.0, 0.0], [a_[0], a_[1] * 0.3, a_[2] * 0.3], [0.3, 0.2, 0.1], [3.0, 2.0, 1.0],
                [-a_[0], -a_[1], a_[2]], [a_[0] + 1e-12, a_[1], a_[2]]]
        fun.append({"cls": "Cuboid", "variant": "functional-zero-volume", "kw": {"dimension": dim, "polarization": pol}, "obs": obsf})
    # (a Cylinder of diameter 0 is not handled by its field function — NaN everywhere — and refused by the class: not a documented input)
    fun.append({"cls": "Sphere", "variant": "functional-zero-volume", "kw": {"diameter": 0, "polarization": pol}, "obs": [[0, 0, 0], [1, 1, 1]]})
    for k, c in enumerate(fun):
        c.update(id=first_id + len(out) + k, vertex_singular=False, want_values=False, acc=[], regression=True, functional=True)
    return out + fun


ACC_TOL = 1e-6  # relative to max(|reference|, |polarization|); the earlier kernel was off by O(1) here, the repaired one is within ~1e-13


def accuracy_fails(c, o):
    """accuracy / exact-zero assertions for the triangle-sheet classes on the tagged observers of one case"""
    from scipy.constants import mu_0

    from oracles import tri_reference as tr
    fails = []
    cls, kw = c["cls"], c["kw"]
    v = np.asarray(kw["vertices"], float)
    pol = np.asarray(kw["polarization"], float)
    if not all("val" in o["res"].get(f, {}) for f in "BHJ"):
        return fails
    B, H, J = (np.asarray(o["res"][f]["val"], float) for f in "BHJ")
    if cls == "Triangle" and c["variant"] == "zero-size":
        # a triangle without area carries no charge: exactly zero everywhere (earlier: NaN everywhere).  A sliver whose vertices are
        # collinear only up to rounding has a (noise) normal vector and a tiny finite field: finiteness is asserted by the sweep
        if np.linalg.norm(np.cross(v[1] - v[0], v[2] - v[0])) != 0:
            return fails
        for f, val in (("B", B), ("H", H)):
            if not np.all(val == 0):
                fails.append({"key": f"non-zero:Triangle:zero-size:{f}", "desc": f"get{f} of a Triangle without area is not identically 0",
                              "replay": {"class": cls, "kw": kw, "observer": c["obs"][int(np.argmax(~np.all(val == 0, axis=1)))], "field": f}})
        return fails
    if cls == "Tetrahedron" and c["variant"] == "zero-size":
        return fails  # flat tetrahedron: no outward orientation to build the reference from
    if cls == "Triangle":
        tris, sheet = [v], True
    elif cls == "Tetrahedron":
        tris, sheet = tr.outward_faces(v, [[0, 1, 2], [0, 1, 3], [0, 2, 3], [1, 2, 3]]), False
    else:
        faces = [f for f in np.asarray(kw["faces"]).tolist()]
        tris, sheet = tr.outward_faces(v, faces), False
    idx = c["acc"] if not (cls == "TriangularMesh" and c["variant"] == "zero-size") else list(range(len(c["obs"])))
    for j in idx:
        x = c["obs"][j]
        if np.min(np.linalg.norm(v - np.asarray(x), axis=1)) <= 1e-12 * (float(np.max(np.abs(v))) + 1e-300):
            continue  # a vertex to rounding: documented singular point
        if not (np.all(np.isfinite(B[j])) and np.all(np.isfinite(H[j]))):
            continue  # reported by the finiteness assertion
        ref = tr.sheet_B(tris[0], pol, x) if sheet else tr.body_B(tris, pol, x, J[j])
        if ref is None:
            continue  # observer on a closed edge of the reference
        ref = np.asarray(ref)
        refH = (ref - (0.0 if sheet else J[j])) / mu_0
        for f, val, rf, unit in (("B", B[j], ref, 1.0), ("H", H[j], refH, 1.0 / mu_0)):
            err = float(np.linalg.norm(val - rf) / max(np.linalg.norm(rf), np.linalg.norm(pol) * unit, 1e-300))
            if err > ACC_TOL:
                fails.append({"key": f"inaccurate:{cls}:near-edge-line:{f}",
                              "desc": f"get{f} of a {cls} differs from the extended-precision closed form by a relative {err:.2e} at an observer close to an edge line "
                                      f"(value {val.tolist()}, reference {rf.tolist()})",
                              "replay": {"class": cls, "kw": kw, "observer": x, "field": f, "value": val.tolist(), "reference": rf.tolist(), "relative_error": err}})
                break
    return fails


def run_batch(cases, wall):
    with tempfile.TemporaryDirectory() as td:
        p = os.path.join(td, "spec.json")
        json.dump(cases, open(p, "w"))
        try:
            r = subprocess.run([sys.executable, os.path.join(HERE, "c15_worker.py"), p, str(wall)], capture_output=True, text=True, timeout=wall + 20,
                               env={**os.environ, "PYTHONPATH": os.path.dirname(HERE) + ":" + os.environ.get("VERIF_REPO", "/repo")})
        except subprocess.TimeoutExpired as e:
            return None, (e.stdout or b"").decode() if isinstance(e.stdout, bytes) else (e.stdout or "")
        if os.path.exists(p + ".out"):
            return json.load(open(p + ".out")), r.stdout
        return None, r.stdout + r.stderr[-600:]


def sweep(ctx, n):
    cases = make_cases(ctx, n)
    cases += regression_cases(len(cases))
    fails, done, hung, acc_done = [], 0, 0, 0
    B = 10
    for i in range(0, len(cases), B):
        batch = cases[i:i + B]
        out, log = run_batch(batch, 25 + 3 * len(batch))
        if out is None:
            # find the case that did not finish
            last = [ln for ln in log.splitlines() if ln.startswith("CASE")]
            cid = int(last[-1].split()[1]) if last else batch[0]["id"]
            c = next(x for x in batch if x["id"] == cid)
            hung += 1
            if hung >= 3:  # enough evidence; every further hanging batch would cost its full wall limit
                fails.append({"key": f"hang-or-crash:{c['cls']}:{c['variant']}", "desc": "field evaluation did not terminate within the wall limit (or the worker crashed)",
                              "replay": {"class": c["cls"], "kw": c["kw"], "observers": c["obs"], "log_tail": log[-400:]}})
                break
            fails.append({"key": f"hang-or-crash:{c['cls']}:{c['variant']}", "desc": "field evaluation did not terminate within the wall limit (or the worker crashed)",
                          "replay": {"class": c["cls"], "kw": c["kw"], "observers": c["obs"], "log_tail": log[-400:]}})
            continue
        for c, o in zip(batch, out):
            done += len(c["obs"])
            if c["vertex_singular"]:
                af = accuracy_fails(c, o)
                acc_done += len(c.get("acc", []))
                seen_keys = {f["key"] for f in fails}
                fails += [f for f in af if f["key"] not in seen_keys][:2]
            for f, r in o["res"].items():
                if r["shape"] != [1, 1, 1, len(c["obs"]), 3] and r["shape"] != [1, 1, 1, 1, 3]:
                    fails.append({"key": f"shape:{c['cls']}", "desc": f"unexpected output shape {r['shape']}", "replay": {"class": c["cls"]}})
                bad = [j for j, ok in enumerate(r["finite"]) if not ok]
                if c["cls"] == "Dipole":
                    bad = [j for j in bad if any(abs(x) > 0 for x in c["obs"][j])]  # the dipole position itself is the documented singular point
                if c["vertex_singular"]:
                    # vertices are the documented singular points; an observer within rounding distance (1e-12 sizes) of a
                    # vertex (e.g. v_i + 1.0*(v_j - v_i)) is that vertex
                    v = np.asarray(c["kw"]["vertices"], float)
                    size = float(np.max(np.abs(v))) + 1e-300
                    bad = [j for j in bad if np.min(np.linalg.norm(v - np.asarray(c["obs"][j]), axis=1)) > 1e-12 * size]
                    # observers within 1e-7 sizes of a vertex but not the vertex itself: own key (the earlier edge integral took
                    # log(0) there, r rounding to l in its second branch; repaired — a recurrence is a violation)
                    nearv = [j for j in bad if np.min(np.linalg.norm(v - np.asarray(c["obs"][j]), axis=1)) < 1e-7 * size]
                    if nearv:
                        fails.append({"key": f"non-finite:{c['cls']}:near-vertex:{f}",
                                      "desc": f"get{f} is not finite at an observer a relative 1e-10 … 1e-8 beside a vertex of a {c['cls']} (not the vertex itself)",
                                      "replay": {"class": c["cls"], "kw": c["kw"], "observer": c["obs"][nearv[0]], "field": f}})
                    bad = [j for j in bad if j not in nearv]
                if bad and c["cls"] == "Cuboid":
                    # observers closer than 1e-9 (relative) to an edge line but outside the 1e-15 edge mask: own key
                    a_ = np.abs(np.asarray(c["kw"]["dimension"], float)) / 2
                    near = [j for j in bad if np.all(a_ > 0) and np.sum(np.abs(np.abs(np.asarray(c["obs"][j])) - a_) / a_ < 1e-7) >= 2]
                    if near:
                        fails.append({"key": f"non-finite:Cuboid:near-edge:{f}", "desc": f"get{f} is not finite at an observer a relative 1e-14 … 1e-8 off an edge line of a Cuboid",
                                      "replay": {"class": "Cuboid", "kw": c["kw"], "observer": c["obs"][near[0]], "field": f}})
                    bad = [j for j in bad if j not in near]
                if bad and (c["cls"] == "Dipole" or (c["cls"] == "Sphere" and c["variant"] == "zero-size")):
                    # (audit hardening) the recorded findings non-finite:Dipole:* / non-finite:Sphere:zero-size:* are about observers at
                    # denormal distance (r**5 underflows, |obs| < ~1e-65); a non-finite value at any OTHER observer must not inherit
                    # that key, or a new defect would be printed as KNOWN-FINDING
                    at_pos = [j for j in bad if c["cls"] == "Sphere" and all(x == 0 for x in c["obs"][j])]
                    if at_pos:  # exactly AT the position of a sphere without size: no distance underflows there, the value is 0
                        fails.append({"key": f"non-finite:{c['cls']}:{c['variant']}:{f}:at-its-position",
                                      "desc": f"get{f} of a Sphere of diameter 0 is not finite exactly at the sphere's own position",
                                      "replay": {"class": c["cls"], "kw": c["kw"], "observer": c["obs"][at_pos[0]], "field": f}})
                    bad = [j for j in bad if j not in at_pos]
                    far = [j for j in bad if max(abs(x) for x in c["obs"][j]) >= 1e-60]
                    if far:
                        fails.append({"key": f"non-finite:{c['cls']}:{c['variant']}:{f}:ordinary-distance",
                                      "desc": f"get{f} is not finite at a finite observer that is NOT at denormal distance from the source position",
                                      "replay": {"class": c["cls"], "kw": c["kw"], "observer": c["obs"][far[0]], "field": f}})
                    bad = [j for j in bad if j not in far]
                if bad:
                    j = bad[0]
                    fails.append({"key": f"non-finite:{c['cls']}:{c['variant']}:{f}", "desc": f"get{f} is not finite at a finite observer",
                                  "replay": {"class": c["cls"], "kw": c["kw"], "observer": c["obs"][j], "field": f}})
    return fails, {"c15_observers": done, "c15_cases": len(cases), "c15_hung_batches": hung, "c15_triangle_accuracy_observers": acc_done}
