"""C15 failing-input search: per geometry the exact special sets (faces, edges, corners, apex, axis, wire,
segment extension lines, r/r0 thresholds, phi limits, the apex line of wedges, the 5e-13 shell around CylinderSegment
vertices and edges) and their +-1,2,4 ulp and denormal neighbours,
zero-size / zero-excitation sources, distances up to 1e12 sizes.  Evaluated in watchdogged worker
processes: a hang is reported with the batch that hung."""
import json
import os
import subprocess
import sys
import tempfile

import numpy as np

from oracles.sources import CLASSES, params

HERE = os.path.dirname(os.path.abspath(__file__))


def nudge(x, k):
    y = float(x)
    for _ in range(abs(k)):
        y = np.nextafter(y, np.inf if k > 0 else -np.inf)
    return y


def special_points(cls, kw, rng, nps):
    pts = [[0.0, 0.0, 0.0], [1e12, -3e11, 2e11], [5e-324, 0, 0], [0, 0, 1e-200], [1e-160, 1e-160, 1e-160]]
    vals = lambda c: [c, nudge(c, 1), nudge(c, -1), nudge(c, 4), nudge(c, -4), -c]
    if cls == "Cuboid":
        a = np.asarray(kw["dimension"]) / 2
        for _ in range(10):
            p = list(nps.uniform(-1.2, 1.2, 3) * a)
            for ax in rng.sample(range(3), rng.choice([1, 2, 3])):
                p[ax] = rng.choice(vals(a[ax]))
            pts.append(p)
        # just outside the wrapper's 1e-15 edge mask: relative offsets 1e-14 ... 1e-9 from an edge line
        for _ in range(4):
            p = list(nps.uniform(-0.9, 0.9, 3) * a)
            ax1, ax2 = rng.sample(range(3), 2)
            e = 10.0 ** rng.choice([-14, -13, -12, -11, -9, -8])
            p[ax1] = rng.choice([-1, 1]) * a[ax1] * (1 + rng.choice([-1, 1]) * e)
            p[ax2] = rng.choice([-1, 1]) * a[ax2] * (1 + rng.choice([-1, 0, 1]) * e)
            pts.append(p)
    elif cls in ("Cylinder", "Circle"):
        r0 = (kw["dimension"][0] if cls == "Cylinder" else kw["diameter"]) / 2
        h = kw["dimension"][1] / 2 if cls == "Cylinder" else 0.0
        for _ in range(12):
            ph = rng.choice([0.0, np.pi / 2, np.pi, nps.uniform(0, 6.28)])
            r = rng.choice(vals(r0) + [0.05 * r0, nudge(0.05 * r0, 1), nudge(0.05 * r0, -1), 0.0, 1e-300])
            z = rng.choice(vals(h) + [0.0, 1e-200, -1e-310, nps.uniform(-2, 2) * max(h, r0)])
            pts.append([r * np.cos(ph), r * np.sin(ph), z])
        # close to the wire / the edge but outside the 1e-15 masks: relative offsets 1e-14 ... 1e-6 in r and z
        for _ in range(6):
            e1, e2 = 10.0 ** rng.choice([-14, -12, -10, -9, -8, -6]), 10.0 ** rng.choice([-14, -12, -10, -9, -8, -6])
            ph = rng.choice([0.0, np.pi / 2, nps.uniform(0, 6.28)])
            r = r0 * (1 + rng.choice([-1, 0, 1]) * e1)
            z = (h if h else 0.0) * rng.choice([-1, 1]) + rng.choice([-1, 1]) * e2 * r0
            pts.append([r * np.cos(ph), r * np.sin(ph), z])
    elif cls == "CylinderSegment":
        r1, r2, h, p1, p2 = kw["dimension"]
        for _ in range(14):
            r = rng.choice(vals(r1) + vals(r2) + [0.0, 5e-324, (r1 + r2) / 2])
            ph = np.radians(rng.choice(vals(p1) + vals(p2) + [(p1 + p2) / 2, p1 + 180, 0.0, 90.0]))
            z = rng.choice(vals(h / 2) + [0.0, 0.4 * h, -0.4 * h])
            pts.append([abs(r) * np.cos(ph), abs(r) * np.sin(ph), z])
        pts += [[-5e-324, 0, 0.4 * h], [-5e-324, 0, -0.4 * h], [0, 0, 0.4 * h]]
        # the apex line (axis) incl. its end points: for a wedge (r1 = 0) whose range does not contain azimuth 0 the surface mask
        # missed it (arctan2(0, 0) = 0) and the end points met the unhandled case ids 111 / 121 / 131
        pts += [[0.0, 0.0, h / 2], [0.0, 0.0, -h / 2], [0.0, 0.0, 0.3 * h], [0.0, 0.0, -0.1 * h]]
        # 5e-13 (in units of r2) outside vertices and edges: inside the 1e-12 of `close` (determine_cases), formerly outside the
        # wrapper's 1e-14 slabs - neither surface nor inside, unhandled case id 114 next to a vertex
        e = 5e-13 * r2
        for rv in ([r2, r1] if r1 else [r2]):
            for p in (p1, p2):
                a = np.radians(p)
                for sg in (1, -1):
                    pts.append([(rv + e) * np.cos(a), (rv + e) * np.sin(a), sg * (h / 2 + e)])
            am = np.radians((p1 + p2) / 2)
            pts.append([(rv + e) * np.cos(am), (rv + e) * np.sin(am), h / 2 + e])
            pts.append([(rv + e) * np.cos(np.radians(p1)), (rv + e) * np.sin(np.radians(p1)), 0.2 * h])
    elif cls == "Sphere":
        R = kw["diameter"] / 2
        for c in vals(R):
            d = nps.normal(size=3)
            pts.append(list(d / np.linalg.norm(d) * c))
            pts.append([c, 0, 0])
    elif cls in ("Triangle", "Tetrahedron", "TriangularMesh", "Polyline"):
        v = np.asarray(kw["vertices"], float)
        for _ in range(10):
            i, j = rng.sample(range(len(v)), 2)
            t = rng.choice([0.5, 0.0, 1.0, -0.5, 1.5, nudge(0.5, 1), 1e-300])
            pts.append(list(v[i] + t * (v[j] - v[i])))  # on edges / wire / extensions (vertices are documented singular for triangles)
        if len(v) >= 3:
            pts.append(list(v[:3].mean(axis=0)))  # in a face plane
        if cls != "Polyline" and len(v) >= 3:
            # next to a vertex, displaced perpendicular to an edge that ends there by 1e-10 ... 1e-6 edge lengths (the cone of
            # the second branch of the edge integral of triangle_Bfield; Props/C15 triangle_cap_singular)
            for _ in range(4):
                i, j = rng.sample(range(len(v)), 2)
                L = v[j] - v[i]
                d = np.cross(L, nps.normal(size=3))
                if np.linalg.norm(d) > 0 and np.linalg.norm(L) > 0:
                    d = d / np.linalg.norm(d) * np.linalg.norm(L) * 10.0 ** rng.choice([-10, -9.5, -9, -8.5, -7, -6])
                    pts.append(list(v[j] + d))
    return [[float(x) for x in p] for p in pts]


def make_cases(ctx, n):
    rng, cases = ctx.rng, []
    for i in range(n):
        nps = np.random.default_rng(rng.randrange(2**31))
        cls = CLASSES[i % len(CLASSES)]
        kw = params(cls, nps)
        if cls == "CylinderSegment" and (i // len(CLASSES)) % 2 == 1 and kw["dimension"][4] - kw["dimension"][3] < 360:
            kw["dimension"] = (0.0,) + tuple(kw["dimension"][1:])  # every second segment is a wedge without bore (apex line on the axis)
        variant = rng.choice(["plain", "plain", "zero-exc", "zero-size", "huge", "tiny"])
        exc = [k for k in kw if k in ("polarization", "current", "moment")][0]
        if variant == "zero-exc":
            kw[exc] = np.zeros_like(np.asarray(kw[exc], float)) if np.ndim(kw[exc]) else 0.0
        elif variant == "zero-size" and cls in ("Cuboid", "Cylinder", "Sphere", "Circle"):
            key = "dimension" if "dimension" in kw else "diameter"
            if np.ndim(kw[key]):
                kw[key] = np.array(kw[key], float)
                kw[key][rng.randrange(len(kw[key]))] = 0.0 if key != "dimension" else kw[key][0]  # dimension must stay > 0
            else:
                kw[key] = 0.0
        elif variant == "zero-size" and cls in ("Tetrahedron", "Triangle", "Polyline"):
            # zero volume / area / length: the last vertex moved into the span of the others (flat tetrahedron, needle triangle,
            # polyline with a repeated vertex)
            v = np.array(kw["vertices"], float)
            v[-1] = v[0] + 0.25 * (v[1] - v[0]) + (0.5 * (v[2] - v[0]) if cls == "Tetrahedron" else 0.0) if cls != "Polyline" else v[-2]
            kw["vertices"] = v
        elif variant in ("huge", "tiny") and cls != "TriangularMesh":
            s = 1e9 if variant == "huge" else 1e-9
            for k in ("dimension", "diameter", "vertices"):
                if k in kw:
                    v = np.array(kw[k], float)
                    if cls == "CylinderSegment":
                        v[:3] *= s
                    else:
                        v = v * s
                    kw[k] = v if np.ndim(v) else float(v)
        pts = special_points(cls, kw, rng, nps)
        vertex_singular = cls in ("Triangle", "Tetrahedron", "TriangularMesh")
        cases.append({"id": i, "cls": cls, "variant": variant, "kw": {k: (np.asarray(v).tolist() if np.ndim(v) else float(v)) for k, v in kw.items()},
                      "obs": pts, "vertex_singular": vertex_singular})
    return cases


def run_batch(cases, wall):
    with tempfile.TemporaryDirectory() as td:
        p = os.path.join(td, "spec.json")
        json.dump(cases, open(p, "w"))
        try:
            r = subprocess.run([sys.executable, os.path.join(HERE, "c15_worker.py"), p, str(wall)], capture_output=True, text=True, timeout=wall + 20,
                               env={**os.environ, "PYTHONPATH": os.path.dirname(HERE) + ":" + os.environ.get("VERIF_REPO", "/repo")})
        except subprocess.TimeoutExpired as e:
            return None, (e.stdout or b"").decode() if isinstance(e.stdout, bytes) else (e.stdout or "")
        if os.path.exists(p + ".out"):
            return json.load(open(p + ".out")), r.stdout
        return None, r.stdout + r.stderr[-600:]


def sweep(ctx, n):
    cases = make_cases(ctx, n)
    fails, done, hung = [], 0, 0
    B = 10
    for i in range(0, len(cases), B):
        batch = cases[i:i + B]
        out, log = run_batch(batch, 25 + 3 * len(batch))
        if out is None:
            # find the case that did not finish
            last = [ln for ln in log.splitlines() if ln.startswith("CASE")]
            cid = int(last[-1].split()[1]) if last else batch[0]["id"]
            c = next(x for x in batch if x["id"] == cid)
            hung += 1
            if hung >= 3:  # enough evidence; every further hanging batch would cost its full wall limit
                fails.append({"key": f"hang-or-crash:{c['cls']}:{c['variant']}", "desc": "field evaluation did not terminate within the wall limit (or the worker crashed)",
                              "replay": {"class": c["cls"], "kw": c["kw"], "observers": c["obs"], "log_tail": log[-400:]}})
                break
            fails.append({"key": f"hang-or-crash:{c['cls']}:{c['variant']}", "desc": "field evaluation did not terminate within the wall limit (or the worker crashed)",
                          "replay": {"class": c["cls"], "kw": c["kw"], "observers": c["obs"], "log_tail": log[-400:]}})
            continue
        for c, o in zip(batch, out):
            done += len(c["obs"])
            for f, r in o["res"].items():
                if r["shape"] != [1, 1, 1, len(c["obs"]), 3] and r["shape"] != [1, 1, 1, 1, 3]:
                    fails.append({"key": f"shape:{c['cls']}", "desc": f"unexpected output shape {r['shape']}", "replay": {"class": c["cls"]}})
                bad = [j for j, ok in enumerate(r["finite"]) if not ok]
                if c["cls"] == "Dipole":
                    bad = [j for j in bad if any(abs(x) > 0 for x in c["obs"][j])]  # the dipole position itself is the documented singular point
                if c["vertex_singular"]:
                    # vertices are the documented singular points; an observer within rounding distance (1e-12 sizes) of a
                    # vertex (e.g. v_i + 1.0*(v_j - v_i)) is that vertex
                    v = np.asarray(c["kw"]["vertices"], float)
                    size = float(np.max(np.abs(v))) + 1e-300
                    bad = [j for j in bad if np.min(np.linalg.norm(v - np.asarray(c["obs"][j]), axis=1)) > 1e-12 * size]
                    # observers within 1e-7 sizes of a vertex but not the vertex itself: own key (r rounds to l in the second
                    # branch of the edge integral, log(0))
                    nearv = [j for j in bad if np.min(np.linalg.norm(v - np.asarray(c["obs"][j]), axis=1)) < 1e-7 * size]
                    if nearv:
                        fails.append({"key": f"non-finite:{c['cls']}:near-vertex:{f}",
                                      "desc": f"get{f} is not finite at an observer a relative 1e-10 … 1e-8 beside a vertex of a {c['cls']} (not the vertex itself)",
                                      "replay": {"class": c["cls"], "kw": c["kw"], "observer": c["obs"][nearv[0]], "field": f}})
                    bad = [j for j in bad if j not in nearv]
                if bad and c["cls"] == "Cuboid":
                    # observers closer than 1e-9 (relative) to an edge line but outside the 1e-15 edge mask: own key
                    a_ = np.abs(np.asarray(c["kw"]["dimension"], float)) / 2
                    near = [j for j in bad if np.all(a_ > 0) and np.sum(np.abs(np.abs(np.asarray(c["obs"][j])) - a_) / a_ < 1e-7) >= 2]
                    if near:
                        fails.append({"key": f"non-finite:Cuboid:near-edge:{f}", "desc": f"get{f} is not finite at an observer a relative 1e-14 … 1e-8 off an edge line of a Cuboid",
                                      "replay": {"class": "Cuboid", "kw": c["kw"], "observer": c["obs"][near[0]], "field": f}})
                    bad = [j for j in bad if j not in near]
                if bad and (c["cls"] == "Dipole" or (c["cls"] == "Sphere" and c["variant"] == "zero-size")):
                    # (audit hardening) the recorded findings non-finite:Dipole:* / non-finite:Sphere:zero-size:* are about observers at
                    # denormal distance (r**5 underflows, |obs| < ~1e-65); a non-finite value at any OTHER observer must not inherit
                    # that key, or a new defect would be printed as KNOWN-FINDING
                    far = [j for j in bad if max(abs(x) for x in c["obs"][j]) >= 1e-60]
                    if far:
                        fails.append({"key": f"non-finite:{c['cls']}:{c['variant']}:{f}:ordinary-distance",
                                      "desc": f"get{f} is not finite at a finite observer that is NOT at denormal distance from the source position",
                                      "replay": {"class": c["cls"], "kw": c["kw"], "observer": c["obs"][far[0]], "field": f}})
                    bad = [j for j in bad if j not in far]
                if bad:
                    j = bad[0]
                    fails.append({"key": f"non-finite:{c['cls']}:{c['variant']}:{f}", "desc": f"get{f} is not finite at a finite observer",
                                  "replay": {"class": c["cls"], "kw": c["kw"], "observer": c["obs"][j], "field": f}})
    return fails, {"c15_observers": done, "c15_cases": len(cases), "c15_hung_batches": hung}
