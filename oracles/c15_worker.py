"""worker: evaluates one batch of special-point cases under a hard wall limit (spawned by oracles/c15.py)"""
import faulthandler
import json
import sys
import warnings

import numpy as np


def main():
    faulthandler.dump_traceback_later(float(sys.argv[2]), exit=True)
    import magpylib as magpy
    spec = json.load(open(sys.argv[1]))
    out = []
    warnings.simplefilter("ignore")
    for case in spec:
        cls = case["cls"]
        ctor = getattr(magpy.magnet, cls, None) or getattr(magpy.current, cls, None) or getattr(magpy.misc, cls)
        kw = {k: (np.array(v) if isinstance(v, list) else v) for k, v in case["kw"].items()}
        obs = np.array(case["obs"], dtype=float)
        # the functional interface takes geometry the classes refuse (a side length of 0: a sheet, a line, a point)
        src = cls if case.get("functional") else ctor(**kw)
        res = {}
        print("CASE", case["id"], flush=True)
        for f in "BHJM":
            if case.get("functional"):
                v = np.asarray(getattr(magpy, "get" + f)(src, obs, **kw), dtype=float).reshape(1, 1, 1, len(obs), 3)
            else:
                v = getattr(magpy, "get" + f)(src, obs, squeeze=False)
            res[f] = {"shape": list(v.shape), "finite": np.isfinite(v).all(axis=-1).reshape(-1).tolist()}
            if case.get("want_values") and f in "BHJ":  # the triangle-sheet classes: values for the accuracy assertions of the parent
                res[f]["val"] = np.asarray(v, dtype=float).reshape(-1, 3).tolist()
        out.append({"id": case["id"], "res": res})
    json.dump(out, open(sys.argv[1] + ".out", "w"))


main()
