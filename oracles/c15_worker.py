"""worker: evaluates one batch of special-point cases under a hard wall limit (spawned by oracles/c15.py)"""
import faulthandler
import json
import sys
import warnings

import numpy as np


def main():
    faulthandler.dump_traceback_later(float(sys.argv[2]), exit=True)
    import magpylib as magpy
    spec = json.load(open(sys.argv[1]))
    out = []
    warnings.simplefilter("ignore")
    for case in spec:
        cls = case["cls"]
        ctor = getattr(magpy.magnet, cls, None) or getattr(magpy.current, cls, None) or getattr(magpy.misc, cls)
        kw = {k: (np.array(v) if isinstance(v, list) else v) for k, v in case["kw"].items()}
        src = ctor(**kw)
        obs = np.array(case["obs"], dtype=float)
        res = {}
        print("CASE", case["id"], flush=True)
        for f in "BHJM":
            v = getattr(magpy, "get" + f)(src, obs, squeeze=False)
            res[f] = {"shape": list(v.shape), "finite": np.isfinite(v).all(axis=-1).reshape(-1).tolist()}
            if case.get("want_values") and f in "BHJ":  # the triangle-sheet classes: values for the accuracy assertions of the parent
                res[f]["val"] = np.asarray(v, dtype=float).reshape(-1, 3).tolist()
        out.append({"id": case["id"], "res": res})
    json.dump(out, open(sys.argv[1] + ".out", "w"))


main()
