"""C09 failing-input search on the real code: a reference interpreter of the documented path
semantics (window / edge-padding / left-composition about the anchor), run with generic float
positions and generic rotations against real magpylib objects after every operation."""
import numpy as np
from scipy.spatial.transform import Rotation as R


def window(scalar, N, L, start):
    s = (0 if scalar else N) if start is None else (N + start if start < 0 else start)
    b = max(0, -s)
    s0 = max(0, s)
    new_len = max(N + b, s0 + (1 if scalar else L))
    stop = new_len if scalar else s0 + L
    return b, s0, new_len, stop


def clamp(i, n):
    return min(max(i, 0), n - 1)


def start_arg(s):
    """'auto', a Python int or (every third value) a numpy integer: the same index"""
    if s is None:
        return "auto"
    return [int, np.int64, np.int32][s % 3](s)


def ref_move(pos, quat, disp, start):
    scalar = disp.ndim == 1
    N = len(pos)
    L = 1 if scalar else len(disp)
    b, s0, n2, stop = window(scalar, N, L, start)
    P = np.array([pos[clamp(i - b, N)] for i in range(n2)])
    Q = np.array([quat[clamp(i - b, N)] for i in range(n2)])
    for i in range(s0, stop):
        P[i] = P[i] + (disp if scalar else disp[i - s0])
    return P, Q


def ref_rotate(pos, quat, rot, anchor, start):
    rq = rot.as_quat()
    rscalar = rq.ndim == 1
    ascalar = anchor is None or np.ndim(anchor) <= 1
    scalar = rscalar and ascalar
    lr = 0 if rscalar else len(rq)
    la = 0 if ascalar else len(anchor)
    L = max(lr, la)
    N = len(pos)
    b, s0, n2, stop = window(scalar, N, L, start)
    P = np.array([pos[clamp(i - b, N)] for i in range(n2)])
    Q = np.array([quat[clamp(i - b, N)] for i in range(n2)])
    for i in range(s0, stop):
        k = i - s0
        r = R.from_quat(rq if rscalar else rq[min(k, lr - 1)])
        if anchor is not None:
            a = np.zeros(3) if (np.ndim(anchor) == 0) else (np.asarray(anchor, float) if ascalar else np.asarray(anchor[min(k, la - 1)], float))
            P[i] = r.apply(P[i] - a) + a
        Q[i] = (r * R.from_quat(Q[i])).as_quat()
    return P, Q


def same_rot(qa, qb, tol):
    qa = np.atleast_2d(qa)
    qb = np.atleast_2d(qb)
    if qa.shape != qb.shape:
        return False
    d = np.abs(np.sum(qa * qb, axis=1))
    return bool(np.all(np.abs(d - 1) < tol))


def sweep(ctx, n_hist, n_ops):
    """returns list of failing inputs (dict key/desc/replay) and stats"""
    import magpylib as magpy

    rng = ctx.rng
    fails, ops_done, branch = [], 0, {}
    for _ in range(n_hist):
        n0 = rng.choice([1, 1, 2, 3, 5])
        p0 = np.array([[rng.uniform(-3, 3) for _ in range(3)] for _ in range(n0)])
        q0 = R.random(n0, rng=np.random.default_rng(rng.randrange(2**31)))
        obj = magpy.Sensor(position=p0, orientation=q0) if rng.random() < 0.5 else magpy.Collection(position=p0, orientation=q0)
        P, Q = np.array(obj._position), obj._orientation.as_quat().reshape(-1, 4)
        hist = []
        for _ in range(n_ops):
            N = len(P)
            start = None if rng.random() < 0.4 else rng.randint(-N - 3, N + 3)
            kind = rng.choice(["move", "rot", "rot", "angax", "euler", "setpos", "setori", "reset"])
            nps = np.random.default_rng(rng.randrange(2**31))
            if kind == "move":
                n = rng.choice([0, 1, 2, 3])
                disp = nps.uniform(-2, 2, 3) if rng.random() < 0.5 else nps.uniform(-2, 2, (n, 3))
                hist.append(("move", disp.tolist(), start))
                obj.move(disp, start=start_arg(start))
                P, Q = ref_move(P, Q, disp, start)
                branch[f"move-{'s' if disp.ndim == 1 else 'v'}"] = branch.get(f"move-{'s' if disp.ndim == 1 else 'v'}", 0) + 1
            elif kind == "rot":
                n = rng.choice([1, 2, 3])
                rot = R.random(rng=nps) if rng.random() < 0.5 else R.random(n, rng=nps)
                give_none = rng.random() < 0.15  # rotation=None is documented as the unit rotation: same path effects
                if give_none:
                    rot = R.identity()
                a = rng.random()
                anchor = None if a < 0.3 else (0 if a < 0.4 else (nps.uniform(-2, 2, 3) if a < 0.7 else nps.uniform(-2, 2, (rng.choice([1, 2, 4]), 3))))
                anchor_arg = anchor
                if rng.random() < 0.15:
                    # the anchor is a LIVE view of the object's own position path (`obj.rotate(rot, anchor=obj.position[k])`,
                    # `anchor=obj.position`): it names the same points as a copy of it
                    live = obj.position
                    anchor_arg = live if (live.ndim == 1 or rng.random() < 0.5) else live[rng.randrange(len(live))]
                    anchor = np.array(anchor_arg, dtype=float)
                    branch["live-anchor"] = branch.get("live-anchor", 0) + 1
                hist.append(("rot", rot.as_quat().tolist(), None if anchor is None else np.asarray(anchor).tolist(), start))
                obj.rotate(None if give_none else rot, anchor=anchor_arg, start=start_arg(start))
                P, Q = ref_rotate(P, Q, rot, anchor, start)
                branch["rot-none" if give_none else "rot"] = branch.get("rot-none" if give_none else "rot", 0) + 1
            elif kind in ("angax", "euler"):
                # the angle as the user may write it: a number, a numpy float, a list, a tuple or an ndarray — n angles are n rotations
                # (vector input, ALSO for n = 1), one number is one rotation of the whole path (scalar input)
                n = rng.choice([1, 1, 2, 3])
                scalar_in = rng.random() < 0.4
                ax_i = rng.randrange(3)
                axv = np.eye(3)[ax_i]
                angs = nps.uniform(-170, 170, n)
                if scalar_in:
                    a_ = float(angs[0])
                    angle_arg = rng.choice([a_, np.float64(a_), int(round(a_))])
                    rot = R.from_rotvec(np.radians(float(angle_arg)) * axv)
                else:
                    angle_arg = rng.choice([list(angs), tuple(angs), np.array(angs), np.linspace(angs[0], angs[-1], n)])
                    rot = R.from_rotvec(np.radians(np.asarray(angle_arg, dtype=float))[:, None] * axv)
                a = rng.random()
                anchor = None if a < 0.3 else (0 if a < 0.4 else nps.uniform(-2, 2, 3))
                hist.append((kind, np.asarray(angle_arg, dtype=float).tolist(), type(angle_arg).__name__, "xyz"[ax_i], None if anchor is None else np.asarray(anchor).tolist(), start))
                if kind == "angax":
                    obj.rotate_from_angax(angle_arg, "xyz"[ax_i] if rng.random() < 0.5 else tuple(axv * 2.5), anchor=anchor, start=start_arg(start))
                elif rng.random() < 0.5:
                    obj.rotate_from_euler(angle_arg, "xyz"[ax_i], anchor=anchor, start=start_arg(start))
                else:
                    # a sequence of two or three axes: ONE flat set of angles is one rotation (scalar input), an (n, W) array is n rotations
                    seq = rng.choice(["xy", "zx", "xyz", "zyx", "XYZ", "ZX"])
                    W = len(seq)
                    if scalar_in:
                        a2 = nps.uniform(-170, 170, W)
                        angle_arg = rng.choice([list(a2), tuple(a2), np.array(a2)])
                        rot = R.from_euler(seq, np.asarray(angle_arg, dtype=float), degrees=True)
                    else:
                        a2 = nps.uniform(-170, 170, (n, W))
                        angle_arg = rng.choice([a2.tolist(), np.array(a2)])
                        rot = R.from_euler(seq, np.asarray(angle_arg, dtype=float), degrees=True)
                    obj.rotate_from_euler(angle_arg, seq, anchor=anchor, start=start_arg(start))
                    branch[f"euler-multi:{'scalar' if scalar_in else 'vector'}:W={W}"] = branch.get(f"euler-multi:{'scalar' if scalar_in else 'vector'}:W={W}", 0) + 1
                P, Q = ref_rotate(P, Q, rot, anchor, start)
                branch[f"{kind}-{'scalar' if scalar_in else 'vector'}:{type(angle_arg).__name__}:n={1 if scalar_in else n}"] = branch.get(f"{kind}-{'scalar' if scalar_in else 'vector'}:{type(angle_arg).__name__}:n={1 if scalar_in else n}", 0) + 1
            elif kind == "setpos":
                n = rng.choice([1, 2, 4])
                v = nps.uniform(-2, 2, (n, 3))
                hist.append(("setpos", v.tolist()))
                obj.position = v
                M = n
                Q = np.array([Q[i + (len(Q) - M)] if M <= len(Q) else Q[min(i, len(Q) - 1)] for i in range(M)])
                P = v.copy()
            elif kind == "setori":
                n = rng.choice([1, 2, 4])
                r = R.random(n, rng=nps)
                hist.append(("setori", r.as_quat().tolist()))
                obj.orientation = r
                M = n
                P = np.array([P[i + (len(P) - M)] if M <= len(P) else P[min(i, len(P) - 1)] for i in range(M)])
                Q = r.as_quat().reshape(-1, 4)
            else:
                hist.append(("reset",))
                obj.reset_path()
                P, Q = np.zeros((1, 3)), np.array([[0.0, 0, 0, 1]])
            if rng.random() < 0.12:
                # a call that cannot be carried out (rotation that is not a number: NaN angle, rotation axis whose length
                # underflows to zero, Rotation object holding NaN) must be refused with the library's input error and must
                # leave the path as it is — with an anchor the position path used to be overwritten with NaN before scipy raised
                from magpylib._src.exceptions import MagpylibBadUserInput
                badk = rng.choice(["nan-angle", "tiny-axis", "nan-axis", "nan-rotation"])
                anchor_b = rng.choice([0, None, (1.0, -2.0, 0.5)])
                try:
                    with np.errstate(all="ignore"):
                        import warnings
                        with warnings.catch_warnings():
                            warnings.simplefilter("ignore")
                            if badk == "nan-angle":
                                obj.rotate_from_angax(float("nan"), "z", anchor=anchor_b)
                            elif badk == "tiny-axis":
                                obj.rotate_from_angax(90, (1e-170, 0, 0), anchor=anchor_b)
                            elif badk == "nan-axis":
                                obj.rotate_from_angax(90, (float("nan"), 0, 1), anchor=anchor_b)
                            else:
                                obj.rotate(R.from_rotvec([float("nan"), 0, 0]), anchor=anchor_b)
                    outcome = "accepted"
                except MagpylibBadUserInput:
                    outcome = "refused"
                except Exception as e:  # noqa: BLE001
                    outcome = f"foreign {type(e).__name__}"
                branch["refused-rotation"] = branch.get("refused-rotation", 0) + 1
                hist.append(("bad-rotation", badk, anchor_b if anchor_b is None or isinstance(anchor_b, int) else list(anchor_b)))
                if outcome != "refused":
                    fails.append({"key": f"path-semantics:bad-rotation:{badk}", "desc": f"rotate with a {badk} was {outcome} instead of refused with the library's input error",
                                  "replay": {"initial_position": p0.tolist(), "history": hist, "got_position": np.asarray(obj._position).tolist()}})
                    break
            ops_done += 1
            rp, rq = np.asarray(obj._position), obj._orientation.as_quat().reshape(-1, 4)
            ok = rp.shape == P.shape and len(rq) == len(rp) and len(rp) >= 1 and np.allclose(rp, P, atol=1e-9, rtol=1e-9) and same_rot(rq, Q, 1e-9)
            if not ok:
                fails.append({"key": f"path-semantics:{hist[-1][0]}", "desc": "real object differs from the documented path semantics",
                              "replay": {"initial_position": p0.tolist(), "initial_quat": q0.as_quat().tolist(), "history": hist,
                                         "expected_position": P.tolist(), "got_position": rp.tolist()}})
                break
        if len(fails) >= 3:
            break
    return fails, {"oracle_histories": n_hist, "oracle_ops": ops_done, "oracle_branches": branch}
