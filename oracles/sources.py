"""random valid sources of every registered class + observer samplers (shared by the oracles)"""
import numpy as np
from scipy.spatial.transform import Rotation as R

CLASSES = ["Cuboid", "Cylinder", "CylinderSegment", "Sphere", "Tetrahedron", "TriangularMesh", "Triangle", "Circle", "Polyline", "Dipole"]
MAGNETS = ["Cuboid", "Cylinder", "CylinderSegment", "Sphere", "Tetrahedron", "TriangularMesh"]

CUBE_FACES = None


def params(cls, nps, scale=1.0):
    """constructor kwargs (geometry + excitation) of a random valid source of size ~scale"""
    u = lambda a, b, *s: nps.uniform(a, b, *s)
    if cls == "Cuboid":
        return dict(dimension=u(0.5, 2, 3) * scale, polarization=u(-1, 1, 3))
    if cls == "Cylinder":
        return dict(dimension=u(0.5, 2, 2) * scale, polarization=u(-1, 1, 3))
    if cls == "CylinderSegment":
        r1 = u(0.2, 0.9)
        p1 = u(-350, 120) if nps.random() < 0.5 else u(-180, 120)  # documented range [-360, 360]: also ranges that start below -180
        if nps.random() < 0.35:  # the same angular ranges written one or two full turns away (valid input)
            p1 += 360.0 * float(nps.choice([-2, -1, 1, 2]))
        if nps.random() < 0.2:  # full ring (hollow cylinder): exactly 360 degrees
            p1 = float(np.round(p1))  # whole degrees: p1 + 360 - p1 == 360 exactly
            return dict(dimension=(r1 * scale, (r1 + u(0.3, 1)) * scale, u(0.5, 2) * scale, p1, p1 + 360.0), polarization=u(-1, 1, 3))
        return dict(dimension=(r1 * scale, (r1 + u(0.3, 1)) * scale, u(0.5, 2) * scale, p1, p1 + u(30, min(300, 355 - p1) if p1 < -180 else 300)), polarization=u(-1, 1, 3))
    if cls == "Sphere":
        return dict(diameter=u(0.5, 2) * scale, polarization=u(-1, 1, 3))
    if cls == "Tetrahedron":
        while True:
            v = u(-1, 1, (4, 3)) * scale
            if abs(np.linalg.det(v[1:] - v[0])) > 0.2 * scale**3:
                return dict(vertices=v, polarization=u(-1, 1, 3))
    if cls == "TriangularMesh" and nps.random() < 0.5:
        # lopsided convex bodies: a pyramid with an off-centre apex, or an uneven convex hull
        from scipy.spatial import ConvexHull
        if nps.random() < 0.5:
            b = u(0.6, 1.2)
            pts = np.array([[-b, -b, 0], [b, -b, 0], [b, b, 0], [-b, b, 0], [u(-0.4, 0.4), u(-0.4, 0.4), u(1.2, 2.2)]]) * scale
        else:
            pts = np.concatenate([u(-1, 1, (7, 3)) * [1, 1, 0.3], [[u(-0.2, 0.2), u(-0.2, 0.2), u(1.5, 2.5)]]]) * scale
        h = ConvexHull(pts)
        used = np.unique(h.simplices)
        remap = {int(v): i for i, v in enumerate(used)}
        faces = np.array([[remap[int(a)] for a in f] for f in h.simplices])
        return dict(vertices=pts[used], faces=faces, polarization=u(-1, 1, 3))
    if cls == "TriangularMesh":
        d = u(0.5, 1.5, 3) * scale
        verts = np.array([[x, y, z] for x in (-1, 1) for y in (-1, 1) for z in (-1, 1)]) * d / 2
        faces = np.array([[0, 1, 3], [0, 3, 2], [4, 6, 7], [4, 7, 5], [0, 4, 5], [0, 5, 1], [2, 3, 7], [2, 7, 6], [0, 2, 6], [0, 6, 4], [1, 5, 7], [1, 7, 3]])
        return dict(vertices=verts, faces=faces, polarization=u(-1, 1, 3))
    if cls == "Triangle":
        while True:
            v = u(-1, 1, (3, 3)) * scale
            if np.linalg.norm(np.cross(v[1] - v[0], v[2] - v[0])) > 0.3 * scale**2:
                return dict(vertices=v, polarization=u(-1, 1, 3))
    if cls == "Circle":
        return dict(diameter=u(0.5, 2) * scale, current=u(-2, 2))
    if cls == "Polyline":
        return dict(vertices=u(-1, 1, (int(nps.integers(2, 6)), 3)) * scale, current=u(-2, 2))
    if cls == "Dipole":
        return dict(moment=u(-1, 1, 3) * scale**3)
    raise ValueError(cls)


def make(cls, nps, scale=1.0, path=None, **over):
    import magpylib as magpy

    kw = params(cls, nps, scale)
    kw.update(over)
    ctor = {
        "Cuboid": magpy.magnet.Cuboid, "Cylinder": magpy.magnet.Cylinder, "CylinderSegment": magpy.magnet.CylinderSegment,
        "Sphere": magpy.magnet.Sphere, "Tetrahedron": magpy.magnet.Tetrahedron, "TriangularMesh": magpy.magnet.TriangularMesh,
        "Triangle": magpy.misc.Triangle, "Circle": magpy.current.Circle, "Polyline": magpy.current.Polyline, "Dipole": magpy.misc.Dipole,
    }[cls]
    obj = ctor(**kw)
    if path is not None:
        n = path
        obj.position = nps.uniform(-1, 1, (n, 3)) * scale
        obj.orientation = R.random(n, rng=nps)
    return obj


def far_points(nps, n, scale=1.0, lo=3.0, hi=8.0):
    """points well outside any source of size ~scale centred near the origin (distance lo..hi sizes)"""
    d = nps.normal(size=(n, 3))
    d /= np.linalg.norm(d, axis=1)[:, None]
    return d * nps.uniform(lo, hi, (n, 1)) * scale


def local_size(obj):
    import magpylib as magpy

    for attr in ("dimension", "vertices"):
        v = getattr(obj, attr, None)
        if v is not None:
            a = np.abs(np.asarray(v, float))
            if attr == "dimension" and a.size == 5:
                return float(max(a[1], a[2]))
            return float(a.max())
    d = getattr(obj, "diameter", None)
    return float(d) if d is not None else 1.0


def field_scale(obj):
    """natural magnitude of B for comparing absolute errors"""
    from magpylib import mu_0

    if hasattr(obj, "polarization") and obj.polarization is not None:
        return float(np.linalg.norm(obj.polarization)) + 1e-30
    if hasattr(obj, "current"):
        return mu_0 * abs(obj.current) / local_size(obj) + 1e-30
    if hasattr(obj, "moment"):
        return mu_0 * float(np.linalg.norm(obj.moment)) + 1e-30
    return 1.0


def interior_points(cls, src, nps, k=3):
    """points strictly inside the body (local frame), spread over the whole body incl. its far ends; None if not a body"""
    if cls == "Cuboid":
        return nps.uniform(-0.45, 0.45, (k, 3)) * np.asarray(src.dimension)
    if cls == "Cylinder":
        r = nps.uniform(0, 0.9, k) * src.dimension[0] / 2
        ph = nps.uniform(0, 2 * np.pi, k)
        return np.stack([r * np.cos(ph), r * np.sin(ph), nps.uniform(-0.45, 0.45, k) * src.dimension[1]], axis=1)
    if cls == "Sphere":
        d = nps.normal(size=(k, 3))
        return d / np.linalg.norm(d, axis=1)[:, None] * nps.uniform(0, 0.9, (k, 1)) * src.diameter / 2
    if cls == "CylinderSegment":
        r1, r2, h, p1, p2 = src.dimension
        r = nps.uniform(r1 + 0.1 * (r2 - r1), r2 - 0.1 * (r2 - r1), k)
        # azimuths stratified over the range (one point per k-th of it, in random order) ...
        w = p2 - p1
        phd = p1 + w * (nps.permutation(k) + nps.uniform(0.1, 0.9, k)) / k
        # ... and the part of the range beyond +-180 degrees (where the observer's principal azimuth differs by a full turn) gets
        # every other point, the points in between stay spread over the whole range (both ends of it included over the cases)
        if p1 < -182:
            hi = min(p2, -180.0)
            phd[::2] = nps.uniform(p1 + 0.05 * (hi - p1), hi - 0.05 * (hi - p1), len(phd[::2]))
        elif p2 > 182:
            lo = max(p1, 180.0)
            phd[::2] = nps.uniform(lo + 0.05 * (p2 - lo), p2 - 0.05 * (p2 - lo), len(phd[::2]))
        if k >= 2 and nps.random() < 0.5:
            phd[1] = p2 - w * nps.uniform(0.03, 0.2)  # close to the upper end of the range
        ph = np.radians(phd)
        return np.stack([r * np.cos(ph), r * np.sin(ph), nps.uniform(-0.4, 0.4, k) * h], axis=1)
    if cls in ("Tetrahedron", "TriangularMesh"):
        v = np.asarray(src.vertices, float)
        w = nps.dirichlet(np.full(len(v), 0.35), size=k)  # small alpha: points close to single vertices / far ends
        c = v.mean(axis=0)
        return c + 0.9 * (w @ v - c)
    return None


CUBE12 = np.array([[0, 1, 3], [0, 3, 2], [4, 6, 7], [4, 7, 5], [0, 4, 5], [0, 5, 1], [2, 3, 7], [2, 7, 6], [0, 2, 6], [0, 6, 4], [1, 5, 7], [1, 7, 3]])


def box_mesh(dims, polarization, position=(0, 0, 0), orientation=None):
    """TriangularMesh of an origin-centred box (12 faces)"""
    import magpylib as magpy

    verts = np.array([[x, y, z] for x in (-1, 1) for y in (-1, 1) for z in (-1, 1)]) * np.asarray(dims, float) / 2
    return magpy.magnet.TriangularMesh(vertices=verts, faces=CUBE12, polarization=polarization, position=position, orientation=orientation)


def mesh_row(rng, nps, spacing=6.0, rotate=False):
    """A row of box meshes with EQUAL face counts arranged so that a row-grouping shortcut is most likely to go wrong:
    the same mesh re-appearing after a different one (A, B, A ...), origin-centred boxes of different size (equal vertex
    sums), boxes differing in one dimension only.  Returns (meshes, the equivalent Cuboids, dims, positions, orientations)."""
    import magpylib as magpy

    kind = rng.choice(["aba", "abab", "centred-sizes", "one-dimension", "aab"])
    dA, dB = nps.uniform(0.6, 1.2, 3), nps.uniform(1.4, 2.4, 3)
    if rng.random() < 0.5:  # dyadic sizes: sums over the vertices cancel exactly (checksum-style comparisons collide)
        dA, dB = nps.choice([0.5, 0.75, 1.0, 1.25], 3), nps.choice([1.5, 2.0, 2.5], 3)
    if kind == "one-dimension":
        dB = dA.copy()
        dB[rng.randrange(3)] *= 2.5
    dims = {"aba": [dA, dB, dA], "abab": [dA, dB, dA, dB], "centred-sizes": [dA, dB, dA * 0.5], "one-dimension": [dA, dB, dA], "aab": [dA, dA, dB]}[kind]
    pos = [np.array([spacing * j, 0.0, 0.0]) for j in range(len(dims))]
    oris = [(R.random(rng=nps) if rotate and rng.random() < 0.5 else None) for _ in dims]
    pols = [nps.uniform(-1, 1, 3) for _ in dims]
    meshes = [box_mesh(d, p, position=q, orientation=o) for d, p, q, o in zip(dims, pols, pos, oris)]
    cubs = [magpy.magnet.Cuboid(dimension=d, polarization=p, position=q, orientation=o) for d, p, q, o in zip(dims, pols, pos, oris)]
    return kind, meshes, cubs, dims, pos, oris


def lattice_points(d, nps, n=6):
    """interior points of an origin-centred box of dimensions d whose coordinates are round fractions of the half
    sizes (the places where a ray cast along a lattice direction meets edges and vertices of the surface mesh)"""
    fr = np.array([-0.45, -0.4, -0.325, -0.175, -0.15, 0.0, 0.1, 0.25, 0.4])
    pts = np.stack([nps.choice(fr, n), nps.choice(fr, n), nps.choice(fr, n)], axis=1) * np.asarray(d)
    pts[0] = 0.0  # the centre
    return pts


def lattice_box_case(rng, nps):
    """a box mesh with dyadic dimensions at the origin, unrotated, and a regular grid of interior observers whose
    coordinates are exact binary fractions of the dimensions (rays cast from them along lattice directions pass exactly
    through edges and vertices of the triangulation); returns (mesh, the same body as a Cuboid, observers)"""
    import magpylib as magpy

    d = nps.choice([0.5, 1.0, 2.0, 4.0], 3) if rng.random() < 0.5 else np.full(3, float(nps.choice([1.0, 2.0])))
    pol = nps.uniform(-1, 1, 3)
    g = np.arange(-3, 4) / 16.0 if rng.random() < 0.5 else np.array([-0.45, -0.4, -0.325, -0.175, 0.0, 0.1, 0.25])
    obs = np.array([[x, y, z] for x in g for y in g for z in g]) * d
    return box_mesh(d, pol), magpy.magnet.Cuboid(dimension=d, polarization=pol), obs
