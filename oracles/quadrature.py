"""first-principles fields by numerical quadrature: Biot–Savart for currents, Coulombian surface
charge (sigma = J·n) for homogeneously polarised bodies, point dipole formula"""
import numpy as np

GL = {}


def gl(n):
    if n not in GL:
        x, w = np.polynomial.legendre.leggauss(n)
        GL[n] = ((x + 1) / 2, w / 2)
    return GL[n]


def grid(n):
    x, w = gl(n)
    U, V = np.meshgrid(x, x, indexing="ij")
    W = np.outer(w, w)
    return U.ravel(), V.ravel(), W.ravel()


def coulomb_H(patches, pol, obs, mu0):
    """patches: list of (points (k,3), normals (k,3), weights (k,)); returns H at obs (m,3)"""
    H = np.zeros((len(obs), 3))
    for P, N, W in patches:
        sigma = (N @ pol) * W  # (k,)
        d = obs[:, None, :] - P[None, :, :]
        r3 = np.linalg.norm(d, axis=2) ** 3
        H += np.einsum("k,mkc->mc", sigma, d / r3[:, :, None])
    return H / (4 * np.pi * mu0)


def tri_patch(v0, v1, v2, n):
    u, v, w = grid(n)
    P = v0 + np.outer(u, v1 - v0) + np.outer(u * v, v2 - v1)
    nrm = np.cross(v1 - v0, v2 - v0)
    area2 = np.linalg.norm(nrm)
    return P, np.tile(nrm / area2, (len(u), 1)), w * u * area2


def cuboid_patches(dim, n):
    a = np.asarray(dim) / 2
    out = []
    for ax in range(3):
        for s in (-1, 1):
            u, v, w = grid(n)
            o = [i for i in range(3) if i != ax]
            P = np.zeros((len(u), 3))
            P[:, ax] = s * a[ax]
            P[:, o[0]] = (2 * u - 1) * a[o[0]]
            P[:, o[1]] = (2 * v - 1) * a[o[1]]
            N = np.zeros((len(u), 3))
            N[:, ax] = s
            out.append((P, N, w * 4 * a[o[0]] * a[o[1]]))
    return out


def segment_patches(r1, r2, h, p1, p2, n):
    """angles in radians; covers Cylinder with r1=0, p2-p1=2pi"""
    out = []
    u, v, w = grid(n)
    dphi = p2 - p1
    for s in (-1, 1):  # top / bottom annular sectors
        r = r1 + u * (r2 - r1)
        ph = p1 + v * dphi
        P = np.stack([r * np.cos(ph), r * np.sin(ph), np.full_like(r, s * h / 2)], axis=1)
        N = np.tile([0, 0, s], (len(u), 1))
        out.append((P, N, w * r * (r2 - r1) * dphi))
    for rr, s in ((r2, 1), (r1, -1)):  # hulls
        if rr == 0:
            continue
        ph = p1 + u * dphi
        z = (v - 0.5) * h
        P = np.stack([rr * np.cos(ph), rr * np.sin(ph), z], axis=1)
        N = s * np.stack([np.cos(ph), np.sin(ph), np.zeros_like(ph)], axis=1)
        out.append((P, N, w * rr * dphi * h))
    if dphi < 2 * np.pi - 1e-12:  # the two cut planes
        for ph, s in ((p1, -1), (p2, 1)):
            r = r1 + u * (r2 - r1)
            z = (v - 0.5) * h
            P = np.stack([r * np.cos(ph), r * np.sin(ph), z], axis=1)
            N = np.tile(s * np.array([-np.sin(ph), np.cos(ph), 0]), (len(u), 1))
            out.append((P, N, w * (r2 - r1) * h))
    return out


def sphere_patches(R, n):
    u, v, w = grid(n)
    th, ph = np.pi * u, 2 * np.pi * v
    N = np.stack([np.sin(th) * np.cos(ph), np.sin(th) * np.sin(ph), np.cos(th)], axis=1)
    return [(R * N, N, w * R * R * np.sin(th) * 2 * np.pi**2)]


def mesh_patches(tris, n, outward_from=None):
    out = []
    for t in tris:
        P, N, W = tri_patch(t[0], t[1], t[2], n)
        if outward_from is not None and np.dot(N[0], t.mean(axis=0) - outward_from) < 0:
            N = -N
        out.append((P, N, W))
    return out


def biot_savart_polyline(verts, cur, obs, n):
    x, w = gl(n)
    H = np.zeros((len(obs), 3))
    for a, b in zip(verts[:-1], verts[1:]):
        dl = b - a
        if not np.any(dl):
            continue
        P = a + np.outer(x, dl)
        d = obs[:, None, :] - P[None, :, :]
        r3 = np.linalg.norm(d, axis=2) ** 3
        H += np.einsum("k,mkc->mc", w, np.cross(dl, d) / r3[:, :, None])
    return cur * H / (4 * np.pi)


def biot_savart_circle(R, cur, obs, n):
    x, w = gl(n)
    ph = 2 * np.pi * x
    P = R * np.stack([np.cos(ph), np.sin(ph), np.zeros_like(ph)], axis=1)
    dl = R * 2 * np.pi * np.stack([-np.sin(ph), np.cos(ph), np.zeros_like(ph)], axis=1)
    d = obs[:, None, :] - P[None, :, :]
    r3 = np.linalg.norm(d, axis=2) ** 3
    return cur * np.einsum("k,mkc->mc", w, np.cross(dl[None, :, :], d) / r3[:, :, None]) / (4 * np.pi)


def reference_H(src, cls, obs_local, n=64):
    """H in the local frame from first principles; inside term is NOT included (H is continuous data)"""
    from magpylib import mu_0
    if cls == "Dipole":
        m = src.moment
        r = np.linalg.norm(obs_local, axis=1)[:, None]
        return (3 * (obs_local @ m)[:, None] * obs_local / r**5 - m / r**3) / (4 * np.pi)
    if cls == "Circle":
        return biot_savart_circle(src.diameter / 2, src.current, obs_local, 4 * n)
    if cls == "Polyline":
        return biot_savart_polyline(np.asarray(src.vertices), src.current, obs_local, 2 * n)
    pol = np.asarray(src.polarization)
    if cls == "Cuboid":
        patches = cuboid_patches(src.dimension, n)
    elif cls == "Cylinder":
        patches = segment_patches(0.0, src.dimension[0] / 2, src.dimension[1], 0.0, 2 * np.pi, n)
    elif cls == "CylinderSegment":
        r1, r2, h, p1, p2 = src.dimension
        patches = segment_patches(r1, r2, h, np.radians(p1), np.radians(p2), n)
    elif cls == "Sphere":
        patches = sphere_patches(src.diameter / 2, n)
    elif cls == "Triangle":
        patches = mesh_patches([np.asarray(src.vertices)], n)
    elif cls == "Tetrahedron":
        v = np.asarray(src.vertices)
        patches = mesh_patches([v[[0, 1, 2]], v[[0, 1, 3]], v[[0, 2, 3]], v[[1, 2, 3]]], n, outward_from=v.mean(axis=0))
    elif cls == "TriangularMesh":
        patches = mesh_patches(np.asarray(src.mesh), n, outward_from=np.asarray(src.vertices).mean(axis=0))
    else:
        raise ValueError(cls)
    return coulomb_H(patches, pol, obs_local, mu_0)
