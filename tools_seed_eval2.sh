#!/bin/bash
# usage: tools_seed_eval2.sh <worktree-with-change> <outdir-with-patch/demo/meta> <name> <check ids...>
# Confirms a seeded change in its own scratch worktree (patch = worktree diff, applies to clean HEAD, demo passes on
# /repo and fails on the worktree, test suite unchanged) and runs the given checks against it WITHOUT touching /repo:
# a scratch copy of /verif (rsync of the committed+working state incl. lean/.lake) is run with VERIF_REPO=<worktree>.
# (tools_seed_eval.sh does the same by applying the patch to /repo itself; use that one when nothing else is running.)
set -u
WT=$1; SD=$2; NAME=$3; shift 3
cd /verif
git -C /repo apply --check "$SD/patch.diff" || { echo "patch does not apply to clean HEAD"; exit 2; }
if ! diff -q <(git -C "$WT" diff) "$SD/patch.diff" >/dev/null; then echo "WARNING: worktree diff differs from patch.diff"; git -C "$WT" diff --stat; fi
D=$(mktemp -d /tmp/seeddemo.XXXX); cp "$SD/demo.py" $D/demo.py
echo "== demo on unmodified /repo (want 0)"; (cd $D && PYTHONPATH=/repo timeout 900 /venv/bin/python $D/demo.py >/dev/null 2>&1; echo "exit $?")
echo "== demo with change (want 1)"; (cd $D && PYTHONPATH=$WT timeout 900 /venv/bin/python $D/demo.py 2>&1 | tail -2; echo "exit ${PIPESTATUS[0]}")
echo "== test suite with change"; (cd $WT && timeout 1800 /venv/bin/python -m pytest -q -p no:cacheprovider -n 8 2>&1 | tail -1)
EV=/tmp/vwork/eval_$NAME
mkdir -p $EV && rsync -a --delete --exclude .git --exclude seeded --exclude replays /verif/ $EV/
mkdir -p seeded/$NAME
: > seeded/$NAME/check_results.txt
for c in "$@"; do
  echo "== check $c (quick, VERIF_REPO=$WT)"
  (cd $EV && VERIF_REPO=$WT timeout 1800 /venv/bin/python check.py $c --tier quick 2>&1 | grep -E "^(VIOLATION|BROKEN|C[0-9]+ tier)" | cut -c1-300) | tee -a seeded/$NAME/check_results.txt
done
rm -rf $D $EV
cp "$SD/patch.diff" "$SD/demo.py" "$SD/meta.json" seeded/$NAME/ 2>/dev/null
