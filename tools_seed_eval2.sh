#!/bin/bash
# usage: tools_seed_eval2.sh <dir-with-patch.diff/demo.py/meta.json> <name> <check ids...>
# Confirms a seeded change in a FRESH scratch worktree of /repo's current HEAD (patch applies, demo passes on /repo and
# fails with the change, test suite unchanged) and runs the given checks against it WITHOUT touching /repo: a scratch copy
# of /verif (rsync incl. lean/.lake) is run with VERIF_REPO=<worktree>.  Worktree and copy are removed afterwards.
# (tools_seed_eval.sh does the same by applying the patch to /repo itself; use that one when nothing else is running.)
set -u
SD=$1; NAME=$2; shift 2
cd /verif
WT=/tmp/seedwt/eval_$NAME
git -C /repo worktree remove --force $WT >/dev/null 2>&1
git -C /repo worktree add --detach $WT HEAD >/dev/null 2>&1 || { echo "cannot create worktree"; exit 2; }
git -C $WT apply "$SD/patch.diff" || { echo "patch does not apply to current HEAD"; git -C /repo worktree remove --force $WT; exit 2; }
D=$(mktemp -d /tmp/seeddemo.XXXX); cp "$SD/demo.py" $D/demo.py
echo "== demo on unmodified /repo (want 0)"; (cd $D && PYTHONPATH=/repo timeout 900 /venv/bin/python $D/demo.py >/dev/null 2>&1; echo "exit $?")
echo "== demo with change (want 1)"; (cd $D && PYTHONPATH=$WT timeout 900 /venv/bin/python $D/demo.py 2>&1 | tail -2; echo "exit ${PIPESTATUS[0]}")
echo "== test suite with change"; (cd $WT && timeout 1800 /venv/bin/python -m pytest -q -p no:cacheprovider -n 8 2>&1 | tail -1)
EV=/tmp/vwork/eval_$NAME
mkdir -p $EV && rsync -a --delete --exclude .git --exclude seeded --exclude replays /verif/ $EV/
mkdir -p seeded/$NAME
: > seeded/$NAME/check_results.txt
for c in "$@"; do
  echo "== check $c (quick, VERIF_REPO=$WT)"
  (cd $EV && VERIF_REPO=$WT timeout 1800 /venv/bin/python check.py $c --tier quick 2>&1 | grep -E "^(VIOLATION|BROKEN|C[0-9]+ tier)" | cut -c1-300) | tee -a seeded/$NAME/check_results.txt
done
rm -rf $D $EV
git -C /repo worktree remove --force $WT
cp "$SD/patch.diff" "$SD/demo.py" "$SD/meta.json" seeded/$NAME/ 2>/dev/null
