"""Reflection of magpylib's property classes (the `MagicProperties` subclasses reachable from `DefaultSettings` and from
the `_style_class` of every object class) into the data `Model/StyleState.lean` runs on:

  * a finite *panel* of Python values (every hard coded default, a fixed list of probe values, closed under what the
    setters store); a model value is an index into the panel,
  * per class: its properties in `dir()` order, each a plain leaf (with the id of its *validator row*: what the setter
    does with None, with every panel value and with a dict — the stored value or the class of the exception), a
    sub-object (recursively), or an alias (a property that is not in `as_dict()`; probed: assigning v != None writes v at
    another path, assigning None does nothing); the public non-property attributes (`update`, `copy`, ...: names
    `setattr` does NOT reject); the explicitly named constructor parameters with their defaults; the string shorthand of
    a sub-object setter (`style.description = "text"`),
  * `DEFAULTS` as a tree of panel values.

`probe()` returns plain Python data (used by corr/stylestate_family.py to encode / decode values); `lean_text()` prints
the Lean module.  Anything that does not fit the shape above raises `Refusal`."""
import copy
import inspect

PROBE_VALUES = [False, True, 0, 1, 2, 3, -1, 0.5, 10, "red", "r", "blue", "solid", "dashed", "o", "x", "scaled", "absolute", "auto",
                "arrow", "tricolor", "bicolor", "middle", "tail", "arrow3d", "matplotlib", "plotly", "bogus", "a.gif", "#E71111", "txt"]
ERR_KINDS = {AssertionError: "assertion", AttributeError: "attribute", ValueError: "value", TypeError: "type"}


class Refusal(Exception):
    pass


def canon(v):
    """type-tagged canonical text of a value (True, 1 and 1.0 stay different)"""
    if isinstance(v, (list, tuple)):
        return type(v).__name__ + ":[" + ",".join(canon(x) for x in v) + "]"
    return f"{type(v).__name__}:{v!r}"


def kind(e):
    return ERR_KINDS.get(type(e), "other")


def obj_classes():
    """(object class name, instance) for every public object class with a style"""
    import magpylib as magpy

    return [("Cuboid", magpy.magnet.Cuboid()), ("Sensor", magpy.Sensor()), ("Circle", magpy.current.Circle()), ("Dipole", magpy.misc.Dipole()),
            ("Triangle", magpy.misc.Triangle()), ("Collection", magpy.Collection()), ("CustomSource", magpy.misc.CustomSource()),
            ("TriangularMesh", magpy.magnet.TriangularMesh.from_ConvexHull(points=[(0, 0, 0), (1, 0, 0), (0, 1, 0), (0, 0, 1)], polarization=(0, 0, 1)))]


def capture_ctor(cls):
    """items of the kwargs `MagicProperties.__init__` gets when `cls()` is called"""
    from magpylib._src.defaults.defaults_utility import MagicProperties

    seen = []
    orig = MagicProperties.__init__

    def spy(self, **kw):
        if type(self) is cls and not seen:
            seen.append(list(kw.items()))
        orig(self, **kw)

    MagicProperties.__init__ = spy
    try:
        cls()
    finally:
        MagicProperties.__init__ = orig
    return seen[0] if seen else []


def probe():
    from magpylib._src.defaults.defaults_classes import DefaultSettings
    from magpylib._src.defaults.defaults_utility import MagicProperties
    from magpylib._src.defaults.defaults_values import DEFAULTS

    panel, index = [], {}

    def idx(v):
        c = canon(v)
        if c not in index:
            index[c] = len(panel)
            panel.append(copy.deepcopy(v))
            if len(panel) > 400:
                raise Refusal("value panel does not close under the setters")
        return index[c]

    def walk_defaults(t):
        return {k: (walk_defaults(v) if isinstance(v, dict) else (None if v is None else idx(v))) for k, v in t.items()}

    defaults = walk_defaults(DEFAULTS)
    for v in PROBE_VALUES:
        idx(v)

    classes = {}      # class -> info

    def walk(cls):
        if cls in classes:
            return
        inst = cls()
        props = list(inst._property_names_generator())
        ad = inst.as_dict()
        # non-property names `MagicProperties.__setattr__` does NOT reject with AttributeError, probed on deep copies of a
        # new instance (after one deepcopy, so that copyreg's class attribute `__slotnames__` exists in every run): every
        # name of dir(inst) that is not a property is assigned 1 and None; it is listed unless both raise AttributeError
        # (since repo fix 3fc7703 method names are rejected; private slots `_color`, `__doc__`, `__module__`, the frozen
        # flag are plain attributes and still assignable; `__dict__ = 1` is a TypeError, i.e. not a rejection of the name)
        copy.deepcopy(inst)
        others, methods = [], []
        for a in dir(inst):
            if a in props:
                continue
            if callable(getattr(cls, a, None)):
                methods.append(a)
            rejected = 0
            for val in (1, None):
                c = copy.deepcopy(inst)
                try:
                    setattr(c, a, val)
                except AttributeError:
                    rejected += 1
                except Exception:  # noqa: BLE001
                    pass
            if rejected < 2:
                others.append(a)
        info = classes[cls] = {"name": cls.__name__, "props": [], "others": sorted(others), "methods": sorted(methods),
                               "ctor": [], "short": None, "mro": [c.__name__ for c in cls.__mro__],
                               "varkw": any(par.kind is par.VAR_KEYWORD for par in inspect.signature(cls.__init__).parameters.values())}
        # the keyword dictionary `MagicProperties.__init__` receives for `cls()`: the named parameters of the whole
        # `super().__init__` chain in the order in which they arrive (innermost class first), with their defaults.  A
        # keyword given by the caller takes the place of its parameter, everything else follows in the caller's order.
        for pname, dflt in capture_ctor(cls):
            if pname not in props:
                raise Refusal(f"{cls.__name__}: constructor keyword {pname} is not a property")
            if isinstance(dflt, (MagicProperties, dict)):
                raise Refusal(f"{cls.__name__}: constructor default of {pname} is an object")
            info["ctor"].append((pname, None if dflt is None else idx(dflt)))
        for p in props:
            v = getattr(inst, p)
            if p not in ad:
                info["props"].append((p, "alias", None))
            elif isinstance(v, MagicProperties):
                walk(type(v))
                info["props"].append((p, "obj", type(v)))
            else:
                info["props"].append((p, "leaf", None))
        if list(ad) != [p for p, k, _ in info["props"] if k != "alias"]:
            raise Refusal(f"{cls.__name__}.as_dict() keys are not the non-alias properties in dir() order")

    walk(DefaultSettings)
    objs = obj_classes()
    for _, o in objs:
        walk(o._style_class)

    # ---- validator rows: outcome of every leaf setter on None, every panel value, a dict (repeat until the panel is closed)
    def leaf_outcome(cls, p, val):
        inst = cls()
        try:
            setattr(inst, p, copy.deepcopy(val))
        except Exception as e:  # noqa: BLE001
            return ("err", kind(e))
        got = getattr(inst, p)
        if got is None:
            return ("ok", None)
        if isinstance(got, (dict, MagicProperties)):
            return ("err", "other")   # a plain property that stores a dict: outside the model (Model3d.data with a dict)
        return ("ok", idx(got))

    rows = {}
    while True:
        n = len(panel)
        for cls, info in classes.items():
            for p, k, _ in info["props"]:
                if k == "leaf":
                    rows[(cls, p)] = {"none": leaf_outcome(cls, p, None), "vals": [leaf_outcome(cls, p, v) for v in panel[:n]],
                                      "dict": leaf_outcome(cls, p, {"x": None})}
        if len(panel) == n:
            break
    vrows, vid = [], {}
    for key, r in rows.items():
        t = repr(r)
        if t not in vid:
            vid[t] = len(vrows)
            vrows.append(r)
        rows[key] = vid[t]

    # ---- aliases and string shorthands
    def flat(t, pre=()):
        for k, v in t.items():
            if isinstance(v, dict):
                yield from flat(v, pre + (k,))
            else:
                yield pre + (k,), v

    for cls, info in classes.items():
        new = []
        for p, k, sub in info["props"]:
            if k == "alias":
                inst = cls()
                before = dict(flat(inst.as_dict()))
                setattr(inst, p, 2)
                after = dict(flat(inst.as_dict()))
                changed = [q for q in after if canon(after[q]) != canon(before[q])]
                if len(changed) != 1 or canon(after[changed[0]]) != canon(2):
                    raise Refusal(f"alias {cls.__name__}.{p} does not write one leaf")
                setattr(inst, p, None)
                if dict(flat(inst.as_dict())) != after or canon(getattr(inst, p)) != canon(2):
                    raise Refusal(f"alias {cls.__name__}.{p}: None is not ignored")
                new.append((p, "alias", list(changed[0])))
            elif k == "obj":
                inst = cls()
                try:
                    setattr(inst, p, "txt")
                    got = dict(flat(getattr(inst, p).as_dict()))
                    hit = [q for q, v in got.items() if v == "txt"]
                    if len(hit) != 1 or len(hit[0]) != 1 or any(v is not None for q, v in got.items() if q != hit[0]):
                        raise Refusal(f"string shorthand of {cls.__name__}.{p} is not `Class(key=text)`")
                    info.setdefault("shorts", {})[p] = hit[0][0]
                except ValueError:
                    pass
                try:
                    setattr(inst, p, 1)
                    raise Refusal(f"{cls.__name__}.{p} accepts a number")
                except ValueError:
                    pass
                new.append((p, "obj", sub))
            else:
                new.append((p, "leaf", rows[(cls, p)]))
        info["props"] = new

    is_str = [isinstance(v, str) for v in panel]
    # the style families of every object class, in the order the real `get_families` returns them (= the order in which
    # `get_style` merges the family defaults: later families overwrite earlier ones)
    from magpylib._src.style import get_families

    families = []
    for n, o in objs:
        fams = get_families(o)
        if not all(isinstance(f, str) for f in fams):
            raise Refusal(f"get_families({n}) does not return strings")
        families.append((n, list(fams)))
    return {"panel": panel, "index": index, "canon": canon, "classes": classes, "root": DefaultSettings, "vrows": vrows, "is_str": is_str,
            "defaults": defaults, "objects": [(n, o._style_class) for n, o in objs], "families": families}


# ------------------------------------------------------------------------------------------ Lean text
def lstr(s):
    return '"' + s.replace("\\", "\\\\").replace('"', '\\"') + '"'


def lkey(s):
    return f"(.str {lstr(s)}.toList)"


def lopt(v):
    return "none" if v is None else f"(some {v})"


def lout(o):
    return f"(.ok {lopt(o[1])})" if o[0] == "ok" else f"(.error .{o[1]})"


def ltree(t):
    if isinstance(t, dict):
        return "(.node [" + ", ".join(f"({lkey(k)}, {ltree(v)})" for k, v in t.items()) + "])"
    return f"(.leaf {lopt(t)})"


def lean_text(P):
    classes = P["classes"]
    names = {}
    for cls in classes:
        if cls.__name__ in names.values():
            raise Refusal(f"two property classes named {cls.__name__}")
        names[cls] = cls.__name__
    order = []            # sub-classes before their users

    def visit(cls):
        if cls in order:
            return
        for p, k, sub in classes[cls]["props"]:
            if k == "obj":
                visit(sub)
        order.append(cls)

    for cls in classes:
        visit(cls)
    out = ["import MagpyVerif.Model.StyleState", "", "namespace MagpyVerif.Gen.StyleSchema", "open MagpyVerif.StyleNested MagpyVerif.StyleState", ""]
    out.append("/-- the value panel (type-tagged text of the Python value an index stands for) -/")
    out.append("def panel : List String := [" + ", ".join(lstr(P["canon"](v)) for v in P["panel"]) + "]\n")
    out.append("/-- which panel values are Python strings -/")
    out.append("def isStr : List Bool := [" + ", ".join("true" if b else "false" for b in P["is_str"]) + "]\n")
    out.append("/-- validator rows: what a leaf setter does with None, with each panel value, with a dict -/")
    rows = []
    for r in P["vrows"]:
        rows.append("  { onNone := " + lout(r["none"]) + ", onVal := [" + ", ".join(lout(o) for o in r["vals"]) + "], onDict := " + lout(r["dict"]) + " }")
    out.append("def leafV : List LeafV := [\n" + ",\n".join(rows) + "]\n")
    out.append("def tables : Tables := { leafV := leafV, isStr := isStr }\n")
    for cls in order:
        info = classes[cls]
        ps = []
        for p, k, x in info["props"]:
            if k == "leaf":
                ps.append(f"({lkey(p)}, .leaf {x})")
            elif k == "alias":
                ps.append(f"({lkey(p)}, .alias [" + ", ".join(lkey(q) for q in x) + "])")
            else:
                sh = info.get("shorts", {}).get(p)
                ps.append(f"({lkey(p)}, c{names[x]}.withShort {('(some ' + lkey(sh) + ')') if sh else 'none'})")
        others = "[" + ", ".join(lstr(o) + ".toList" for o in info["others"]) + "]"
        ctor = "[" + ", ".join(f"({lkey(p)}, {lopt(d)})" for p, d in info["ctor"]) + "]"
        out.append(f"/-- class `{info['name']}` -/")
        out.append(f"def c{names[cls]} : Schema := .obj [\n  " + ",\n  ".join(ps) + f"]\n  {others} none {ctor} {'true' if info['varkw'] else 'false'}\n")
    meths = sorted({m for info in classes.values() for m in info["methods"]})
    out.append("/-- every callable attribute name of any of the property classes (methods, dunder methods) -/")
    out.append("def methodNames : List Str := [" + ", ".join(lstr(m) + ".toList" for m in meths) + "]\n")
    out.append("/-- `DEFAULTS` (defaults_values.py) -/")
    out.append(f"def defaults : Tree := {ltree(P['defaults'])}\n")
    out.append("/-- class table: index 0 is `DefaultSettings`, then the style class of every object class -/")
    seen, cl = [], []
    for cls in [P["root"]] + [c for _, c in P["objects"]]:
        if cls not in seen:
            seen.append(cls)
            cl.append("  { name := " + lstr(names[cls]) + ".toList, bases := [" + ", ".join(lstr(b) + ".toList" for b in classes[cls]["mro"]) + f"], schema := c{names[cls]} }}")
    out.append("def classes : List ClassInfo := [\n" + ",\n".join(cl) + "]\n")
    out.append("/-- object class name ↦ index of its style class in `classes` -/")
    out.append("def objectClasses : List (String × Nat) := [" + ", ".join(f"({lstr(n)}, {seen.index(c)})" for n, c in P["objects"]) + "]\n")
    out.append("/-- object class name ↦ its style families, in the order `get_families` (magpylib/_src/style.py) returns them (probed on an instance) -/")
    out.append("def families : List (String × List Str) := [" + ", ".join(f"({lstr(n)}, [" + ", ".join(lstr(f) + ".toList" for f in fs) + "])" for n, fs in P["families"]) + "]\n")
    out.append("end MagpyVerif.Gen.StyleSchema")
    return "\n".join(out) + "\n", [names[c] for c in seen]
