"""Scanner for ABSOLUTE-LENGTH CONSTRUCTS in the pose machinery and the marshalling pipeline (C12).

Unit invariance of the kernels is proved kernel by kernel (Props/C12); Props/C12b proves that the MODEL of the pose
machinery (move / rotate / setters / padding / collections) and of getBH_level2 is homogeneous.  What such a theorem
cannot see is a construct in the SOURCE that the model does not have: a position path rounded to a fixed number of
decimals, a length compared with an absolute tolerance.  This scanner lists every syntactic site of that kind in

    magpylib/_src/obj_classes/class_BaseTransform.py, class_BaseGeo.py, class_Collection.py,
    magpylib/_src/utility.py, magpylib/_src/fields/field_wrap_BH.py

(1) calls of a rounding / snapping routine: round, np.round / around / round_ / rint / floor / ceil / trunc / fix,
    the `.round()` method, int(x) of a non-integer expression;  (2) calls of np.isclose / allclose / assert_allclose / array_equal / math.isclose;
(3) keyword arguments atol= / rtol= / decimals= / tol= / eps=;  (4) comparisons (== != < <= > >=) in which one side is a
non-zero numeric literal and the other side is not syntactically an integer (len(..), .ndim, .size, .shape[..], .count(..),
a name bound by `for .. in range/enumerate`), and comparisons `a == b` / `a != b` between two array-valued expressions
inside np.all / np.any (exact equality of floats: scale-free, listed so that a change to a tolerance shows);
(5) float literals with a fractional part or an exponent anywhere in a function body (an epsilon added to a length).

Every site is (file, function, expression, class).  The class comes from the table CLASSIFIED below (keyed by file,
function and expression text); a site that is not in the table is "unclassified".  Gen/AbsLen.lean is the list;
Props/C12b `abs_sites_pinned` pins it by `decide`, `no_absolute_length_in_pose_code` demands that no site is
"length" or "unclassified".
"""
import ast
import os

FILES = [
    "magpylib/_src/obj_classes/class_BaseTransform.py",
    "magpylib/_src/obj_classes/class_BaseGeo.py",
    "magpylib/_src/obj_classes/class_Collection.py",
    "magpylib/_src/utility.py",
    "magpylib/_src/fields/field_wrap_BH.py",
]
ROUNDERS = {"round", "around", "round_", "rint", "floor", "ceil", "trunc", "fix"}
CLOSERS = {"isclose", "allclose", "assert_allclose", "array_equal", "array_equiv"}
TOL_KW = {"atol", "rtol", "decimals", "tol", "eps", "abs_tol", "rel_tol"}
INT_ATTRS = {"ndim", "size"}

# classification of the sites of the pinned tree: (file, function, expression) -> class
#   "dimensionless"  acts on quaternions / rotation data, not on a length (exact float equality, no tolerance)
#   "count"          acts on array sizes / path lengths / label counters (integers the scanner could not recognise syntactically)
#   "display-units"  unit prefixes of show(): formatting of labels and the documented unit conversion, no computed position or field
#   "length"         an absolute tolerance or grid acting on a length  (none may exist)
CLASSIFIED = {
    ("field_wrap_BH.py", "getBH_level2", "all(r == unitQ)"): "dimensionless",
    ("field_wrap_BH.py", "getBH_level2", "int(n_pp / max_path_len)"): "count",
    ("field_wrap_BH.py", "getBH_level2", "int(np.prod(ps[:-1]))"): "count",
    ("field_wrap_BH.py", "getBH_level2", "max_path_len > 1"): "count",
    ("utility.py", "add_iteration_suffix", "int(n)"): "count",
    ("utility.py", "check_static_sensor_orient", "np.all(rot == rot[0])"): "dimensionless",
    ("utility.py", "get_unit_factor", "10 ** factor_power"): "display-units",
    ("utility.py", "unit_prefix", "10 ** digits"): "display-units",
    ("utility.py", "unit_prefix", "int(log10(abs(number)))"): "display-units",
}


def _num(n):
    """numeric literal (possibly signed) -> value, else None"""
    if isinstance(n, ast.UnaryOp) and isinstance(n.op, (ast.USub, ast.UAdd)):
        v = _num(n.operand)
        return None if v is None else (-v if isinstance(n.op, ast.USub) else v)
    if isinstance(n, ast.Constant) and isinstance(n.value, (int, float)) and not isinstance(n.value, bool):
        return n.value
    return None


def _callee(call):
    f = call.func
    if isinstance(f, ast.Attribute):
        return f.attr
    if isinstance(f, ast.Name):
        return f.id
    return None


def _is_int_expr(n, int_names):
    if isinstance(n, ast.Call) and _callee(n) in ("len", "count", "index", "int", "ndim"):
        return True
    if isinstance(n, ast.Attribute) and n.attr in INT_ATTRS:
        return True
    if isinstance(n, ast.Subscript):
        v = n.value
        if isinstance(v, ast.Attribute) and v.attr == "shape":
            return True
        if isinstance(v, ast.Name) and v.id in int_names:
            return True
    if isinstance(n, ast.Attribute) and n.attr == "shape":
        return True
    if isinstance(n, ast.Name) and n.id in int_names:
        return True
    if isinstance(n, ast.BinOp):
        return _is_int_expr(n.left, int_names) and (_is_int_expr(n.right, int_names) or isinstance(_num(n.right), int))
    return False


def _int_names(fn):
    """names that are syntactically integers inside `fn`: loop variables of range()/enumerate() (first target), targets of
    `x = len(..)`, `x = <int literal>`, `x = y.ndim`, tuple targets of `.shape`"""
    names = set()
    for n in ast.walk(fn):
        if isinstance(n, (ast.For, ast.comprehension)) and isinstance(n.iter, ast.Call):
            c = _callee(n.iter)
            if c == "range" and isinstance(n.target, ast.Name):
                names.add(n.target.id)
            if c == "enumerate" and isinstance(n.target, ast.Tuple) and isinstance(n.target.elts[0], ast.Name):
                names.add(n.target.elts[0].id)
    changed = True
    while changed:
        changed = False
        for n in ast.walk(fn):
            if isinstance(n, ast.Assign) and len(n.targets) == 1:
                t, v = n.targets[0], n.value
                if isinstance(t, ast.Name) and t.id not in names:
                    if isinstance(_num(v), int) or _is_int_expr(v, names):
                        names.add(t.id)
                        changed = True
                if isinstance(t, ast.Tuple) and isinstance(v, ast.Attribute) and v.attr == "shape":
                    for e in t.elts:
                        if isinstance(e, ast.Name) and e.id not in names:
                            names.add(e.id)
                            changed = True
    return names


def scan_source(text, fname):
    tree = ast.parse(text)
    sites = []

    def visit_fn(fn, qual):
        int_names = _int_names(fn)
        body = fn.body
        if body and isinstance(body[0], ast.Expr) and isinstance(getattr(body[0], "value", None), ast.Constant) and isinstance(body[0].value.value, str):
            body = body[1:]
        inner = []
        for stmt in body:
            for n in ast.walk(stmt):
                if isinstance(n, (ast.FunctionDef, ast.AsyncFunctionDef)) and n is not stmt:
                    inner.append(n)
        skip = set()
        for f in inner:
            for n in ast.walk(f):
                skip.add(id(n))
        for stmt in body:
            if isinstance(stmt, (ast.FunctionDef, ast.AsyncFunctionDef)):
                visit_fn(stmt, qual + "." + stmt.name)
                continue
            for n in ast.walk(stmt):
                if id(n) in skip:
                    continue
                if isinstance(n, ast.Call):
                    c = _callee(n)
                    if c in ROUNDERS or c in CLOSERS:
                        sites.append((n.lineno, n.col_offset, qual, ast.unparse(n)))
                    if c == "int" and isinstance(n.func, ast.Name) and n.args and not _is_int_expr(n.args[0], int_names) and _num(n.args[0]) is None:
                        sites.append((n.lineno, n.col_offset, qual, ast.unparse(n)))  # int(x) truncates: a grid if x is a length
                    for kw in n.keywords:
                        if kw.arg in TOL_KW:
                            sites.append((n.lineno, n.col_offset, qual, ast.unparse(n)))
                            break
                    if c in ("all", "any") and n.args and isinstance(n.args[0], ast.Compare):
                        cmp = n.args[0]
                        if all(_num(x) is None for x in [cmp.left] + cmp.comparators) and any(isinstance(o, (ast.Eq, ast.NotEq)) for o in cmp.ops):
                            if not all(_is_int_expr(x, int_names) for x in [cmp.left] + cmp.comparators):
                                sites.append((n.lineno, n.col_offset, qual, ast.unparse(n)))
                elif isinstance(n, ast.Compare):
                    sides = [n.left] + n.comparators
                    for a, b in zip(sides, sides[1:]):
                        for lit, other in ((a, b), (b, a)):
                            v = _num(lit)
                            if v is not None and v != 0 and _num(other) is None and not _is_int_expr(other, int_names):
                                # `x is None`-style and string comparisons never have a numeric literal; membership tests are not Compare with a literal side
                                sites.append((n.lineno, n.col_offset, qual, ast.unparse(n)))
                elif isinstance(n, ast.Constant) and isinstance(n.value, float):
                    if n.value != int(n.value) if abs(n.value) < 1e300 else True:
                        sites.append((n.lineno, n.col_offset, qual, "float literal " + repr(n.value)))
                elif isinstance(n, ast.BinOp) and isinstance(n.op, ast.Pow) and isinstance(_num(n.left), int) and _num(n.left) == 10:
                    sites.append((n.lineno, n.col_offset, qual, ast.unparse(n)))
        for f in inner:
            if f in body:
                continue
            visit_fn(f, qual + "." + f.name)

    def visit_block(stmts, prefix):
        for s in stmts:
            if isinstance(s, (ast.FunctionDef, ast.AsyncFunctionDef)):
                visit_fn(s, prefix + s.name)
            elif isinstance(s, ast.ClassDef):
                visit_block(s.body, prefix + s.name + ".")

    visit_block(tree.body, "")
    out, seen = [], set()
    for ln, col, qual, expr in sorted(sites):
        key = (qual, expr)
        if key in seen:
            continue
        seen.add(key)
        out.append((fname, qual, expr))
    return out


def scan(repo):
    rows = []
    for rel in FILES:
        path = os.path.join(repo, rel)
        fname = os.path.basename(rel)
        rows += scan_source(open(path).read(), fname)
    rows.sort()
    return [(f, q, e, CLASSIFIED.get((f, q, e), "unclassified")) for f, q, e in rows]


def lean_text(rows):
    esc = lambda s: '"' + s.replace("\\", "\\\\").replace('"', '\\"') + '"'
    lst = ",\n  ".join(f"({esc(f)}, {esc(q)}, {esc(e)}, {esc(c)})" for f, q, e, c in rows)
    return ("namespace MagpyVerif.Gen.AbsLen\n\n"
            "/-- (file, function, expression, class) of every absolute-length construct found by translate/abslen.py in the pose /\n"
            "marshalling sources: rounding calls, isclose / allclose, atol= / rtol= keywords, comparisons of a non-integer expression with a\n"
            "non-zero numeric literal, exact float comparisons inside all / any, fractional float literals, powers of ten -/\n"
            f"def sites : List (String × String × String × String) := [\n  {lst}]\n\n"
            "/-- the files scanned -/\n"
            "def files : List String := [" + ", ".join(esc(os.path.basename(f)) for f in FILES) + "]\n\n"
            "end MagpyVerif.Gen.AbsLen\n")


if __name__ == "__main__":
    import sys

    for r in scan(sys.argv[1] if len(sys.argv) > 1 else os.environ.get("VERIF_REPO", "/repo")):
        print(r)
