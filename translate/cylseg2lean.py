"""Translator for /repo/magpylib/_src/fields/field_BH_cylinder_segment.py  ->  Lean 4 (AST based).

What is translated (everything else in that file is ported by hand in Model/CylSegWrap.lean):

  * the pure scalar-expression functions `H<comp>_<face>_case<id>` (129 of them), `arctan_k_tan_2`, `close`
        -> one Lean `def` each, polymorphic over `[NumX α]` (Model/CylSegBase.lean)
  * `determine_cases` (numpy mask idiom `result[k] = c; result[k, mask] = c; ... np.sum(result, axis=0)`)
        -> `def determine_cases (r phi z r1 phi1 z1 : α) : Nat` for one row
  * the 26 assemblers `case<id>` (`results[:, i, j] = f(args)`)
        -> `def case<id> (...) : V3 (V3 α)`   (outer index = field component r/phi/z, inner = face type ri/phij/zk)
  * from `magnet_cylinder_segment_Hfield`: the tables `case_id`, `case_fkt`, `case_args`, `allargs`, the definitions
    of the derived arguments (`r_bar_i = r - r_i`, ...) and the two index tuples of the boundary sum
        -> `structure AllArgs`, `def allArgs`, `def caseIds`, `def caseDispatch`, `def plusIdx`, `def minusIdx`

Python subset understood (anything else => Refusal naming the function; never a silent skip):
  expressions: names, int/float literals, unary -, + - * /, `**2`, `**4`, `%`, one-operator comparisons < <= > >=,
    np.pi, np.sin/cos/tan/sqrt/log/abs/sign/arctan/arctanh/arctan2/round, np.where(c, a, b), np.logical_or/and,
    np.isclose(a, b, rtol=, atol=), ellipkinc, ellipeinc, el3_angle, calls of translated top-level functions and of
    nested one-parameter `def`s; bool * bool (mask product)
  statements: docstring, `name = expr`, nested `def f(x): return expr`, `return expr`

Usage:
  /venv/bin/python translate/cylseg2lean.py [--namespace NS] > file.lean      (exit 1 + message on a refusal)
  cylseg_in_sync() -> list of definition names whose regenerated text differs from the frozen
                      lean/MagpyVerif/Model/CylSeg.lean (whitespace-normalised); [] = in sync
"""
import ast
import decimal
import os
import re
import sys

HERE = os.path.dirname(os.path.abspath(__file__))
FROZEN = os.path.join(HERE, "..", "lean", "MagpyVerif", "Model", "CylSeg.lean")
FROZEN_NS = "MagpyVerif.Kern.CylSeg"
GEN_NS = "MagpyVerif.Gen.CylSeg"
REL_SRC = "magpylib/_src/fields/field_BH_cylinder_segment.py"


class Refusal(Exception):
    pass


def source_path():
    return os.path.join(os.environ.get("VERIF_REPO", "/repo"), REL_SRC)


# names the generated code uses itself (class operations, helpers, Lean keywords): Python identifiers equal to one of
# them are renamed with a trailing underscore
RESERVED = {
    "n", "sq", "p4", "sqrt", "abs", "log", "sin", "cos", "tan", "atan", "atanh", "atan2", "sgn", "round", "pymod", "pi", "mu0",
    "lt", "le", "eq0", "isclose", "ellipkinc", "ellipeinc", "el3angle", "ceil", "ofNat",
    "fun", "let", "in", "if", "then", "else", "match", "with", "do", "end", "def", "at", "from", "have", "show", "by", "open",
    "where", "structure", "class", "instance", "theorem", "import", "namespace", "section", "variable", "Type", "Prop", "Sort",
    "some", "none", "true", "false", "mut", "for", "return", "using", "set_option", "deriving", "extends", "macro", "syntax",
}

UNARY = {"sin": "sin", "cos": "cos", "tan": "tan", "sqrt": "sqrt", "log": "log", "abs": "abs", "sign": "sgn",
         "arctan": "atan", "arctanh": "atanh", "round": "round"}
SPECIAL = {"ellipkinc": ("ellipkinc", 2), "ellipeinc": ("ellipeinc", 2), "el3_angle": ("el3angle", 3)}


def ident(name):
    if not re.fullmatch(r"[A-Za-z_][A-Za-z0-9_]*", name):
        raise Refusal(f"identifier {name!r}")
    return name + "_" if name in RESERVED else name


def strip(s):
    """remove one pair of outer parentheses if they enclose the whole text"""
    if s.startswith("(") and s.endswith(")"):
        depth = 0
        for i, c in enumerate(s):
            depth += c == "("
            depth -= c == ")"
            if depth == 0 and i < len(s) - 1:
                return s
        return s[1:-1]
    return s


def const(v, where):
    if isinstance(v, bool) or not isinstance(v, (int, float)):
        raise Refusal(f"{where}: constant {v!r}")
    if isinstance(v, int) or float(v).is_integer():
        k = int(v)
        if k < 0 or k >= 2**53:
            raise Refusal(f"{where}: constant {v!r} out of range")
        return f"(n {k})"
    d = decimal.Decimal(repr(v))
    if d <= 0:
        raise Refusal(f"{where}: constant {v!r}")
    num, den = d.as_integer_ratio()
    exp = -d.as_tuple().exponent
    num, den = int(d.scaleb(exp)), 10**exp  # keep the power-of-ten denominator: num/den is then correctly rounded in double
    if num >= 2**53 or den > 10**22:
        raise Refusal(f"{where}: constant {v!r} not representable as an exact quotient")
    return f"(n {num} / n {den})"


class Fn:
    """translation of one function body made of assignments, nested one-line defs and a return"""

    def __init__(self, name, toplevel):
        self.name = name
        self.toplevel = toplevel  # python name -> (lean name, arity, result kind) of already translated top-level functions
        self.kinds = {}  # local name -> "num" | "bool" | ("fun", arity, kind)

    def refuse(self, what, node=None):
        line = f" (line {node.lineno})" if node is not None and hasattr(node, "lineno") else ""
        raise Refusal(f"{self.name}{line}: {what}")

    def num(self, e):
        t, k = self.expr(e)
        if k != "num":
            self.refuse(f"expected a number, got {k}: {ast.unparse(e)}", e)
        return t

    def boolean(self, e):
        t, k = self.expr(e)
        if k != "bool":
            self.refuse(f"expected a truth value, got {k}: {ast.unparse(e)}", e)
        return t

    def expr(self, e):
        if isinstance(e, ast.Constant):
            return const(e.value, self.name), "num"
        if isinstance(e, ast.Name):
            if e.id not in self.kinds:
                self.refuse(f"unknown name {e.id!r}", e)
            k = self.kinds[e.id]
            if isinstance(k, tuple):
                self.refuse(f"function {e.id!r} used as a value", e)
            return ident(e.id), k
        if isinstance(e, ast.Attribute):
            if isinstance(e.value, ast.Name) and e.value.id == "np" and e.attr == "pi":
                return "pi", "num"
            self.refuse(f"attribute {ast.unparse(e)}", e)
        if isinstance(e, ast.UnaryOp):
            if isinstance(e.op, ast.USub):
                return f"(-{self.num(e.operand)})", "num"
            self.refuse(f"unary operator {type(e.op).__name__}", e)
        if isinstance(e, ast.BinOp):
            if isinstance(e.op, ast.Pow):
                if isinstance(e.right, ast.Constant) and e.right.value in (2, 4) and isinstance(e.right.value, int):
                    return f"({'sq' if e.right.value == 2 else 'p4'} {self.num(e.left)})", "num"
                self.refuse(f"power {ast.unparse(e.right)}", e)
            (lt, lk), (rt, rk) = self.expr(e.left), self.expr(e.right)
            if isinstance(e.op, ast.Mult) and lk == "bool" and rk == "bool":
                return f"({lt} && {rt})", "bool"
            if lk != "num" or rk != "num":
                self.refuse(f"arithmetic on {lk}, {rk}: {ast.unparse(e)}", e)
            if isinstance(e.op, ast.Mod):
                return f"(pymod {lt} {rt})", "num"
            ops = {ast.Add: "+", ast.Sub: "-", ast.Mult: "*", ast.Div: "/"}
            if type(e.op) not in ops:
                self.refuse(f"operator {type(e.op).__name__}", e)
            return f"({lt} {ops[type(e.op)]} {rt})", "num"
        if isinstance(e, ast.Compare):
            if len(e.ops) != 1:
                self.refuse("chained comparison", e)
            a, b = self.num(e.left), self.num(e.comparators[0])
            op = type(e.ops[0])
            if op is ast.Lt:
                return f"(lt {a} {b})", "bool"
            if op is ast.Gt:
                return f"(lt {b} {a})", "bool"
            if op is ast.LtE:
                return f"(le {a} {b})", "bool"
            if op is ast.GtE:
                return f"(le {b} {a})", "bool"
            self.refuse(f"comparison {op.__name__}", e)
        if isinstance(e, ast.Call):
            return self.call(e)
        self.refuse(f"expression {type(e).__name__}: {ast.unparse(e)}", e)

    def call(self, e):
        f = e.func
        kw = {k.arg: k.value for k in e.keywords}
        if isinstance(f, ast.Attribute) and isinstance(f.value, ast.Name) and f.value.id == "np":
            if f.attr in UNARY and len(e.args) == 1 and not kw:
                return f"({UNARY[f.attr]} {self.num(e.args[0])})", "num"
            if f.attr == "arctan2" and len(e.args) == 2 and not kw:
                return f"(atan2 {self.num(e.args[0])} {self.num(e.args[1])})", "num"
            if f.attr == "where" and len(e.args) == 3 and not kw:
                c = self.boolean(e.args[0])
                (a, ak), (b, bk) = self.expr(e.args[1]), self.expr(e.args[2])
                if ak != bk:
                    self.refuse("np.where branches of different kinds", e)
                return f"(if {strip(c)} then {strip(a)} else {strip(b)})", ak
            if f.attr in ("logical_or", "logical_and") and len(e.args) == 2 and not kw:
                op = "||" if f.attr == "logical_or" else "&&"
                return f"({self.boolean(e.args[0])} {op} {self.boolean(e.args[1])})", "bool"
            if f.attr == "isclose" and len(e.args) == 2 and set(kw) == {"rtol", "atol"}:
                return (f"(isclose {self.num(e.args[0])} {self.num(e.args[1])} {self.num(kw['rtol'])} {self.num(kw['atol'])})", "bool")
            self.refuse(f"numpy call {ast.unparse(e)[:60]}", e)
        if isinstance(f, ast.Name):
            if kw:
                self.refuse(f"keyword arguments in {ast.unparse(e)[:60]}", e)
            if f.id in self.kinds and isinstance(self.kinds[f.id], tuple):
                _, arity, kind = self.kinds[f.id]
                if len(e.args) != arity:
                    self.refuse(f"{f.id} called with {len(e.args)} arguments", e)
                return f"({ident(f.id)} {' '.join(self.num(a) for a in e.args)})", kind
            if f.id in SPECIAL:
                name, arity = SPECIAL[f.id]
                if len(e.args) != arity:
                    self.refuse(f"{f.id} called with {len(e.args)} arguments", e)
                return f"({name} {' '.join(self.num(a) for a in e.args)})", "num"
            if f.id in self.toplevel:
                name, arity, kind = self.toplevel[f.id]
                if len(e.args) != arity:
                    self.refuse(f"{f.id} called with {len(e.args)} arguments", e)
                return f"({name} {' '.join(self.num(a) for a in e.args)})", kind
        self.refuse(f"call {ast.unparse(e)[:60]}", e)

    # -------- statements
    def body(self, stmts, indent="  "):
        """-> (lines, result kind)"""
        lines = []
        stmts = list(stmts)
        if stmts and isinstance(stmts[0], ast.Expr) and isinstance(stmts[0].value, ast.Constant) and isinstance(stmts[0].value.value, str):
            stmts = stmts[1:]  # docstring
        for i, s in enumerate(stmts):
            if isinstance(s, ast.Return):
                if i != len(stmts) - 1:
                    self.refuse("statements after return", s)
                if s.value is None:
                    self.refuse("bare return", s)
                t, k = self.expr(s.value)
                lines.append(indent + strip(t))
                return lines, k
            if isinstance(s, ast.Assign):
                if len(s.targets) != 1 or not isinstance(s.targets[0], ast.Name):
                    self.refuse(f"assignment target {ast.unparse(s.targets[0])}", s)
                t, k = self.expr(s.value)
                self.kinds[s.targets[0].id] = k
                lines.append(f"{indent}let {ident(s.targets[0].id)} := {strip(t)}")
                continue
            if isinstance(s, ast.FunctionDef):
                a = s.args
                if a.vararg or a.kwarg or a.kwonlyargs or a.defaults or a.posonlyargs or s.decorator_list:
                    self.refuse(f"nested def {s.name}: signature", s)
                params = [p.arg for p in a.args]
                inner = Fn(f"{self.name}.{s.name}", self.toplevel)
                inner.kinds = dict(self.kinds)
                for p in params:
                    inner.kinds[p] = "num"
                ilines, ik = inner.body(s.body, indent + "  ")
                if ik != "num":
                    self.refuse(f"nested def {s.name} returns {ik}", s)
                self.kinds[s.name] = ("fun", len(params), "num")
                ps = " ".join(f"({ident(p)} : α)" for p in params)
                lines.append(f"{indent}let {ident(s.name)} : {' → '.join(['α'] * (len(params) + 1))} := fun {ps} =>")
                lines += ilines
                continue
            self.refuse(f"statement {type(s).__name__}", s)
        self.refuse("no return")


def plain_params(fn, name):
    a = fn.args
    if a.vararg or a.kwarg or a.kwonlyargs or a.defaults or a.posonlyargs or fn.decorator_list:
        raise Refusal(f"{name}: signature")
    return [p.arg for p in a.args]


def tr_scalar(fn, toplevel):
    params = plain_params(fn, fn.name)
    t = Fn(fn.name, toplevel)
    for p in params:
        t.kinds[p] = "num"
    lines, kind = t.body(fn.body)
    ty = "α" if kind == "num" else "Bool"
    head = f"def {ident(fn.name)} ({' '.join(ident(p) for p in params)} : α) : {ty} :="
    return ident(fn.name), "\n".join([head] + lines) + "\n", len(params), kind


def tr_determine_cases(fn, toplevel):
    """the numpy mask idiom of determine_cases, for one row"""
    name = fn.name
    params = plain_params(fn, name)
    t = Fn(name, toplevel)
    for p in params:
        t.kinds[p] = "num"
    stmts = list(fn.body)
    if stmts and isinstance(stmts[0], ast.Expr) and isinstance(stmts[0].value, ast.Constant) and isinstance(stmts[0].value.value, str):
        stmts = stmts[1:]
    lines = []
    lenvar, arr, rows = None, None, 0

    def small_nat(e, s):
        if isinstance(e, ast.Constant) and isinstance(e.value, int) and not isinstance(e.value, bool) and 0 <= e.value < 10**6:
            return e.value
        t.refuse(f"digit value {ast.unparse(e)}", s)

    for i, s in enumerate(stmts):
        u = ast.unparse(s)
        if isinstance(s, ast.Assign) and len(s.targets) == 1:
            tg, v = s.targets[0], s.value
            # n = len(r)
            if (isinstance(tg, ast.Name) and isinstance(v, ast.Call) and isinstance(v.func, ast.Name) and v.func.id == "len"
                    and len(v.args) == 1 and isinstance(v.args[0], ast.Name) and v.args[0].id in params):
                lenvar = tg.id
                continue
            # result = np.ones((3, n))
            if isinstance(tg, ast.Name) and isinstance(v, ast.Call) and ast.unparse(v.func) == "np.ones":
                sh = v.args[0] if len(v.args) == 1 and not v.keywords else None
                if not (isinstance(sh, ast.Tuple) and len(sh.elts) == 2 and isinstance(sh.elts[1], ast.Name) and sh.elts[1].id == lenvar):
                    t.refuse(f"array allocation {u}", s)
                arr, rows = tg.id, small_nat(sh.elts[0], s)
                for k in range(rows):
                    lines.append(f"  let {ident(arr)}_{k} : Nat := 1")
                continue
            if isinstance(tg, ast.Subscript) and isinstance(tg.value, ast.Name) and tg.value.id == arr and arr is not None:
                sl = tg.slice
                if isinstance(sl, ast.Constant):  # result[k] = c
                    k, c = small_nat(sl, s), small_nat(v, s)
                    if k >= rows:
                        t.refuse(f"row index {k}", s)
                    lines.append(f"  let {ident(arr)}_{k} : Nat := {c}")
                    continue
                if isinstance(sl, ast.Tuple) and len(sl.elts) == 2 and isinstance(sl.elts[1], ast.Name):  # result[k, mask] = c
                    k, c = small_nat(sl.elts[0], s), small_nat(v, s)
                    m = sl.elts[1].id
                    if k >= rows or t.kinds.get(m) != "bool":
                        t.refuse(f"masked assignment {u}", s)
                    lines.append(f"  let {ident(arr)}_{k} : Nat := if {ident(m)} then {c} else {ident(arr)}_{k}")
                    continue
                t.refuse(f"array assignment {u}", s)
            if isinstance(tg, ast.Name):
                if tg.id in (arr, lenvar):
                    t.refuse(f"reassignment of {tg.id}", s)
                tx, k = t.expr(v)
                t.kinds[tg.id] = k
                lines.append(f"  let {ident(tg.id)} := {strip(tx)}")
                continue
        if isinstance(s, ast.Return) and i == len(stmts) - 1 and arr is not None:
            if re.sub(r"\s", "", u) != f"returnnp.array(np.sum({arr},axis=0),dtype=int)":
                t.refuse(f"return {u}", s)
            lines.append("  " + " + ".join(f"{ident(arr)}_{k}" for k in range(rows)))
            head = f"def {ident(name)} ({' '.join(ident(p) for p in params)} : α) : Nat :="
            return ident(name), "\n".join([head] + lines) + "\n"
        t.refuse(f"statement {u[:80]}", s)
    t.refuse("no return")


def tr_assembler(fn, scalar_fns):
    """case<id>: results = np.zeros((len(x), 3, 3)); results[:, i, j] = f(args); return results"""
    name = fn.name
    params = plain_params(fn, name)

    def refuse(what, node):
        raise Refusal(f"{name} (line {node.lineno}): {what}")

    cells = {}
    stmts = list(fn.body)
    arr = None
    for i, s in enumerate(stmts):
        u = re.sub(r"\s", "", ast.unparse(s))
        if i == 0:
            m = re.fullmatch(r"(\w+)=np\.zeros\(\(len\((\w+)\),3,3\)\)", u)
            if not m or m.group(2) not in params:
                refuse(f"first statement {u}", s)
            arr = m.group(1)
            continue
        if i == len(stmts) - 1:
            if u != f"return{arr}":
                refuse(f"last statement {u}", s)
            continue
        ok = (isinstance(s, ast.Assign) and len(s.targets) == 1 and isinstance(s.targets[0], ast.Subscript)
              and isinstance(s.targets[0].value, ast.Name) and s.targets[0].value.id == arr)
        if ok:
            sl = s.targets[0].slice
            ok = (isinstance(sl, ast.Tuple) and len(sl.elts) == 3 and isinstance(sl.elts[0], ast.Slice)
                  and sl.elts[0].lower is None and sl.elts[0].upper is None and sl.elts[0].step is None
                  and all(isinstance(x, ast.Constant) and x.value in (0, 1, 2) and isinstance(x.value, int) for x in sl.elts[1:]))
        v = s.value if ok else None
        ok = ok and isinstance(v, ast.Call) and isinstance(v.func, ast.Name) and not v.keywords and all(isinstance(a, ast.Name) for a in v.args)
        if not ok:
            refuse(f"statement {ast.unparse(s)[:80]}", s)
        i_, j_ = sl.elts[1].value, sl.elts[2].value
        if (i_, j_) in cells:
            refuse(f"entry ({i_},{j_}) assigned twice", s)
        if v.func.id not in scalar_fns:
            refuse(f"unknown function {v.func.id}", s)
        lname, arity, kind = scalar_fns[v.func.id]
        if arity != len(v.args) or kind != "num":
            refuse(f"{v.func.id} called with {len(v.args)} arguments", s)
        for a in v.args:
            if a.id not in params:
                refuse(f"argument {a.id} is not a parameter", s)
        cells[(i_, j_)] = f"{lname} {' '.join(ident(a.id) for a in v.args)}"
        assembler_cells.setdefault(ident(name), {})[(i_, j_)] = (lname, [ident(a.id) for a in v.args])
    assembler_cells.setdefault(ident(name), {})
    rows = []
    for i_ in range(3):
        rows.append("⟨" + ", ".join(cells.get((i_, j_), "n 0") for j_ in range(3)) + "⟩")
    head = f"def {ident(name)} ({' '.join(ident(p) for p in params)} : α) : V3 (V3 α) :="
    return ident(name), head + "\n  ⟨" + ",\n   ".join(rows) + "⟩\n", len(params)


BASE_ARGS = ["r", "phi", "z", "r_i", "phi_j", "z_k", "phi_M", "theta_M"]  # the tiled inputs of magnet_cylinder_segment_Hfield

MAG_ARGS = ("phi_bar_M", "phi_bar_Mj", "theta_M")  # the arguments of the case functions that carry the magnetization direction


def mag_scan(fn):
    """syntactic scan of one case function for the way the magnetization direction enters.
    -> (special, offences):
       special  = [(special function, sorted parameter names its arguments depend on, through the local assignments)]
       offences = [description] of every place where an expression that depends on theta_M / phi_bar_M / phi_bar_Mj is
                  the argument of a call other than np.sin / np.cos, a denominator, the base of a power, an operand of
                  `%` or of a comparison (places where the dependence could not be linear in the direction vector)"""
    params = [p.arg for p in fn.args.args]
    deps = {p: {p} for p in params}  # local name -> parameters it depends on

    def dep(e, env):
        out = set()
        for x in ast.walk(e):
            if isinstance(x, ast.Name) and x.id in env:
                out |= env[x.id]
        return out

    special, offences = [], []

    def scan(e, env):
        mag = lambda x: bool(dep(x, env) & set(MAG_ARGS))
        for x in ast.walk(e):
            if isinstance(x, ast.Call):
                fname = ast.unparse(x.func)
                if fname in SPECIAL:
                    d = set()
                    for a in x.args:
                        d |= dep(a, env)
                    special.append((SPECIAL[fname][0], sorted(d)))
                if fname not in ("np.sin", "np.cos"):
                    for a in list(x.args) + [k.value for k in x.keywords]:
                        if mag(a):
                            offences.append(f"argument of {fname}: {ast.unparse(a)[:50]}")
                    if isinstance(x.func, ast.Name) and x.func.id in env and mag(x.func) and not any(mag(a) for a in x.args):
                        pass  # a local function whose body mentions the direction: scanned where it is defined
            elif isinstance(x, ast.BinOp):
                if isinstance(x.op, ast.Div) and mag(x.right):
                    offences.append(f"denominator: {ast.unparse(x.right)[:50]}")
                if isinstance(x.op, ast.Pow) and mag(x.left):
                    offences.append(f"base of a power: {ast.unparse(x.left)[:50]}")
                if isinstance(x.op, ast.Mod) and (mag(x.left) or mag(x.right)):
                    offences.append(f"operand of %: {ast.unparse(x)[:50]}")
            elif isinstance(x, ast.Compare) and mag(x):
                offences.append(f"comparison: {ast.unparse(x)[:50]}")

    def block(stmts, env):
        for s in stmts:
            if isinstance(s, ast.Assign) and len(s.targets) == 1 and isinstance(s.targets[0], ast.Name):
                scan(s.value, env)
                env[s.targets[0].id] = dep(s.value, env)
            elif isinstance(s, ast.FunctionDef):
                inner = dict(env)
                for p in s.args.args:
                    inner[p.arg] = set()
                block(s.body, inner)
                env[s.name] = inner.get("return", set())
            elif isinstance(s, ast.Return) and s.value is not None:
                scan(s.value, env)
                env["return"] = dep(s.value, env)
            # docstrings and anything else: the translation itself (Fn.body) refuses what it does not know

    block(fn.body, deps)
    return special, offences


def tr_tables(fn, assemblers, toplevel):
    """tables of magnet_cylinder_segment_Hfield"""
    name = fn.name
    found = {}
    derived = {}
    sumstmt = None
    for s in ast.walk(fn):
        if isinstance(s, ast.Assign) and len(s.targets) == 1 and isinstance(s.targets[0], ast.Name):
            tid = s.targets[0].id
            if tid in ("case_id", "case_fkt", "allargs", "case_args"):
                if tid in found:
                    raise Refusal(f"{name}: {tid} assigned twice")
                found[tid] = s.value
            else:
                derived.setdefault(tid, []).append(s)
            if tid == "result" and "np.sum" in ast.unparse(s.value):
                sumstmt = s
    for k in ("case_id", "case_fkt", "allargs", "case_args"):
        if k not in found:
            raise Refusal(f"{name}: table {k} not found")
    cid = found["case_id"]
    if not (isinstance(cid, ast.Call) and ast.unparse(cid.func) == "np.array" and len(cid.args) == 1 and isinstance(cid.args[0], ast.List)):
        raise Refusal(f"{name}: case_id is not np.array([...])")
    try:
        ids = [int(ast.literal_eval(x)) for x in cid.args[0].elts]
        fk = [x.id for x in found["case_fkt"].elts]
        al = [x.id for x in found["allargs"].elts]
        ca = [tuple(int(i) for i in ast.literal_eval(x)) for x in found["case_args"].elts]
    except Exception as e:
        raise Refusal(f"{name}: tables are not literal lists ({e})")
    if not (len(ids) == len(fk) == len(ca)) or len(set(ids)) != len(ids):
        raise Refusal(f"{name}: tables of different length or repeated case id")
    # the loop that uses the tables
    loops = [s for s in ast.walk(fn) if isinstance(s, ast.For)]
    want = ("for cid, cfkt, cargs in zip(case_id, case_fkt, case_args):\n    mask = cases == cid\n    if any(mask):\n"
            "        result[mask] = cfkt(*[allargs[aid][mask] for aid in cargs])")
    if len(loops) != 1 or ast.unparse(loops[0]) != want:
        raise Refusal(f"{name}: dispatch loop changed")
    # derived arguments
    t = Fn(name, toplevel)
    for b in BASE_ARGS:
        t.kinds[b] = "num"
    fields = []
    for a in al:
        if a in BASE_ARGS:
            fields.append((a, ident(a)))
            continue
        ds = derived.get(a, [])
        if len(ds) != 1:
            raise Refusal(f"{name}: argument {a} defined {len(ds)} times")
        fields.append((a, strip(t.num(ds[0].value))))
    if len(set(al)) != len(al):
        raise Refusal(f"{name}: allargs repeats a name")
    dispatch_rows.clear()
    allargs_fields.clear()
    allargs_fields.update({ident(a): e for a, e in fields})
    out = []
    out.append(("AllArgs", "structure AllArgs (α : Type) where\n" + "".join(f"  {ident(a)} : α\n" for a in al)))
    out.append(("allArgs", f"def allArgs ({' '.join(ident(b) for b in BASE_ARGS)} : α) : AllArgs α :=\n  {{ "
                + ",\n    ".join(f"{ident(a)} := {e}" for a, e in fields) + " }\n"))
    out.append(("caseIds", "def caseIds : List Nat := [" + ", ".join(str(i) for i in ids) + "]\n"))
    lines = ["def caseDispatch (cid : Nat) (a : AllArgs α) : Option (V3 (V3 α)) :=", "  match cid with"]
    for i, f, args in zip(ids, fk, ca):
        if f not in assemblers:
            raise Refusal(f"{name}: case function {f} unknown")
        lname, arity = assemblers[f]
        if arity != len(args) or any(not 0 <= k < len(al) for k in args):
            raise Refusal(f"{name}: {f} takes {arity} arguments, table gives {args}")
        lines.append(f"  | {i} => some ({lname} {' '.join('a.' + ident(al[k]) for k in args)})")
        dispatch_rows.append((i, lname, [ident(al[k]) for k in args]))
    lines.append("  | _ => none")
    out.append(("caseDispatch", "\n".join(lines) + "\n"))
    # boundary sum: np.sum(result[:, (1, 2, 4, 7)] - result[:, (0, 3, 5, 6)], axis=(1, 3))
    if sumstmt is None:
        raise Refusal(f"{name}: boundary sum not found")
    m = re.fullmatch(r"result=np\.sum\(result\[:,\(([\d,]+)\)\]-result\[:,\(([\d,]+)\)\],axis=\(1,3\)\)", re.sub(r"\s", "", ast.unparse(sumstmt)))
    if not m:
        raise Refusal(f"{name}: boundary sum changed: {ast.unparse(sumstmt)}")
    out.append(("plusIdx", f"def plusIdx : List Nat := [{', '.join(m.group(1).split(','))}]\n"))
    out.append(("minusIdx", f"def minusIdx : List Nat := [{', '.join(m.group(2).split(','))}]\n"))
    return out


assemblers_params = {}
assembler_cells = {}  # lean name of an assembler -> {(component, face type): (case function, argument names)}
dispatch_rows = []  # (case id, assembler, AllArgs fields passed)
allargs_fields = {}  # AllArgs field -> its defining expression in the inputs of magnet_cylinder_segment_Hfield
scalar_params = {}  # lean name of a case function -> its parameter names (lean identifiers), filled by translate()


def source_tables(path=None):
    """(case ids, case function names, allargs names, case_args index tuples) as the source has them now —
    used by the correspondence stream to call the real case functions block by block"""
    tree = ast.parse(open(path or source_path()).read())
    fn = next(f for f in tree.body if isinstance(f, ast.FunctionDef) and f.name == "magnet_cylinder_segment_Hfield")
    found = {}
    for s in ast.walk(fn):
        if isinstance(s, ast.Assign) and len(s.targets) == 1 and isinstance(s.targets[0], ast.Name) and s.targets[0].id in ("case_id", "case_fkt", "allargs", "case_args"):
            found[s.targets[0].id] = s.value
    ids = [int(ast.literal_eval(x)) for x in found["case_id"].args[0].elts]
    fk = [x.id for x in found["case_fkt"].elts]
    al = [x.id for x in found["allargs"].elts]
    ca = [tuple(int(i) for i in ast.literal_eval(x)) for x in found["case_args"].elts]
    return ids, fk, al, ca

HAND = {"magnet_cylinder_segment_Hfield", "BHJM_cylinder_segment_internal", "BHJM_cylinder_segment"}


def literal_rows(tree, names, prefix):
    """(function, numeric literals [floats, and integers other than 0..3], comparison operators), both in source order — the same
    convention as Gen/Tol.lean — for functions that are ported by hand"""
    opname = {ast.Lt: "<", ast.LtE: "<=", ast.Gt: ">", ast.GtE: ">=", ast.Eq: "==", ast.NotEq: "!="}
    fns = {f.name: f for f in tree.body if isinstance(f, ast.FunctionDef)}
    rows = []
    for nm in names:
        if nm not in fns:
            raise Refusal(f"{nm}: hand-ported function not found in the source")
        f = fns[nm]
        body = f.body[1:] if (f.body and isinstance(f.body[0], ast.Expr) and isinstance(getattr(f.body[0], "value", None), ast.Constant)
                              and isinstance(f.body[0].value.value, str)) else f.body
        nums, cmps = [], []
        for stmt in body:
            for x in ast.walk(stmt):
                if isinstance(x, ast.Constant) and isinstance(x.value, (int, float)) and not isinstance(x.value, bool):
                    if isinstance(x.value, float) or x.value not in (0, 1, 2, 3):
                        nums.append((x.lineno, x.col_offset, repr(x.value)))
                if isinstance(x, ast.Compare):
                    for o in x.ops:
                        if type(o) in opname:
                            cmps.append((x.lineno, x.col_offset, opname[type(o)]))
        rows.append((prefix + nm, [v for _, _, v in sorted(nums)], [v for _, _, v in sorted(cmps)]))
    return rows


def translate(path=None):
    """-> ordered list of (lean name, definition text)"""
    path = path or source_path()
    tree = ast.parse(open(path).read())
    blocks = []
    toplevel = {}  # python name -> (lean name, arity, kind)
    scalar_fns, assemblers = {}, {}
    tables_fn = None
    assemblers_params.clear()
    scalar_params.clear()
    assembler_cells.clear()
    special_rows, offence_rows = [], []
    for node in tree.body:
        if isinstance(node, (ast.Import, ast.ImportFrom)):
            continue
        if isinstance(node, ast.Expr) and isinstance(node.value, ast.Constant) and isinstance(node.value.value, str):
            continue
        if not isinstance(node, ast.FunctionDef):
            raise Refusal(f"<module> (line {node.lineno}): top-level statement {type(node).__name__}")
        nm = node.name
        if nm in toplevel or nm in assemblers:
            raise Refusal(f"{nm}: defined twice")
        if nm == "determine_cases":
            ln, text = tr_determine_cases(node, toplevel)
            blocks.append((ln, text))
            toplevel[nm] = (ln, len(node.args.args), "nat")
        elif nm in ("arctan_k_tan_2", "close") or re.fullmatch(r"H(r|phi|z)_(ri|phij|zk)_case\d{3}", nm):
            ln, text, arity, kind = tr_scalar(node, toplevel)
            blocks.append((ln, text))
            toplevel[nm] = (ln, arity, kind)
            scalar_fns[nm] = (ln, arity, kind)
            if nm not in ("arctan_k_tan_2", "close"):
                scalar_params[ln] = [ident(p.arg) for p in node.args.args]
                if "theta_M" not in scalar_params[ln]:
                    raise Refusal(f"{nm}: case function without the parameter theta_M")
                sp, off = mag_scan(node)
                special_rows += [(ln, f, d) for f, d in sp]
                offence_rows += [(ln, o) for o in off]
        elif re.fullmatch(r"case\d{3}", nm):
            ln, text, arity = tr_assembler(node, scalar_fns)
            blocks.append((ln, text))
            assemblers[nm] = (ln, arity)
            assemblers_params[nm] = [p.arg for p in node.args.args]
        elif nm == "magnet_cylinder_segment_Hfield":
            tables_fn = node
            blocks += tr_tables(node, assemblers, toplevel)
        elif nm in HAND:
            continue
        else:
            raise Refusal(f"{nm}: top-level function of unknown role (neither a case function nor one of the hand-ported wrappers)")
    if tables_fn is None:
        raise Refusal("magnet_cylinder_segment_Hfield: not found")
    # literals and comparison operators of the functions ported by hand (Model/CylSegWrap.lean, Model/CylSegSpecial.lean)
    rows = literal_rows(tree, ["magnet_cylinder_segment_Hfield", "BHJM_cylinder_segment_internal", "BHJM_cylinder_segment"], "field_BH_cylinder_segment.")
    el3_path = os.path.join(os.path.dirname(path), "special_el3.py")
    rows += literal_rows(ast.parse(open(el3_path).read()), ["el30", "el3", "el3_angle"], "special_el3.")
    q = lambda xs: "[" + ", ".join('"' + x + '"' for x in xs) + "]"
    blocks.append(("handPortedLiterals", "def handPortedLiterals : List (String × List String × List String) := [\n  "
                   + ",\n  ".join(f'("{nm}", {q(nums)}, {q(cmps)})' for nm, nums, cmps in rows) + "]\n"))
    # how the magnetization direction enters the case functions (syntactic scan, see mag_scan)
    q1 = lambda x: '"' + x.replace("\\", "\\\\").replace('"', "'") + '"'
    blocks.append(("specialCallDeps", "def specialCallDeps : List (String × String × List String) := [\n  "
                   + ",\n  ".join(f"({q1(fn_)}, {q1(sf)}, [{', '.join(q1(x) for x in d)}])" for fn_, sf, d in special_rows) + "]\n"))
    blocks.append(("magArgOffences", "def magArgOffences : List (String × String) := ["
                   + ", ".join(f"({q1(fn_)}, {q1(o)})" for fn_, o in offence_rows) + "]\n"))
    used = set()
    for _, text in blocks:
        used.update(re.findall(r"\b(H(?:r|phi|z)_(?:ri|phij|zk)_case\d{3}|case\d{3})\b", text))
    for nm in list(scalar_fns) + list(assemblers):
        if nm not in used and nm not in ("arctan_k_tan_2", "close"):
            raise Refusal(f"{nm}: translated but never used by an assembler / the dispatch table")
    return blocks


def render(blocks, namespace):
    head = (f"-- translated from {REL_SRC} by translate/cylseg2lean.py\n"
            "import MagpyVerif.Model.CylSegBase\n\n"
            "set_option linter.unusedVariables false\n\n"
            f"namespace {namespace}\n"
            "open MagpyVerif MagpyVerif.Kern MagpyVerif.Kern.Num MagpyVerif.Kern.NumX\n"
            "variable {α : Type} [NumX α]\n\n")
    return head + "\n".join(text for _, text in blocks) + f"\nend {namespace}\n"


LIN_BASE = "MagpyVerif.Lemmas.KernCylSegLinBase"
FROZEN_LIN = os.path.join(HERE, "..", "lean", "MagpyVerif", "Lemmas", "KernCylSegLinGen.lean")


def render_lin(path=None, namespace=FROZEN_NS, imports=(LIN_BASE,)):
    """the statements "every case function / assembler / dispatch result is linear in the magnetization direction"
    (vocabulary and the proof tactic: Lemmas/KernCylSegLinBase.lean), generated from the parameter lists: one theorem per
    translated case function (`<f>_sphlin`, proved by the uniform tactic), one per assembler (`case<id>_sphlin`, from its
    entries) and `caseDispatch_sphlin` (from the dispatch table).  `namespace` = where the definitions live
    (the frozen model, or the regenerated copy MagpyVerif.Gen.CylSeg)."""
    translate(path)
    for k, want in (("phi_bar_M", "phi_M - phi"), ("phi_bar_Mj", "phi_M - phi_j"), ("theta_M", "theta_M")):
        if allargs_fields.get(k) != want:
            raise Refusal(f"render_lin: argument {k} is {allargs_fields.get(k)!r}, expected {want!r}")
    for k, e in allargs_fields.items():
        if k not in MAG_ARGS and re.search(r"\b(phi_M|theta_M)\b", e):
            raise Refusal(f"render_lin: argument {k} = {e} depends on the magnetization direction")
    inst = "(realNumX μ S)"
    shift = {"phi_bar_M": "δ", "phi_bar_Mj": "δj"}

    def binder(params):
        vs = [p for p in params if p not in MAG_ARGS] + [shift[k] for k in ("phi_bar_M", "phi_bar_Mj") if k in params]
        return f" ({' '.join(vs)} : ℝ)" if vs else ""

    def app(params):
        return " ".join({"theta_M": "θ", "phi_bar_M": "(φ - δ)", "phi_bar_Mj": "(φ - δj)"}.get(p, p) for p in params)

    out = [f"-- statements generated from {REL_SRC} by translate/cylseg2lean.py (render_lin); proofs by the tactic of {LIN_BASE}"]
    out += [f"import {i}" for i in imports]
    out += ["", "set_option linter.unusedVariables false", "", f"namespace {namespace}", "open MagpyVerif MagpyVerif.Kern MagpyVerif.Kern.CylSeg", ""]
    for f, params in scalar_params.items():
        out.append(f"theorem {f}_sphlin (μ : ℝ) (S : SegSpecial){binder(params)} :\n"
                   f"    SphLin fun φ θ => @{f} ℝ {inst} {app(params)} := by\n  cylseg_sphlin {f}\n")
    for cname, cells in assembler_cells.items():
        params = [ident(p) for p in assemblers_params[cname.rstrip('_') if cname not in assemblers_params else cname]]
        if "theta_M" not in params:
            raise Refusal(f"render_lin: {cname} without theta_M")
        lines = [f"theorem {cname}_sphlin (μ : ℝ) (S : SegSpecial){binder(params)} :",
                 f"    SphLinB fun φ θ => @{cname} ℝ {inst} {app(params)} := by", "  intro φ θ", "  apply blockExt"]
        for i_ in range(3):
            for j_ in range(3):
                if (i_, j_) in cells:
                    fn_, args = cells[(i_, j_)]
                    actual = dict(zip(scalar_params[fn_], args))
                    # the callee's shift variable is the caller's (same parameter name on both sides, checked)
                    for k in ("phi_bar_M", "phi_bar_Mj", "theta_M"):
                        if k in scalar_params[fn_] and actual[k] != k:
                            raise Refusal(f"render_lin: {cname} passes {actual[k]} as {k} of {fn_}")
                    ex = [f"({actual[p]})" for p in scalar_params[fn_] if p not in MAG_ARGS]
                    ex += [shift[k] for k in ("phi_bar_M", "phi_bar_Mj") if k in scalar_params[fn_]]
                    lines.append(f"  · exact {fn_}_sphlin μ S {' '.join(ex)} φ θ".replace("  φ θ", " φ θ"))
                else:
                    lines.append("  · exact sphLin_zero μ φ θ")
        out.append("\n".join(lines) + "\n")
    base = [ident(b) for b in BASE_ARGS if b not in ("phi_M", "theta_M")]
    lines = [f"theorem caseDispatch_sphlin (μ : ℝ) (S : SegSpecial) (cid : Nat) ({' '.join(base)} : ℝ) :",
             f"    SphLinO fun φ θ => @caseDispatch ℝ {inst} cid (@allArgs ℝ {inst} {' '.join(base)} φ θ) := by",
             "  by_cases hm : cid ∈ caseIds",
             "  · simp only [caseIds, List.mem_cons, List.not_mem_nil, or_false] at hm",
             "    rcases hm with " + " | ".join(["h"] * len(dispatch_rows)) + " <;> subst h"]
    for cid, cname, flds in dispatch_rows:
        params = [ident(p) for p in assemblers_params[cname]]
        m = dict(zip(params, flds))
        for k in MAG_ARGS:
            if k in params and m[k] != k:
                raise Refusal(f"render_lin: the dispatch passes {m[k]} as {k} of {cname}")
        ex = [f"({allargs_fields[m[p]]})" for p in params if p not in MAG_ARGS]
        ex += [{"phi_bar_M": "phi", "phi_bar_Mj": "phi_j"}[k] for k in ("phi_bar_M", "phi_bar_Mj") if k in params]
        lines.append(f"    · exact SphLinO.of_some ({cname}_sphlin μ S {' '.join(ex)})")
    lines += ["  · have hn : ∀ a, @caseDispatch ℝ " + inst + " cid a = none := fun a => @caseDispatch_eq_none_of_not_mem ℝ " + inst + " cid a hm",
              "    simp only [hn]", "    exact SphLinO.of_none"]
    out.append("\n".join(lines) + "\n")
    out.append(f"end {namespace}\n")
    return "\n".join(out)


def cylseg_lin_in_sync(path=None, frozen=None):
    """is lean/MagpyVerif/Lemmas/KernCylSegLinGen.lean what render_lin produces from the source as it is now?
    -> names of the theorems that differ / are present on one side only"""
    def thms(text):
        out = {}
        for chunk in re.split(r"^(?=theorem )", text, flags=re.M)[1:]:
            chunk = re.sub(r"\nend [\w.]+\s*$", "\n", chunk)
            out[re.match(r"theorem (\S+)", chunk).group(1)] = " ".join(chunk.split())
        return out
    new, old = thms(render_lin(path)), thms(open(frozen or FROZEN_LIN).read())
    return [k for k in new if old.get(k) != new[k]] + [k for k in old if k not in new]


def split_defs(text):
    """definition name -> whitespace-normalised text, from a rendered file"""
    body = text.split("\nvariable {α : Type} [NumX α]\n", 1)
    if len(body) != 2:
        raise Refusal("frozen model: header not recognised")
    body = re.sub(r"\nend [\w.]+\s*$", "\n", body[1])
    out = {}
    for chunk in re.split(r"^(?=(?:def|structure) )", body, flags=re.M):
        if not chunk.strip():
            continue
        m = re.match(r"(?:def|structure) (\S+)", chunk)
        if not m:
            raise Refusal(f"frozen model: unrecognised block {chunk[:60]!r}")
        out[m.group(1)] = " ".join(chunk.split())
    return out


def cylseg_in_sync(path=None, frozen=None):
    """names of the definitions whose regenerated text differs from the frozen, reviewed model
    (also: present on one side only).  Raises Refusal if the source cannot be translated."""
    new = split_defs(render(translate(path), FROZEN_NS))
    old = split_defs(open(frozen or FROZEN).read())
    bad = [k for k in new if k not in old or old[k] != new[k]]
    bad += [k for k in old if k not in new]
    return bad


def main():
    ns = FROZEN_NS
    if "--namespace" in sys.argv:
        ns = sys.argv[sys.argv.index("--namespace") + 1]
    try:
        if "--lin" in sys.argv:
            sys.stdout.write(render_lin(namespace=ns))
            return
        if "--check" in sys.argv:
            bad = cylseg_in_sync() + ["lin:" + b for b in cylseg_lin_in_sync()]
            for b in bad:
                print(f"OUT-OF-DATE {b}")
            sys.exit(1 if bad else 0)
        sys.stdout.write(render(translate(), ns))
    except Refusal as r:
        print(f"REFUSED {r}", file=sys.stderr)
        sys.exit(1)


if __name__ == "__main__":
    main()
