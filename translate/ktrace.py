"""Concolic tracer: run the REAL numpy kernel of /repo on one symbolic row and print what it computed as Lean.

The kernels of magpylib are vectorised numpy code (masks, fancy indexing, `.T`, broadcasting).  Instead of
re-implementing numpy's semantics in a source-to-source translator, the kernel itself is executed on object arrays
whose elements are `Sym` values: an expression tree plus a shadow float.  Arithmetic builds the tree, comparisons are
decided with the shadow value and recorded as the *path condition* of the run.  One run therefore yields, for the
branch the shadow input selects, exactly the arithmetic the source performs for one row — regenerated from /repo's
working tree on every check run (Gen/KernTrace.lean).  Lemmas/KernTraceEq.lean proves, at the real carrier, that
each traced branch equals the hand-written model under the path condition, so a source edit that changes the
arithmetic breaks a proof obligation that names the kernel and the branch.

Everything the tracer cannot represent faithfully raises (→ `GEN KernTrace refused`), it never guesses.
"""
import math
import sys

import numpy as np


class TraceRefusal(Exception):
    pass


class Sym:
    """concolic scalar: expression tree + shadow float value"""

    __slots__ = ("e", "v")
    __array_priority__ = 1000
    trace = None  # list of recorded path conditions (op, lhs, rhs, outcome)

    def __init__(self, e, v):
        self.e, self.v = e, float(v)

    @staticmethod
    def lift(o):
        if isinstance(o, Sym):
            return o
        if isinstance(o, (bool, np.bool_)):
            raise TypeError("bool in arithmetic")
        if isinstance(o, (int, np.integer)):
            return Sym(("int", int(o)), float(o))
        if isinstance(o, (float, np.floating)):
            return Sym(("flt", float(o)), float(o))
        raise TypeError(f"cannot lift {type(o)}")

    def _bin(self, o, op, f, rev=False):
        try:
            o = Sym.lift(o)
        except TypeError:
            return NotImplemented
        a, b = (o, self) if rev else (self, o)
        with np.errstate(all="ignore"):
            v = float(f(np.float64(a.v), np.float64(b.v)))
        return Sym((op, a.e, b.e), v)

    def __add__(s, o): return s._bin(o, "add", lambda a, b: a + b)
    def __radd__(s, o): return s._bin(o, "add", lambda a, b: a + b, True)
    def __sub__(s, o): return s._bin(o, "sub", lambda a, b: a - b)
    def __rsub__(s, o): return s._bin(o, "sub", lambda a, b: a - b, True)
    def __mul__(s, o): return s._bin(o, "mul", lambda a, b: a * b)
    def __rmul__(s, o): return s._bin(o, "mul", lambda a, b: a * b, True)
    def __truediv__(s, o): return s._bin(o, "div", lambda a, b: a / b)
    def __rtruediv__(s, o): return s._bin(o, "div", lambda a, b: a / b, True)
    def __neg__(s): return Sym(("neg", s.e), -s.v)
    def __pos__(s): return s
    def __abs__(s): return Sym(("abs", s.e), abs(s.v))
    fabs = __abs__
    absolute = __abs__

    def __pow__(s, k):
        if isinstance(k, Sym):
            raise TraceRefusal("symbolic exponent")
        if isinstance(k, (int, np.integer)) or (isinstance(k, (float, np.floating)) and k == int(k)):
            k = int(k)
            if k < 0:
                raise TraceRefusal("negative exponent")
            with np.errstate(all="ignore"):
                return Sym(("pow", s.e, k), float(np.float64(s.v) ** k))
        if k == 0.5:
            return s.sqrt()
        if isinstance(k, (float, np.floating)) and k > 0 and 2 * k == int(2 * k):
            # x ** (j + 1/2) read as x**j * sqrt(x) (equal for x >= 0; numpy gives nan for x < 0, where the sources never go)
            return s.__pow__(int(k - 0.5)) * s.sqrt()
        raise TraceRefusal(f"exponent {k}")

    def _un(s, name, f):
        with np.errstate(all="ignore"):
            return Sym((name, s.e), float(f(np.float64(s.v))))

    def sqrt(s): return s._un("sqrt", np.sqrt)
    def log(s): return s._un("log", np.log)
    def sin(s): return s._un("sin", np.sin)
    def cos(s): return s._un("cos", np.cos)

    def arctan2(s, o):
        o = Sym.lift(o)
        return Sym(("atan2", s.e, o.e), math.atan2(s.v, o.v))

    def conjugate(s): return s

    def _cmp(s, o, op, f):
        o = Sym.lift(o)
        r = bool(f(s.v, o.v))
        Sym.trace.append((op, s.e, o.e, r))
        return r

    def __lt__(s, o): return s._cmp(o, "lt", lambda a, b: a < b)
    def __le__(s, o): return s._cmp(o, "le", lambda a, b: a <= b)
    def __gt__(s, o): return s._cmp(o, "gt", lambda a, b: a > b)
    def __ge__(s, o): return s._cmp(o, "ge", lambda a, b: a >= b)
    def __eq__(s, o): return s._cmp(o, "eq", lambda a, b: a == b)
    def __ne__(s, o): return s._cmp(o, "ne", lambda a, b: a != b)
    __hash__ = None

    def __float__(s):
        raise TraceRefusal("float() of a symbolic value (the source converts to a plain float array)")

    def __bool__(s):  # `.astype(bool)` / truthiness of a float: x != 0, decided by the shadow and recorded
        r = bool(s.v != 0)
        Sym.trace.append(("ne", s.e, ("int", 0), r))
        return r

    def __repr__(s):
        return f"Sym({s.v})"


class SymArray(np.ndarray):
    """object array whose `.astype(float)` keeps the symbolic entries (the sources use it to copy)"""

    def astype(self, dtype, *a, **k):  # noqa: D102
        if dtype in (float, np.float64, "float", "float64"):
            return self.copy()
        return np.ndarray.astype(self, dtype, *a, **k)


def symarr(names, vals):
    """object array of fresh variables; `names` has the same nesting as `vals`"""
    vals = np.asarray(vals, dtype=float)
    names = np.asarray(names, dtype=object)
    assert names.shape == vals.shape, (names.shape, vals.shape)
    a = np.empty(vals.shape, dtype=object)
    for idx in np.ndindex(a.shape):
        a[idx] = Sym(("var", str(names[idx])), vals[idx])
    return a.view(SymArray)


class NPProxy:
    """stands in for the module-level `np` of a traced module: allocation routines return object arrays"""

    def __init__(self):
        self._np = np

    def __getattr__(self, k):
        return getattr(self._np, k)

    @staticmethod
    def _obj(shape, fill):
        a = np.empty(shape, dtype=object)
        a[...] = fill
        return a.view(SymArray)

    def empty(self, shape, dtype=float, **k):
        if dtype in (float, np.float64):
            return self._obj(shape, float("nan"))  # never read before it is written in the traced sources
        return np.empty(shape, dtype=dtype, **k)

    def zeros(self, shape, dtype=float, **k):
        if dtype in (float, np.float64):
            return self._obj(shape, 0.0)
        return np.zeros(shape, dtype=dtype, **k)

    def ones(self, shape, dtype=float, **k):
        if dtype in (float, np.float64):
            return self._obj(shape, 1.0)
        return np.ones(shape, dtype=dtype, **k)

    def zeros_like(self, a, dtype=None, **k):
        if dtype in (None, float, np.float64):
            return self._obj(np.shape(a), 0.0)
        return np.zeros_like(a, dtype=dtype, **k)

    def copy(self, a, **k):
        r = np.copy(a, **k)
        return r.view(SymArray) if r.dtype == object else r

    def isclose(self, a, b, rtol=1e-05, atol=1e-08, equal_nan=False):
        """numpy's definition for finite values: |a - b| <= atol + rtol * |b|"""
        a, b = np.asarray(a, dtype=object), np.asarray(b, dtype=object)
        if not (_has_sym(a) or _has_sym(b)):
            return np.isclose(a.astype(float), b.astype(float), rtol=rtol, atol=atol, equal_nan=equal_nan)
        return np.asarray(abs(a - b) <= (atol + rtol * abs(b)), dtype=bool)


def _has_sym(a):
    return any(isinstance(x, Sym) for x in np.ravel(a))


class MathProxy:
    """stands in for a module-level `math` (`import math as m`): scalar functions on symbolic values"""

    def __getattr__(self, k):
        return getattr(math, k)

    @staticmethod
    def fabs(x):
        return abs(x) if isinstance(x, Sym) else math.fabs(x)

    @staticmethod
    def sqrt(x):
        return x.sqrt() if isinstance(x, Sym) else math.sqrt(x)

    @staticmethod
    def log(x):
        return x.log() if isinstance(x, Sym) else math.log(x)


def opaque(name, real):
    """an external special function kept as an uninterpreted symbol; shadow value from the real function"""

    def f(*args):
        args = [np.asarray(a, dtype=object) for a in args]
        shape = np.broadcast_shapes(*[a.shape for a in args])
        out = np.empty(shape, dtype=object)
        bargs = [np.broadcast_to(a, shape) for a in args]
        for idx in np.ndindex(shape):
            row = [Sym.lift(b[idx]) for b in bargs]
            with np.errstate(all="ignore"):
                v = real(*[np.array([r.v]) for r in row])
            out[idx] = Sym(("call", name) + tuple(r.e for r in row), float(np.asarray(v).ravel()[0]))
        return out.view(SymArray)

    return f


# ------------------------------------------------------------------------------------------------------------------
# Lean emission

PI = math.pi


def _lit(v):
    """exact decimal of a float literal as `n m / n 10^k` (or `n m`)"""
    if v != v or v in (float("inf"), float("-inf")):
        raise TraceRefusal(f"non-finite literal {v}")
    neg = v < 0
    v = abs(v)
    from decimal import Decimal

    d = Decimal(repr(v))
    sign, digits, exp = d.as_tuple()
    m = int("".join(map(str, digits)))
    if exp >= 0:
        s = f"n {m * 10 ** exp}"
    else:
        s = f"(n {m} / n {10 ** (-exp)})"
    return f"(-{s})" if neg else s


def literal(v, source_literals, mu0):
    """how a float constant met in a trace is read: ("rat", p, q) = p/q, ("pi", p, q) = p*pi/q, ("mu0", 1, 1); the sign
    is dropped (callers negate).  Python folds constant expressions such as `2 / 3` or `4 * np.pi` before any array is
    involved, so a literal that is exactly the double nearest to p/q (q <= 1000) or to p*pi/q (p, q <= 64) is read as
    that quotient (same double in IEEE arithmetic, the intended number over the reals); any other constant must be
    spelled in the source (then it is its exact decimal expansion) or the tracer refuses."""
    if v != v or v in (float("inf"), float("-inf")):
        raise TraceRefusal(f"non-finite literal {v}")
    a = abs(v)
    if a == PI:
        return ("pi", 1, 1)
    if a == mu0:
        return ("mu0", 1, 1)
    if a == int(a) and a < 2 ** 53:
        return ("rat", int(a), 1)
    for q in range(2, 1001):
        pnum = round(a * q)
        if pnum and float(pnum) / float(q) == a and math.gcd(pnum, q) == 1:
            return ("rat", pnum, q)
    for pnum in range(1, 65):
        for q in range(1, 65):
            if math.gcd(pnum, q) == 1 and a in (pnum * PI / q, (pnum / q) * PI, PI / q * pnum):
                return ("pi", pnum, q)
    if a in source_literals:
        from decimal import Decimal

        sign, digits, exp = Decimal(repr(a)).as_tuple()
        m = int("".join(map(str, digits)))
        return ("rat", m * 10 ** exp, 1) if exp >= 0 else ("rat", m, 10 ** (-exp))
    raise TraceRefusal(f"numeric constant {v!r} is neither spelled in the source nor a recognised multiple of pi / small quotient")


def source_literals(modules):
    import ast
    import inspect

    lits = set()
    for m in modules:
        for node in ast.walk(ast.parse(inspect.getsource(m))):
            if isinstance(node, ast.Constant) and isinstance(node.value, float):
                lits.add(abs(node.value))
    return lits


class Emitter:
    def __init__(self, mu0, source=""):
        self.mu0 = mu0
        self.source = source

    def emit_def(self, name, args, outs, conds, doc):
        """Lean text of `def name (args : α) : List α` with shared subterms let-bound, plus `name_path : Bool`"""
        # reference counts over the DAG (by structure)
        counts = {}

        def count(e):
            if not isinstance(e, tuple) or e[0] in ("var", "int", "flt"):
                return
            counts[e] = counts.get(e, 0) + 1
            if counts[e] > 1:
                return
            for c in e[1:]:
                count(c)

        roots = [o for o in outs] + [c[1] for c in conds] + [c[2] for c in conds]
        for r in roots:
            count(r)
        names = {}
        lines = []

        def size(e, memo={}):
            if not isinstance(e, tuple) or e[0] in ("var", "int", "flt"):
                return 0
            return 1 + sum(size(c) for c in e[1:] if isinstance(c, tuple))

        def go(e):
            if not isinstance(e, tuple):
                raise TraceRefusal(f"bad node {e!r}")
            k = e[0]
            if k == "var":
                return e[1]
            if k == "int":
                return f"(n {e[1]})" if e[1] >= 0 else f"(-(n {-e[1]}))"
            if k == "flt":
                kind, pn, q = literal(e[1], self.source, self.mu0)
                if kind == "mu0":
                    return "mu0"
                body = {"rat": f"(n {pn})" if q == 1 else f"(n {pn} / n {q})",
                        "pi": "pi" if (pn, q) == (1, 1) else f"(n {pn} * pi)" if q == 1 else f"(n {pn} * pi / n {q})"}[kind]
                return body if e[1] >= 0 else f"(-{body})"
            if e in names:
                return names[e]
            if k in ("add", "sub", "mul", "div"):
                op = {"add": "+", "sub": "-", "mul": "*", "div": "/"}[k]
                s = f"({go(e[1])} {op} {go(e[2])})"
            elif k == "neg":
                s = f"(-{go(e[1])})"
            elif k == "pow":
                s = f"(powN {go(e[1])} {e[2]})"
            elif k in ("sqrt", "log", "sin", "cos", "abs"):
                s = f"({k} {go(e[1])})"
            elif k == "atan2":
                s = f"(atan2 {go(e[1])} {go(e[2])})"
            elif k == "call":
                s = "(" + " ".join([e[1]] + [go(c) for c in e[2:]]) + ")"
            else:
                raise TraceRefusal(f"node kind {k}")
            if counts.get(e, 0) > 1 and size(e) >= 2:
                nm = f"t{len(names)}"
                names[e] = nm
                lines.append(f"  let {nm} : α := {s}")
                return nm
            return s

        out_s = [go(o) for o in outs]
        body_lines = list(lines)
        sig = " ".join(args)
        txt = f"/-- {doc} -/\ndef {name} ({sig} : α) : List α :=\n" + "\n".join(body_lines) + ("\n" if body_lines else "")
        txt += "  [" + ", ".join(out_s) + "]\n"
        # path condition (its own let-chain so the two definitions are independent)
        names.clear()
        lines.clear()
        cs = []
        for op, a, b, r in conds:
            A, B = go(a), go(b)
            zero = b in (("int", 0), ("flt", 0.0))
            if op == "lt":
                c = f"lt {A} {B}"
            elif op == "gt":
                c = f"lt {B} {A}"
            elif op == "le":
                c = f"le {A} {B}"
            elif op == "ge":
                c = f"le {B} {A}"
            elif op in ("eq", "ne"):
                c = f"eq0 {A}" if zero else f"eq0 ({A} - {B})"
                if op == "ne":
                    r = not r
            else:
                raise TraceRefusal(f"comparison {op}")
            cs.append(f"({c})" if r else f"(!({c}))")
        txt += f"/-- path condition of `{name}` (comparisons the source made, with the outcome on the traced row) -/\n"
        txt += f"def {name}_path ({sig} : α) : Bool :=\n" + "\n".join(lines) + ("\n" if lines else "")
        txt += "  " + (" && ".join(cs) if cs else "true") + "\n"
        return txt


def dedupe_conds(conds):
    seen, out = set(), []
    for c in conds:
        if c in seen:
            continue
        seen.add(c)
        out.append(c)
    return out


def flatten_out(out):
    out = np.asarray(out, dtype=object)
    res = []
    for c in out.ravel():
        if isinstance(c, Sym):
            res.append(c)
        elif isinstance(c, (int, float, np.integer, np.floating)):
            res.append(Sym.lift(c))
        else:
            raise TraceRefusal(f"output entry of type {type(c).__name__}")
    return res


def trace(fn, modules):
    """run `fn()` with the module-level `np` of `modules` replaced by the proxy; returns (outputs, conds)"""
    proxy = NPProxy()
    saved = [(m, "np", m.np) for m in modules] + [(m, "m", m.m) for m in modules if getattr(m, "m", None) is math]
    Sym.trace = []
    try:
        for m, attr, _ in saved:
            setattr(m, attr, proxy if attr == "np" else MathProxy())
        out = fn()
    finally:
        for m, attr, old in saved:
            setattr(m, attr, old)
    return flatten_out(out), dedupe_conds(Sym.trace)


# ------------------------------------------------------------------------------------------------------------------
# strata: which kernel, which branch, with which shadow row


def strata():
    from magpylib._src.fields import field_BH_cuboid as cub
    from magpylib._src.fields import field_BH_dipole as dip
    from magpylib._src.fields import field_BH_polyline as pol
    from magpylib._src.fields import field_BH_sphere as sph
    from magpylib._src.fields import field_BH_triangle as tri

    V = lambda names, vals: symarr([list(names)], [list(vals)])  # noqa: E731
    S = []

    def add(name, args, thunk, modules, doc, sample):
        S.append(dict(name=name, args=args, thunk=thunk, modules=modules, doc=doc, sample=sample))

    # --- Dipole
    dargs = ["x", "y", "z", "mx", "my", "mz"]
    dval = [0.3, -0.2, 0.7, 1.0, 2.0, -0.5]
    add("dipoleH_general", dargs, lambda: dip.dipole_Hfield(V("xyz", dval[:3]), V(["mx", "my", "mz"], dval[3:])), [dip],
        "field_BH_dipole.dipole_Hfield, observer off the dipole position", dval)
    for f in "BH":
        add(f"bhjmDipole_{f}", dargs, (lambda f=f: dip.BHJM_dipole(f, V("xyz", dval[:3]), V(["mx", "my", "mz"], dval[3:]))), [dip],
            f"field_BH_dipole.BHJM_dipole field={f}", dval)
    # --- Sphere
    sargs = ["d", "px", "py", "pz", "x", "y", "z"]
    for f in "BHJM":
        for where, obs in (("inside", [0.1, -0.2, 0.15]), ("outside", [0.3, -1.2, 0.7])):
            sval = [1.0, 0.1, 0.2, 0.3] + obs
            add(f"bhjmSphere_{f}_{where}", sargs,
                (lambda f=f, obs=obs: sph.BHJM_magnet_sphere(f, V("xyz", obs), symarr(["d"], [1.0]), V(["px", "py", "pz"], [0.1, 0.2, 0.3]))),
                [sph], f"field_BH_sphere.BHJM_magnet_sphere field={f}, observer {where}", sval)
    # --- straight current segment: the three orderings of the foot point
    gargs = ["i0", "ax", "ay", "az", "ex", "ey", "ez", "x", "y", "z"]
    for where, obs in (("between", [0.4, 0.9, 0.3]), ("below", [-2.5, -1.0, 0.4]), ("above", [3.5, 2.0, 0.9])):
        gval = [2.0, 0.1, -0.1, 0.0, 1.1, 0.5, 0.2] + obs
        add(f"segmentH_{where}", gargs,
            (lambda obs=obs: pol.current_polyline_Hfield(V("xyz", obs), V(["ax", "ay", "az"], [0.1, -0.1, 0.0]),
                                                        V(["ex", "ey", "ez"], [1.1, 0.5, 0.2]), symarr(["i0"], [2.0]))),
            [pol], f"field_BH_polyline.current_polyline_Hfield, foot point of the observer {where} the segment ends", gval)
    # --- Cuboid closed form, one trace per octant of the observer
    cargs = ["a", "b", "c", "px", "py", "pz", "x", "y", "z"]
    for sx in (1, -1):
        for sy in (1, -1):
            for sz in (1, -1):
                obs = [0.3 * sx, 1.2 * sy, 0.7 * sz]
                cval = [1.0, 2.0, 3.0, 0.1, 0.2, 0.3] + obs
                nm = "cuboidB_" + "".join("p" if s > 0 else "m" for s in (sx, sy, sz))
                add(nm, cargs,
                    (lambda obs=obs: cub.magnet_cuboid_Bfield(V("xyz", obs), V("abc", [1.0, 2.0, 3.0]), V(["px", "py", "pz"], [0.1, 0.2, 0.3]))),
                    [cub], f"field_BH_cuboid.magnet_cuboid_Bfield, observer octant (sign x, y, z) = ({sx}, {sy}, {sz})", cval)
    # --- Triangle sheet, observer in general position (all three edge integrals in their main branch)
    targs = [f"v{i}{c}" for i in range(3) for c in "xyz"] + ["px", "py", "pz", "x", "y", "z"]
    tv = [[0.0, 0.0, 0.0], [1.0, 0.0, 0.1], [0.2, 1.0, 0.0]]
    tval = sum(tv, []) + [0.1, 0.2, 0.3, 0.3, -1.2, 0.7]
    add("triangleB_general", targs,
        lambda: tri.triangle_Bfield(V("xyz", [0.3, -1.2, 0.7]),
                                    symarr([[[f"v{i}{c}" for c in "xyz"] for i in range(3)]], [tv]),
                                    V(["px", "py", "pz"], [0.1, 0.2, 0.3])),
        [tri], "field_BH_triangle.triangle_Bfield, observer off the plane and off the edge extensions", tval)
    return S


def generate():
    """returns (lean_text, table) — table: per stratum name, args, shadow sample, shadow outputs, #conds"""
    import magpylib

    import inspect

    sts = strata()
    mods = {m.__name__: m for st in sts for m in st["modules"]}
    em = Emitter(magpylib.mu_0, source_literals(mods.values()))
    parts = []
    table = []
    for st in sts:
        outs, conds = trace(st["thunk"], st["modules"])
        parts.append(em.emit_def(st["name"], st["args"], [o.e for o in outs], conds, st["doc"]))
        table.append(dict(name=st["name"], args=st["args"], sample=st["sample"], out=[o.v for o in outs], conds=len(conds)))
    disp = ["/-- evaluate a traced branch by name: (outputs, path condition holds) -/",
            "def run (name : String) (a : Array α) : Option (List α × Bool) :=",
            "  let g (i : Nat) : α := a.getD i (n 0)",
            "  match name with"]
    for t in table:
        call = " ".join(f"(g {i})" for i in range(len(t["args"])))
        disp.append(f"  | \"{t['name']}\" => some ({t['name']} {call}, {t['name']}_path {call})")
    disp.append("  | _ => none")
    names = "[" + ", ".join(f"\"{t['name']}\"" for t in table) + "]"
    text = ("import MagpyVerif.Model.KernTraceBase\nset_option linter.unusedVariables false\n\nnamespace MagpyVerif.Gen.KernTrace\nopen MagpyVerif MagpyVerif.Kern MagpyVerif.Kern.Num\n"
            "variable {α : Type} [Num α]\n\n" + "\n".join(parts) + "\n" + "\n".join(disp) +
            f"\n\n/-- the traced branches, in generation order -/\ndef names : List String := {names}\n\nend MagpyVerif.Gen.KernTrace\n")
    return text, table


if __name__ == "__main__":
    sys.path.insert(0, "/repo")
    t, tab = generate()
    print(t[:3000])
    for r in tab:
        print(r["name"], r["conds"], r["out"])
