"""Conservative WRITE-SET / ALIAS analysis of the field-computation call path (property C08).

Pure `ast` (nothing is imported from the analysed tree, so a patched scratch copy can be analysed as well):

    analyse(repo_root, overlay=None) -> Result

reads `<overlay>/<relpath>` if it exists, else `<repo_root>/<relpath>`.  Env var convention: VERIF_REPO is the source root,
VERIF_WRITESET_OVERLAY an optional directory holding patched copies of single files (same relative paths).
Command line:  python translate/writeset.py [--root DIR] [--overlay DIR]   prints the site table.

What is computed
----------------
* the set of functions on the call path: the roots (getB/getH/getJ/getM of field_wrap_BH, BaseSource, Sensor,
  BaseCollection) closed under (1) calls of plain names that resolve (module level def or `from … import`) to a function of an
  analysed module, (2) `self.m(...)` / `obj.m(...)` where `m` is a method of an analysed class and not a known numpy/builtin
  method name, (3) property getters of the object classes whose name is loaded as an attribute (or reached through
  getattr/hasattr) on a value that may pre-exist the call, (4) the iteration/len/index/repr dunders of the object classes.
* per function a flow-SENSITIVE (variables are strongly updated, branches joined, loops iterated to a fixpoint) points-to
  analysis over three kinds of abstract objects:  `P` = anything that existed before the call and is reachable from a
  parameter or `self`;  `G` = anything reachable from a module global / class attribute / closure;  `F<line:col>` = an
  object allocated at that expression during the call.  Every abstract object has ONE contents cell (field- and
  index-insensitive, weakly updated).  Loading an attribute / a subscript / an iteration element of S yields S ∪ contents(S)
  (a numpy view counts as the array it views).
* every MUTATION SITE with the class of its root: attribute assignment, subscript assignment, augmented assignment (in place
  for lists / arrays), `del`, setattr/delattr, in-place methods, numpy functions writing into an argument (`out=`, np.copyto…),
  `global` rebinding.  Class `fresh` iff every abstract object the mutated expression may denote is an `F`.
* CONSUME sites: getBH_level1 hands its keyword arguments to the field function, and the library's own field functions DO
  write into their inputs (check_chirality swaps vertices in place).  So every call of getBH_level1 is a site whose root is
  everything reachable from the forwarded arguments (all but the exempt names, see CONSUME_EXEMPT): they must be fresh.
* EXTERNAL calls (callee not analysed): recorded with `argsFresh` = nothing pre-existing is reachable from receiver and
  arguments.  A call with non-fresh arguments is only acceptable if the callee is in the reviewed list of the Lean side
  (Model/WriteSet.lean `trustedCallees`).

TRUSTED (this is the conservative, hand-written part — everything the theorems say rests on it):
* FRESH_DEEP / FRESH_SHALLOW / ALIAS below: which library functions and methods return new memory (and whether the new
  container still holds references to the argument's elements), which may return their argument or a view of it.
  Anything not listed is treated as possibly returning an alias of anything reachable from its arguments.
* MUTATING_METHODS / OUT_FUNCS: which names write in place.  A method that writes in place under a name not listed is missed.
* Python semantics assumed: `**kwargs` of a callee is a new dict (its values are the caller's), `*args` a new tuple;
  a mutable default argument value is a pre-existing object like any other parameter value (class P); strings, numbers, None,
  bools are immutable.
* One refinement beyond weak updates (needed for getBH_dict_level2): a loop `for k, v in D.items(): …; D[k] = X` whose last
  top-level body statement is the unconditional store, without `break`/`continue`/`return` in the body, with D denoting exactly
  one fresh dict allocated outside the loop, REPLACES the contents of D by what X may denote (every key is overwritten when
  the loop completes; keys are not added while iterating, Python would raise).
"""
import ast
import os
import sys

# ----------------------------------------------------------------------------------------------------------------------------
# analysed universe

MODULES = {
    "field_wrap_BH": "magpylib/_src/fields/field_wrap_BH.py",
    "utility": "magpylib/_src/utility.py",
    "input_checks": "magpylib/_src/input_checks.py",
    "class_BaseExcitations": "magpylib/_src/obj_classes/class_BaseExcitations.py",
    "class_Sensor": "magpylib/_src/obj_classes/class_Sensor.py",
    "class_Collection": "magpylib/_src/obj_classes/class_Collection.py",
    "class_BaseGeo": "magpylib/_src/obj_classes/class_BaseGeo.py",
    "class_BaseDisplayRepr": "magpylib/_src/obj_classes/class_BaseDisplayRepr.py",
}
OBJ_CLASS_DIR = "magpylib/_src/obj_classes"
FIELDS_DIR = "magpylib/_src/fields"

ROOTS = (
    [("field_wrap_BH", None, f) for f in ("getB", "getH", "getJ", "getM")]
    + [("class_BaseExcitations", "BaseSource", f) for f in ("getB", "getH", "getJ", "getM")]
    + [("class_Sensor", "Sensor", f) for f in ("getB", "getH", "getJ", "getM")]
    + [("class_Collection", "BaseCollection", f) for f in ("getB", "getH", "getJ", "getM", "_validate_getBH_inputs")]
    # the functions the task names explicitly (reached anyway; listed so that a refactoring that disconnects one is noticed)
    + [("field_wrap_BH", None, f) for f in ("getBH_level2", "getBH_level1", "getBH_dict_level2", "get_src_dict", "tile_group_property")]
    + [("utility", None, f) for f in ("format_obj_input", "format_src_inputs", "format_star_input", "check_static_sensor_orient", "filter_objects")]
    + [("input_checks", None, f) for f in ("check_format_input_observers", "check_dimensions", "check_excitations", "check_format_pixel_agg",
                                            "check_getBH_output_type")]
)
IMPLICIT_DUNDERS = ("__iter__", "__len__", "__getitem__", "__repr__", "__str__", "__contains__", "__bool__", "__eq__", "__hash__")

# functions whose arguments are handed on to code that may write into them: every call is a CONSUME site
CONSUMERS = {"field_wrap_BH.getBH_level1"}
# … except these keyword names (a callable, and two strings that the field functions only compare)
CONSUME_EXEMPT = ("field_func", "field", "in_out")
# parameters of the core field functions that are plain float arrays / strings, never object-dtype stacks: `observers` is computed by
# getBH_level1 as `orientation.apply(observers - position, inverse=True)`, `field` and `in_out` are strings
ARG_NUMERIC_PARAMS = ("observers", "field", "in_out")

# ----------------------------------------------------------------------------------------------------------------------------
# trusted tables (dotted names as written in the source, or bare builtin names)

FRESH_DEEP = {  # new memory, no references to pre-existing mutable objects inside
    "np.array", "np.zeros", "np.ones", "np.empty", "np.full", "np.arange", "np.linspace", "np.eye", "np.cumsum", "np.prod", "np.sum",
    "np.linalg.norm", "np.all", "np.any", "np.isscalar", "np.cross", "np.dot", "np.einsum", "np.isclose", "np.allclose", "np.abs", "np.sqrt",
    "np.where", "np.nonzero", "np.unique", "np.mean", "np.max", "np.min", "np.array_equal", "np.ndim", "np.shape",
    "R.from_quat", "R.identity", "R.from_rotvec", "R.from_matrix", "R.from_euler", "Rotation.from_quat",
    "len", "int", "float", "bool", "str", "repr", "isinstance", "issubclass", "hasattr", "callable", "type", "id", "range", "abs", "round", "all", "any",
    "sum", "ord", "chr", "hash", "divmod", "pow", "format", "signature", "log10", "print", "warnings.warn", "inspect.signature", "slice",
    # elementwise / reducing numpy functions (without `out=`, which is a site of its own) and scipy special functions
    "np.arctan2", "np.arctan", "np.arctanh", "np.arccos", "np.arcsin", "np.sign", "np.cos", "np.sin", "np.tan", "np.log", "np.exp", "np.power",
    "np.zeros_like", "np.ones_like", "np.empty_like", "np.full_like", "np.logical_or", "np.logical_and", "np.logical_not", "np.ptp", "np.isnan",
    "np.ceil", "np.floor", "np.matmul", "np.linalg.inv", "np.linalg.det", "np.fabs", "np.errstate", "np.maximum", "np.minimum", "np.hypot",
    "np.count_nonzero", "np.argmax", "np.argmin", "np.argsort", "np.sort", "np.invert", "np.isin", "np.in1d", "np.mod", "np.deg2rad", "np.rad2deg",
    "np.arcsinh", "np.arccosh", "np.sinh", "np.cosh", "np.tanh", "norm", "ellipk", "ellipe", "ellipkinc", "ellipeinc",
}
EXCEPTION_SUFFIXES = ("Error", "Exception", "Warning", "MagpylibBadUserInput", "MagpylibMissingInput", "MagpylibInternalError",
                      "MagpylibDeprecationWarning")  # constructing an exception object only formats / stores its arguments
FRESH_SHALLOW = {  # new container / new array; for object dtype and python containers the elements are shared
    "list", "tuple", "set", "frozenset", "dict", "sorted", "zip", "enumerate", "reversed", "map", "filter", "product",
    "np.tile", "np.repeat", "np.concatenate", "np.delete", "np.stack", "np.vstack", "np.hstack", "np.pad", "np.copy",
}
ALIAS = {  # may return the argument itself or a view of it
    "np.asarray", "np.asanyarray", "np.atleast_1d", "np.atleast_2d", "np.squeeze", "np.reshape", "np.expand_dims", "np.split", "np.ravel",
    "np.broadcast_to", "np.transpose", "np.swapaxes", "np.moveaxis", "getattr", "max", "min", "next", "iter", "vars",
}
OUT_FUNCS = {"np.copyto": 0, "np.put": 0, "np.place": 0, "np.putmask": 0, "np.fill_diagonal": 0, "np.put_along_axis": 0, "np.add.at": 0,
             "setattr": 0, "delattr": 0, "np.random.shuffle": 0, "random.shuffle": 0}
MUTATING_METHODS = {"append", "extend", "insert", "pop", "remove", "sort", "reverse", "update", "clear", "fill", "resize", "put", "setdefault",
                    "popitem", "add", "discard", "itemset", "setflags", "partition", "byteswap", "setfield", "__setitem__", "__setattr__",
                    "__delitem__", "__iadd__", "difference_update", "intersection_update", "symmetric_difference_update"}
STORING_METHODS = {"append", "extend", "insert", "update", "setdefault", "add", "__setitem__"}  # put their arguments into the receiver
FRESH_DEEP_METHODS = {  # result is new memory without references into the receiver
    "as_quat", "as_matrix", "as_rotvec", "as_euler", "apply", "inv", "sum", "mean", "std", "prod", "cumsum", "dot", "all", "any", "tolist",
    "astype", "flatten", "split", "join", "format", "lower", "upper", "strip", "startswith", "endswith", "count", "index", "replace", "rstrip",
    "lstrip", "isdigit", "group", "magnitude",
}
FRESH_SHALLOW_METHODS = {"copy", "items", "keys", "values"}  # new object (or read-only view) sharing the receiver's elements
ALIAS_METHODS = {"reshape", "squeeze", "get", "view", "ravel", "transpose", "swapaxes", "as_dict"}
KNOWN_EXTERNAL_METHODS = FRESH_DEEP_METHODS | FRESH_SHALLOW_METHODS | ALIAS_METHODS | MUTATING_METHODS

P, G, ARG = "P", "G", "Farg"


class Site:
    __slots__ = ("fn", "line", "kind", "target", "attr", "root", "region", "objs", "writes_arg")

    def __init__(self, fn, line, kind, target, attr, objs, region="other"):
        self.fn, self.line, self.kind, self.target, self.attr, self.region = fn, line, kind, target, attr, region
        self.objs = frozenset(objs)
        self.root = "global" if G in objs else "param" if P in objs else "fresh"
        self.writes_arg = ARG in objs or (ARG + "N") in objs

    def key(self):
        return (self.fn, self.line, self.kind, self.target)

    def __repr__(self):
        return f"{self.fn}:{self.line} {self.kind} `{self.target}` root={self.root} region={self.region}"


class ExtCall:
    __slots__ = ("fn", "line", "callee", "args_fresh")

    def __init__(self, fn, line, callee, args_fresh):
        self.fn, self.line, self.callee, self.args_fresh = fn, line, callee, args_fresh

    def __repr__(self):
        return f"{self.fn}:{self.line} call {self.callee} argsFresh={self.args_fresh}"


class Result:
    def __init__(self):
        self.functions = []  # qualified names, analysis order
        self.sites = []
        self.ext = []
        self.notes = []
        self.tiling = {}
        self.argmode = []
        self.consumers = []

    def flagged(self):
        """sites that are not fresh and not one of the two explicitly allowed families; external calls with non-fresh arguments
        are NOT included here (the Lean side decides them against its reviewed list)"""
        return [s for s in self.sites if s.root != "fresh" and not allowed(s)]


def allowed(s):
    """mirror of Model/WriteSet.lean `Site.allowed` (kept identical; `call_path_writes_only_fresh` is decided on the Lean side)"""
    if s.fn == "field_wrap_BH.getBH_level2" and s.kind == "attrAssign" and s.attr in ("_position", "_orientation") \
            and s.region in ("tiling", "restore") and s.root == "param":
        return True
    if s.fn == "class_BaseGeo.BaseGeo.style" and s.region == "lazyStyle" and s.root == "param":
        return True
    return False


# ----------------------------------------------------------------------------------------------------------------------------
# source access


class Sources:
    def __init__(self, root, overlay=None):
        self.root, self.overlay = root, overlay
        self.trees = {}
        self.funcs = {}    # qname -> (modkey, classname|None, FunctionDef)
        self.imports = {}  # modkey -> {local name: (modkey, name)} for names imported from analysed modules (any depth)
        self.classes = {}  # modkey -> {classname: ClassDef}
        self.props = {}    # property name -> [qname of getter]
        self.methods = {}  # method name -> [qname]
        self.ndim_props = set()
        self.field_funcs = []  # qnames of the core field functions bound as `_field_func = staticmethod(X)` in the object classes

    def read(self, rel):
        for base in (self.overlay, self.root):
            if base:
                p = os.path.join(base, rel)
                if os.path.exists(p):
                    return open(p).read()
        raise FileNotFoundError(rel)

    def load(self):
        rels = dict(MODULES)
        for sub in (OBJ_CLASS_DIR, FIELDS_DIR):
            for f in sorted(os.listdir(os.path.join(self.root, sub))):
                if f.endswith(".py") and f != "__init__.py":
                    rels.setdefault(f[:-3], sub + "/" + f)
        self.rels = rels
        by_file = {os.path.basename(v)[:-3]: k for k, v in rels.items()}
        for key, rel in rels.items():
            tree = ast.parse(self.read(rel))
            self.trees[key] = tree
            self.classes[key] = {}
            imp = {}
            for n in ast.walk(tree):
                if isinstance(n, ast.ImportFrom) and n.module and n.module.startswith("magpylib._src"):
                    mk = by_file.get(n.module.rsplit(".", 1)[-1])
                    if mk:
                        for a in n.names:
                            imp[a.asname or a.name] = (mk, a.name)
            self.imports[key] = imp
            for st in tree.body:
                if isinstance(st, ast.FunctionDef):
                    self.funcs[f"{key}.{st.name}"] = (key, None, st)
                elif isinstance(st, ast.ClassDef):
                    self.classes[key][st.name] = st
                    for m in st.body:
                        if isinstance(m, ast.FunctionDef):
                            decos = [ast.unparse(d) for d in m.decorator_list]
                            if any(d.endswith(".setter") or d.endswith(".deleter") for d in decos):
                                continue
                            q = f"{key}.{st.name}.{m.name}"
                            self.funcs[q] = (key, st.name, m)
                            if "property" in decos:
                                self.props.setdefault(m.name, []).append(q)
                            else:
                                self.methods.setdefault(m.name, []).append(q)
                        elif isinstance(m, ast.Assign) and any(isinstance(t, ast.Name) and t.id == "_field_func_kwargs_ndim" for t in m.targets) \
                                and isinstance(m.value, ast.Dict):
                            for k in m.value.keys:
                                if isinstance(k, ast.Constant) and isinstance(k.value, str):
                                    self.ndim_props.add(k.value)
                        elif isinstance(m, ast.Assign) and any(isinstance(t, ast.Name) and t.id == "_field_func" for t in m.targets) \
                                and isinstance(m.value, ast.Call) and getattr(m.value.func, "id", "") == "staticmethod" and m.value.args \
                                and isinstance(m.value.args[0], ast.Name):
                            self.field_funcs.append((key, m.value.args[0].id))
        ff = []
        for key, name in self.field_funcs:
            q = self.resolve_name(key, name)
            if q is None:
                raise KeyError(f"field function {name} bound in {key} not found in the source")
            ff.append(q)
        self.field_funcs = sorted(set(ff))

    def resolve_name(self, modkey, name):
        """plain-name callee -> qname of an analysed function, or None"""
        q = f"{modkey}.{name}"
        if q in self.funcs:
            return q
        tgt = self.imports[modkey].get(name)
        if tgt and f"{tgt[0]}.{tgt[1]}" in self.funcs:
            return f"{tgt[0]}.{tgt[1]}"
        return None


# ----------------------------------------------------------------------------------------------------------------------------
# abstract state


class State:
    """`containers` (shared by all copies) = allocation sites known to be python containers (list / tuple / dict / set / iterator):
    loading an element of such an object never yields the object itself, whereas a subscript / attribute of anything else may be a
    numpy view of it"""
    __slots__ = ("pts", "cont", "containers", "numeric")

    def __init__(self, pts=None, cont=None, containers=None, numeric=None):
        self.pts = pts or {}
        self.cont = cont or {}
        self.containers = containers if containers is not None else set()
        # allocation sites known to be numeric arrays / scalars / Rotation objects: storing into them copies numbers, they hold no references
        self.numeric = numeric if numeric is not None else set()

    def copy(self):
        return State({k: set(v) for k, v in self.pts.items()}, {k: set(v) for k, v in self.cont.items()}, self.containers, self.numeric)

    def join(self, other):
        ch = False
        for src, dst in ((other.pts, self.pts), (other.cont, self.cont)):
            for k, v in src.items():
                cur = dst.get(k)
                if cur is None:
                    dst[k] = set(v)
                    ch = True
                elif not v <= cur:
                    cur |= v
                    ch = True
        return ch

    def contents(self, objs):
        out = set()
        for o in objs:
            if o in (P, G):
                out.add(o)
            else:
                out |= self.cont.get(o, set())
        return out

    def deref(self, objs):
        return {o for o in objs if o not in self.containers} | self.contents(objs)

    def reach(self, objs):
        seen, todo = set(), list(objs)
        while todo:
            o = todo.pop()
            if o in seen:
                continue
            seen.add(o)
            if o not in (P, G):
                todo += list(self.cont.get(o, ()))
        return seen

    def store(self, objs, vals):
        """weak update: vals may now be contained in each of objs"""
        for o in objs:
            if o not in (P, G) and o not in self.numeric:
                self.cont.setdefault(o, set()).update(vals)


def dotted(node):
    if isinstance(node, ast.Name):
        return node.id
    if isinstance(node, ast.Attribute):
        b = dotted(node.value)
        return None if b is None else b + "." + node.attr
    return None


class FuncAnalysis:
    """one pass over one function with the current callee summaries"""

    def __init__(self, an, qname, non_numeric=None):
        self.an, self.q = an, qname
        self.argmode = qname in an.argmode
        self.modkey, self.cls, self.fn = an.src.funcs[qname]
        self.sites, self.ext = {}, {}
        self.containers = {"Fvararg", "Fkwarg"}
        self.numeric = set()
        self.non_numeric = non_numeric if non_numeric is not None else set()
        self.ret = set()          # abstract objects returned
        self.ret_state = self.new_state()  # joined state at returns (for contents of returned objects)
        self.locals = self._locals()
        self.globals_decl = {n for st in ast.walk(self.fn) if isinstance(st, (ast.Global, ast.Nonlocal)) for n in st.names}
        self.strings = {n.value for n in ast.walk(self.fn) if isinstance(n, ast.Constant) and isinstance(n.value, str)}
        self.region = "other"
        self.nested = {}
        self.exc_states = []      # stack of join targets for the enclosing try bodies

    # -- helpers
    def _locals(self):
        names = set()
        a = self.fn.args
        for x in a.posonlyargs + a.args + a.kwonlyargs:
            names.add(x.arg)
        if a.vararg:
            names.add(a.vararg.arg)
        if a.kwarg:
            names.add(a.kwarg.arg)
        for n in ast.walk(self.fn):
            if isinstance(n, ast.Name) and isinstance(n.ctx, (ast.Store, ast.Del)):
                names.add(n.id)
            elif isinstance(n, (ast.Import, ast.ImportFrom)):
                for al in n.names:
                    names.discard((al.asname or al.name).split(".")[0])  # imported names are module-lifetime objects
            elif isinstance(n, ast.ExceptHandler) and n.name:
                names.add(n.name)
        imported = {(al.asname or al.name).split(".")[0] for n in ast.walk(self.fn) if isinstance(n, (ast.Import, ast.ImportFrom)) for al in n.names}
        return names - imported

    def new_state(self):
        return State(containers=self.containers, numeric=self.numeric)

    def alloc(self, node, tag="", container=False, numeric=False):
        a = f"F{node.lineno}:{node.col_offset}{tag}"
        if container:
            self.containers.add(a)
        if numeric and a not in self.non_numeric:
            self.numeric.add(a)
        return a

    def not_numeric(self, a):
        if a in self.numeric:
            self.numeric.discard(a)
            self.non_numeric.add(a)
            self.rerun = True

    def site(self, node, kind, target_node, objs, attr="", text=None):
        s = Site(self.q, node.lineno, kind, text or ast.unparse(target_node).replace("\n", " ")[:80], attr, objs, self.region)
        old = self.sites.get(s.key())
        if old is not None:
            s = Site(self.q, s.line, kind, s.target, attr, set(objs) | old.objs, self.region)
        self.sites[s.key()] = s

    def extcall(self, node, callee, fresh):
        k = (node.lineno, node.col_offset, callee)
        self.ext[k] = ExtCall(self.q, node.lineno, callee, fresh and self.ext.get(k, ExtCall(0, 0, 0, True)).args_fresh)

    def initial(self):
        st = self.new_state()
        a = self.fn.args
        for x in a.posonlyargs + a.args + a.kwonlyargs:
            st.pts[x.arg] = {P}
            if self.argmode:
                # a core field function: the caller (getBH_level1, under the CONSUME obligation) hands over arrays nobody else holds;
                # what they CONTAIN (the elements of an object-dtype stack) are the source objects' own arrays
                st.pts[x.arg] = {ARG}
                st.cont[ARG] = {P}
                if x.arg in ARG_NUMERIC_PARAMS:
                    st.pts[x.arg] = {ARG + "N"}
                    self.numeric.add(ARG + "N")
        if a.vararg:  # a new tuple holding the caller's values
            st.pts[a.vararg.arg] = {"Fvararg"}
            st.cont["Fvararg"] = {P}
        if a.kwarg:  # a new dict holding the caller's values
            st.pts[a.kwarg.arg] = {"Fkwarg"}
            st.cont["Fkwarg"] = {P}
        return st

    def run(self):
        self.rerun = False
        self.block(self.fn.body, self.initial())
        if self.rerun:
            return FuncAnalysis(self.an, self.q, self.non_numeric).run()
        return self

    # -- expressions
    def ev(self, e, st):  # noqa: C901
        if e is None or isinstance(e, (ast.Constant, ast.JoinedStr, ast.Slice, ast.Compare)):
            if isinstance(e, (ast.JoinedStr, ast.Compare, ast.Slice)):
                for ch in ast.iter_child_nodes(e):
                    if isinstance(ch, ast.expr):
                        self.ev(ch, st)
            return set()
        if isinstance(e, ast.FormattedValue):
            self.ev(e.value, st)
            return set()
        if isinstance(e, ast.Name):
            if e.id in self.locals and e.id not in self.globals_decl:
                return set(st.pts.get(e.id, ()))
            if e.id in ("None", "True", "False"):
                return set()
            q = self.an.src.resolve_name(self.modkey, e.id)
            if q is not None:  # a function of the analysed modules used as a value (tables of case functions): analyse it too
                self.an.want(q)
            return {G}
        if isinstance(e, ast.Attribute):
            base = self.ev(e.value, st)
            if base & {P, G}:
                self.an.want_property(e.attr)
            return st.deref(base)
        if isinstance(e, ast.Subscript):
            base = self.ev(e.value, st)
            self.ev(e.slice, st)
            return st.deref(base)
        if isinstance(e, ast.Starred):
            return st.deref(self.ev(e.value, st))
        if isinstance(e, (ast.List, ast.Tuple, ast.Set)):
            a = self.alloc(e, container=True)
            vals = set()
            for x in e.elts:
                v = self.ev(x, st)
                vals |= v
            st.cont.setdefault(a, set()).update(vals)
            return {a}
        if isinstance(e, ast.Dict):
            a = self.alloc(e, container=True)
            vals = set()
            for k, v in zip(e.keys, e.values):
                if k is None:  # {**d}
                    vals |= st.contents(self.ev(v, st))
                else:
                    self.ev(k, st)
                    vals |= self.ev(v, st)
            st.cont.setdefault(a, set()).update(vals)
            return {a}
        if isinstance(e, (ast.ListComp, ast.SetComp, ast.GeneratorExp, ast.DictComp)):
            a = self.alloc(e, container=True)
            for _ in range(3):  # generators may depend on each other; the bodies are tiny
                for g in e.generators:
                    it = self.ev(g.iter, st)
                    self.bind(g.target, st.deref(it), st)
                    for c in g.ifs:
                        self.ev(c, st)
                if isinstance(e, ast.DictComp):
                    self.ev(e.key, st)
                    vals = self.ev(e.value, st)
                else:
                    vals = self.ev(e.elt, st)
                st.cont.setdefault(a, set()).update(vals)
            return {a}
        if isinstance(e, ast.BinOp):
            l, r = self.ev(e.left, st), self.ev(e.right, st)
            # arithmetic allocates; only `+` / `*` on python sequences (list + list, tuple * n) yields a container sharing the operands'
            # elements.  An operand of unknown type (P, G) may be such a sequence — except inside the core field functions, where the
            # pre-existing values are numpy arrays / scalars (elements of the stacks) and float constants.
            shared = self.shared_elems(e.op, l | r, st)
            if shared:
                a = self.alloc(e)
                st.cont.setdefault(a, set()).update(shared)
                return {a}
            return {self.alloc(e, numeric=True)}
        if isinstance(e, ast.UnaryOp):
            self.ev(e.operand, st)
            return {self.alloc(e, numeric=True)}
        if isinstance(e, ast.BoolOp):
            out = set()
            for v in e.values:
                out |= self.ev(v, st)
            return out
        if isinstance(e, ast.IfExp):
            self.ev(e.test, st)
            return self.ev(e.body, st) | self.ev(e.orelse, st)
        if isinstance(e, ast.NamedExpr):
            v = self.ev(e.value, st)
            self.bind(e.target, v, st, unpack=False)
            return v
        if isinstance(e, ast.Lambda):
            return {G}  # a closure: whatever it captures is not tracked
        if isinstance(e, (ast.Yield, ast.YieldFrom, ast.Await)):
            v = self.ev(e.value, st) if e.value is not None else set()
            self.ret |= st.deref(v) if isinstance(e, ast.YieldFrom) else v
            self.ret_state.join(st)
            return set()
        if isinstance(e, ast.Call):
            return self.call(e, st)
        self.an.res.notes.append(f"{self.q}:{getattr(e, 'lineno', 0)}: expression kind {type(e).__name__} treated as unknown alias")
        out = set()
        for ch in ast.iter_child_nodes(e):
            if isinstance(ch, ast.expr):
                out |= self.ev(ch, st)
        return st.reach(out) | {G}

    def call(self, e, st):  # noqa: C901
        name = dotted(e.func)
        args = [self.ev(a, st) for a in e.args]
        kws = {}
        star_kw = set()
        for k in e.keywords:
            v = self.ev(k.value, st)
            if k.arg is None:
                star_kw |= st.contents(v)  # **d hands over the VALUES of d
            else:
                kws[k.arg] = v
        allargs = set().union(star_kw, *args, *kws.values()) if (args or kws or star_kw) else set()
        a = self.alloc(e)

        # numpy functions writing into an argument
        if "out" in kws and kws["out"]:
            self.site(e, "outCall", e, kws["out"], text=f"{name or '?'}(out=…)")
        if name == "np.nan_to_num" and args and any(k.arg == "copy" for k in e.keywords):
            self.site(e, "outCall", e.args[0], args[0], text=f"np.nan_to_num({ast.unparse(e.args[0])[:50]}, copy=…)")
            return st.deref(args[0])
        if name in OUT_FUNCS and args:
            self.site(e, "outCall", e.args[0], args[OUT_FUNCS[name]], text=f"{name}({ast.unparse(e.args[0])[:50]}, …)",
                      attr=(e.args[1].value if name in ("setattr", "delattr") and len(e.args) > 1 and isinstance(e.args[1], ast.Constant) else ""))
            if name == "setattr" and len(args) > 2:
                st.store(args[0], args[2])
            return set()

        # method calls ----------------------------------------------------------------------------------------------
        if isinstance(e.func, ast.Attribute) and not (name and (name in FRESH_DEEP or name in FRESH_SHALLOW or name in ALIAS
                                                                    or name.split(".")[0] in ("np", "R", "Rotation", "warnings", "inspect", "numbers", "_src", "pd"))):
            recv = self.ev(e.func.value, st)
            m = e.func.attr
            if m in MUTATING_METHODS:
                self.site(e, "methodCall", e.func.value, recv, attr=m, text=f"{ast.unparse(e.func.value)[:60]}.{m}(…)")
                if m in STORING_METHODS:
                    vals = set()
                    for v in list(args) + list(kws.values()):
                        vals |= st.deref(v) if m in ("extend", "update") else v
                    st.store(recv, vals | star_kw)
                return st.deref(recv) if m in ("pop", "setdefault", "popitem") else set()
            targets = [q for q in self.an.src.methods.get(m, []) if m not in KNOWN_EXTERNAL_METHODS]
            is_self = isinstance(e.func.value, ast.Name) and e.func.value.id in ("self", "cls") or ast.unparse(e.func.value).startswith("super()")
            if targets and (recv & {P, G} or is_self or not recv):
                out = set()
                for q in targets:
                    out |= self.an.apply_summary(q, [recv] + args, kws, star_kw, st, a, e, self)
                return out
            if m in FRESH_DEEP_METHODS:
                return {self.alloc(e, numeric=True)}
            if m in FRESH_SHALLOW_METHODS:
                if recv and all(o in self.containers for o in recv):
                    self.containers.add(a)
                st.cont.setdefault(a, set()).update(st.contents(recv))
                return {a}
            if m in ALIAS_METHODS:
                return st.deref(recv) | st.deref(allargs)
            # unknown method of an unknown object
            everything = st.reach(recv | allargs)
            self.extcall(e, "method:" + m, not (everything & {P, G}))
            st.cont.setdefault(a, set()).update(everything - {a})
            return {a} | st.deref(recv)

        # plain / dotted names ---------------------------------------------------------------------------------------
        if name is not None:
            if name in ("np.asarray", "np.asanyarray") and args and args[0] and all(o in self.containers for o in args[0]):
                # converting a python list / tuple always builds a new array; with an object dtype it holds the list's elements
                dtype_kw = next((k.value for k in e.keywords if k.arg == "dtype"), None)
                if dtype_kw is not None and ast.unparse(dtype_kw) in ("'object'", "object", "np.object_", '"object"'):
                    st.cont.setdefault(a, set()).update(st.contents(args[0]))
                    return {a}
                return {self.alloc(e, numeric=True)}
            if name == "np.array":
                copy_kw = next((k.value for k in e.keywords if k.arg == "copy"), None)
                dtype_kw = next((k.value for k in e.keywords if k.arg == "dtype"), None)
                if copy_kw is not None and not (isinstance(copy_kw, ast.Constant) and copy_kw.value is True):
                    return st.deref(allargs) | {a}
                if dtype_kw is not None and ast.unparse(dtype_kw) in ("'object'", "object", "np.object_", '"object"'):
                    st.cont.setdefault(a, set()).update(st.contents(allargs))
                    return {a}
                return {self.alloc(e, numeric=True)}
            if name in FRESH_DEEP or name.split(".")[-1].endswith(EXCEPTION_SUFFIXES):
                return {self.alloc(e, numeric=True)}
            if name in FRESH_SHALLOW:
                if name.startswith("np."):  # np.tile(A, reps), np.repeat(a, n), np.concatenate(seq), np.delete(arr, idx) …: only the first argument's elements
                    first = args[0] if args else set()
                    inner = st.contents(first)
                    if name in ("np.concatenate", "np.stack", "np.vstack", "np.hstack"):  # a sequence of arrays: the arrays' elements
                        inner = st.contents(st.deref(first))
                    if inner:
                        self.not_numeric(a)
                        st.cont.setdefault(a, set()).update(inner)
                    else:
                        self.alloc(e, numeric=True)
                else:
                    self.containers.add(a)
                    st.cont.setdefault(a, set()).update(st.contents(allargs))
                return {a}
            if name in ALIAS:
                if name in ("getattr", "hasattr") or name == "getattr":
                    self._dynamic_attr(e)
                return st.deref(allargs)
            if isinstance(e.func, ast.Name):
                if name == "hasattr":
                    self._dynamic_attr(e)
                if name in self.nested:  # a local helper defined above
                    return set(self.nested[name]) | st.deref(allargs)
                if name in self.locals:  # calling a parameter / local value (e.g. field_func): unknown code
                    everything = st.reach(allargs)
                    self.extcall(e, "value:" + name, not (everything & {P, G}))
                    st.cont.setdefault(a, set()).update(everything - {a})
                    return {a} | st.deref(allargs)
                q = self.an.src.resolve_name(self.modkey, name)
                if q is not None:
                    return self.an.apply_summary(q, args, kws, star_kw, st, a, e, self)
            # external: class constructors, numpy functions not listed, …
            everything = st.reach(allargs)
            self.extcall(e, name, not (everything & {P, G}))
            st.cont.setdefault(a, set()).update(everything - {a})
            return {a} | (st.deref(allargs) if not name[:1].isupper() and not name.split(".")[-1][:1].isupper() else set())
        # call of a computed callee: f(x)(y), d[k](…)
        fv = self.ev(e.func, st)
        everything = st.reach(allargs | fv)
        self.extcall(e, "computed:" + ast.unparse(e.func)[:40], not (everything & {P, G}))
        st.cont.setdefault(a, set()).update(everything - {a})
        return {a} | st.deref(allargs)

    def shared_elems(self, op, objs, st):
        """elements a `+` / `*` (or `+=`) result shares with its operands: only python sequences share (see BinOp)"""
        shared = set()
        if isinstance(op, (ast.Add, ast.Mult)):
            for o in objs:
                if o in self.containers or (o in (P, G) and not self.argmode):
                    shared |= st.contents({o})
        return shared

    def _dynamic_attr(self, e):
        """getattr/hasattr(x, name): the getter of every property the name may be"""
        if len(e.args) >= 2 and isinstance(e.args[1], ast.Constant) and isinstance(e.args[1].value, str):
            self.an.want_property(e.args[1].value)
            return
        cands = [s for s in self.strings if s in self.an.src.props]
        if not cands:
            cands = [s for s in self.an.src.ndim_props if s in self.an.src.props]
        for s in cands:
            self.an.want_property(s)

    # -- binding / statements
    def bind(self, target, vals, st, unpack=True):
        if isinstance(target, ast.Name):
            st.pts[target.id] = set(vals)
            if target.id in self.globals_decl:
                self.site(target, "globalAssign", target, {G})
        elif isinstance(target, (ast.Tuple, ast.List)):
            for t in target.elts:
                self.bind(t.value if isinstance(t, ast.Starred) else t, st.deref(vals), st)
        elif isinstance(target, ast.Attribute):
            base = self.ev(target.value, st)
            self.site(target, "attrAssign", target, base, attr=target.attr)
            st.store(base, vals)
        elif isinstance(target, ast.Subscript):
            base = self.ev(target.value, st)
            self.ev(target.slice, st)
            self.site(target, "subscriptAssign", target, base)
            st.store(base, vals)
        elif isinstance(target, ast.Starred):
            self.bind(target.value, vals, st)

    def block(self, stmts, st):
        """returns the state after the block, or None if control cannot fall through"""
        for s in stmts:
            if st is None:
                return None
            st = self.stmt(s, st)
        return st

    def note_exc(self, st):
        for tgt in self.exc_states:
            tgt.join(st)

    def stmt(self, s, st):  # noqa: C901
        self.note_exc(st)
        if isinstance(s, ast.Expr):
            self.ev(s.value, st)
        elif isinstance(s, ast.Assign):
            v = self.ev(s.value, st)
            for t in s.targets:
                if isinstance(t, (ast.Tuple, ast.List)) and isinstance(s.value, (ast.Tuple, ast.List)) and len(t.elts) == len(s.value.elts) \
                        and not any(isinstance(x, ast.Starred) for x in t.elts + s.value.elts):
                    vs = [self.ev(x, st) for x in s.value.elts]  # a, b = x, y : element-wise
                    for tt, vv in zip(t.elts, vs):
                        self.bind(tt, vv, st)
                else:
                    self.bind(t, v, st)
        elif isinstance(s, ast.AnnAssign):
            if s.value is not None:
                self.bind(s.target, self.ev(s.value, st), st)
        elif isinstance(s, ast.AugAssign):
            v = self.ev(s.value, st)
            t = s.target
            if isinstance(t, ast.Name):
                cur = self.ev(ast.Name(id=t.id, ctx=ast.Load(), lineno=t.lineno, col_offset=t.col_offset), st)
                self.site(s, "augAssign", t, cur)
                sh = self.shared_elems(s.op, v, st)
                st.store(cur, sh)
                if t.id in self.locals:
                    # immutable left operand (number, str, tuple): a new value
                    inner = st.contents(cur) | sh
                    new = self.alloc(s, "aug", numeric=not inner)
                    if inner:
                        self.not_numeric(new)
                        st.cont.setdefault(new, set()).update(inner)
                    st.pts[t.id] = set(cur) | {new}
            elif isinstance(t, ast.Attribute):
                base = self.ev(t.value, st)
                self.site(s, "attrAssign", t, base, attr=t.attr)
                self.site(s, "augAssign", t, st.deref(base))
                st.store(base, self.shared_elems(s.op, v, st))
            elif isinstance(t, ast.Subscript):
                base = self.ev(t.value, st)
                self.ev(t.slice, st)
                self.site(s, "subscriptAssign", t, base)
                self.site(s, "augAssign", t, st.deref(base))
                st.store(base, self.shared_elems(s.op, v, st))
        elif isinstance(s, ast.Delete):
            for t in s.targets:
                if isinstance(t, ast.Attribute):
                    self.site(s, "del", t, self.ev(t.value, st), attr=t.attr)
                elif isinstance(t, ast.Subscript):
                    self.site(s, "del", t, self.ev(t.value, st))
        elif isinstance(s, ast.Return):
            if s.value is not None:
                self.ret |= self.ev(s.value, st)
            self.ret_state.join(st)
            return None
        elif isinstance(s, ast.Raise):
            if s.exc is not None:
                self.ev(s.exc, st)
            if s.cause is not None:
                self.ev(s.cause, st)
            self.note_exc(st)
            return None
        elif isinstance(s, ast.If):
            self.ev(s.test, st)
            a = self.block(s.body, st.copy())
            b = self.block(s.orelse, st.copy())
            if a is None:
                return b
            if b is not None:
                a.join(b)
            return a
        elif isinstance(s, (ast.For, ast.AsyncFor)):
            return self.loop(s, st)
        elif isinstance(s, ast.While):
            cur = st.copy()
            for _ in range(50):
                self.ev(s.test, cur)
                out = self.block(s.body, cur.copy())
                if out is None or not cur.join(out):
                    break
            if s.orelse:
                cur = self.block(s.orelse, cur) or cur
            return cur
        elif isinstance(s, ast.Try):
            return self.try_(s, st)
        elif isinstance(s, (ast.With, ast.AsyncWith)):
            for it in s.items:
                v = self.ev(it.context_expr, st)
                if it.optional_vars is not None:
                    self.bind(it.optional_vars, st.deref(v), st)
            return self.block(s.body, st)
        elif isinstance(s, (ast.Import, ast.ImportFrom, ast.Pass, ast.Global, ast.Nonlocal, ast.Break, ast.Continue, ast.Assert)):
            if isinstance(s, ast.Assert):
                self.ev(s.test, st)
        elif isinstance(s, ast.FunctionDef) and not s.decorator_list:
            # a local helper: its body is analysed here, in the state of the definition (its free variables are the enclosing
            # locals), with its own parameters as unknown pre-existing values; its sites count as sites of the enclosing function
            inner = st.copy()
            for x in s.args.posonlyargs + s.args.args + s.args.kwonlyargs:
                inner.pts[x.arg] = {ARG} if self.argmode else {P}
                if self.argmode:
                    inner.cont[ARG] = {P}
            if s.args.vararg or s.args.kwarg:
                self.an.res.notes.append(f"{self.q}:{s.lineno}: nested function `{s.name}` with *args/**kwargs not analysed")
            saved = (self.ret, self.ret_state)
            self.ret, self.ret_state = set(), self.new_state()
            self.block(s.body, inner)
            self.nested[s.name] = set(self.ret) | self.ret_state.reach(self.ret)
            st.cont.update({k: set(v) for k, v in self.ret_state.cont.items() if k not in st.cont})
            self.ret, self.ret_state = saved
            st.pts[s.name] = set()
        elif isinstance(s, (ast.FunctionDef, ast.ClassDef)):
            self.an.res.notes.append(f"{self.q}:{s.lineno}: nested {type(s).__name__} `{s.name}` not analysed")
            st.pts[s.name] = {G}
        else:
            self.an.res.notes.append(f"{self.q}:{s.lineno}: statement kind {type(s).__name__} ignored")
        return st

    def loop(self, s, st):
        it = self.ev(s.iter, st)
        cur = st.copy()
        body_end = None
        for _ in range(50):
            inner = cur.copy()
            self.bind(s.target, inner.deref(self.ev(s.iter, inner)), inner)
            out = self.block(s.body, inner)
            if out is None:
                break
            body_end = out.copy() if body_end is None else (body_end.join(out), body_end)[1]
            if not cur.join(out):
                break
        # the rewrite-every-value refinement (see module docstring)
        rw = self._rewrite_loop(s, st, it)
        if rw is not None and body_end is not None:
            dobj, xname = rw
            cur.cont[dobj] = set(body_end.pts.get(xname, ()))
        if s.orelse:
            cur = self.block(s.orelse, cur) or cur
        return cur

    def _rewrite_loop(self, s, st, it):
        if not (isinstance(s.iter, ast.Call) and isinstance(s.iter.func, ast.Attribute) and s.iter.func.attr == "items"
                and isinstance(s.iter.func.value, ast.Name) and not s.iter.args):
            return None
        d = s.iter.func.value.id
        dobjs = st.pts.get(d, set())
        if len(dobjs) != 1 or (next(iter(dobjs)) in (P, G)):
            return None
        if not (isinstance(s.target, ast.Tuple) and len(s.target.elts) == 2 and all(isinstance(x, ast.Name) for x in s.target.elts)):
            return None
        k = s.target.elts[0].id
        last = s.body[-1]
        if not (isinstance(last, ast.Assign) and len(last.targets) == 1 and isinstance(last.targets[0], ast.Subscript)
                and isinstance(last.targets[0].value, ast.Name) and last.targets[0].value.id == d
                and isinstance(last.targets[0].slice, ast.Name) and last.targets[0].slice.id == k and isinstance(last.value, ast.Name)):
            return None
        for n in ast.walk(ast.Module(body=s.body, type_ignores=[])):
            if isinstance(n, (ast.Break, ast.Continue, ast.Return)):
                return None
            if isinstance(n, ast.Name) and isinstance(n.ctx, ast.Store) and n.id in (k, d):
                return None
        dobj = next(iter(dobjs))
        # the dict must have been allocated outside this loop (one concrete object): parameters' **kwargs or an earlier literal
        return dobj, last.value.id

    def try_(self, s, st):
        exc = self.new_state()
        self.exc_states.append(exc)
        saved_region = self.region
        body = self.block(s.body, st.copy())
        if body is not None:
            self.note_exc(body)
        self.exc_states.pop()
        exc.join(st)
        outs = []
        if body is not None:
            if s.orelse:
                body = self.block(s.orelse, body)
            if body is not None:
                outs.append(body)
        for h in s.handlers:
            hs = exc.copy()
            if h.name:
                hs.pts[h.name] = {self.alloc(h)}
            o = self.block(h.body, hs)
            if o is not None:
                outs.append(o)
        if s.finalbody:
            # the finally block runs from every exit, normal or exceptional
            fin_in = exc.copy()
            for o in outs:
                fin_in.join(o)
            if self.q == "field_wrap_BH.getBH_level2":
                self.region = "restore"
            fin_out = self.block(s.finalbody, fin_in)
            self.region = saved_region
            if not outs or fin_out is None:
                return None
            res = outs[0]
            for o in outs[1:]:
                res.join(o)
            # effects of the finally block on the normal exits
            if self.q == "field_wrap_BH.getBH_level2":
                self.region = "restore"
            self.block(s.finalbody, res)
            self.region = saved_region
            return res
        if not outs:
            return None
        res = outs[0]
        for o in outs[1:]:
            res.join(o)
        return res


class Analysis:
    def __init__(self, root, overlay=None, with_field_funcs=True):
        self.src = Sources(root, overlay)
        self.src.load()
        self.with_field_funcs = with_field_funcs
        self.res = Result()
        # qname -> (level-0 kinds, level-1 kinds, deeper kinds, level-0 objects are all python containers); kinds ⊆ {"P", "G", "F"}
        self.summaries = {}
        self.work = []
        self.argmode = set()     # core field functions and what only they call: parameters are caller-owned arrays (see FuncAnalysis.initial)
        self.consumer = set()    # argmode functions that write into (or hand on to a writer) one of their parameters
        self.wanted_props = set()
        self.changed = False
        self.phase_arg = False

    def want(self, q):
        if q not in self.work:
            self.work.append(q)
            if self.phase_arg:
                self.argmode.add(q)
            self.changed = True

    def want_property(self, name):
        if name in self.src.props and name not in self.wanted_props:
            self.wanted_props.add(name)
            for q in self.src.props[name]:
                self.want(q)

    def apply_summary(self, q, args, kws, star_kw, st, a, node, fa):
        self.want(q)
        allargs = set().union(star_kw, *args, *kws.values()) if (args or kws or star_kw) else set()
        if q in CONSUMERS or q in self.consumer:
            top = set(star_kw)
            for k, v in kws.items():
                if q not in CONSUMERS or k not in CONSUME_EXEMPT:
                    top |= v
            for v in args:
                top |= v
            what = "forwards its arguments to the field function" if q in CONSUMERS else "writes into an argument"
            fa.site(node, "consume", node, top, text=f"{q.split('.')[-1]}(…) {what}")
            if q in CONSUMERS:
                fa.site(node, "consumeDeep", node, st.reach(top) - top, text=f"{q.split('.')[-1]}(…) what the forwarded arrays contain")
        l0, l1, deep, cont0 = self.summaries.get(q, (frozenset(), frozenset(), frozenset(), False))
        out = set()
        if "P" in l0:
            out |= st.reach(allargs)
        if "G" in l0:
            out.add(G)
        if "F" in l0:
            out.add(a)
            if cont0 and not ({"P", "G"} & l0):
                fa.containers.add(a)
            a1 = a + "#1"
            c0 = st.cont.setdefault(a, set())
            if "F" in l1:
                c0.add(a1)
            if "P" in l1:
                c0 |= st.reach(allargs) - {a}
            if "G" in l1:
                c0.add(G)
            if "F" in l1:
                c1 = st.cont.setdefault(a1, set())
                if "F" in deep:
                    c1.add(a1)
                if "P" in deep:
                    c1 |= st.reach(allargs) - {a}
                if "G" in deep:
                    c1.add(G)
        return out

    @staticmethod
    def _kinds(objs):
        return frozenset(("G" if o == G else "P" if o in (P, ARG, ARG + "N") else "F") for o in objs)

    def _fixpoint(self, results):
        for _ in range(40):
            self.changed = False
            self.res.notes = []
            for q in list(self.work):
                fa = FuncAnalysis(self, q).run()
                results[q] = fa
                rs = fa.ret_state
                l0 = set(fa.ret)
                l1 = rs.contents(l0)
                deep = rs.reach(rs.contents(l1))
                new = (self._kinds(l0), self._kinds(l1), self._kinds(deep), bool(l0) and all(o in fa.containers for o in l0))
                old = self.summaries.get(q)
                if old is not None:
                    new = (new[0] | old[0], new[1] | old[1], new[2] | old[2], new[3] and old[3])
                if new != old:
                    self.summaries[q] = new
                    self.changed = True
                if q in self.argmode and q not in self.consumer and any(s.writes_arg for s in fa.sites.values()):
                    self.consumer.add(q)
                    self.changed = True
            if not self.changed:
                return
        raise RuntimeError("write-set analysis did not reach a fixpoint")

    def run(self):
        for mk, cls, f in ROOTS:
            q = f"{mk}.{cls}.{f}" if cls else f"{mk}.{f}"
            if q not in self.src.funcs:
                raise KeyError(f"root function {q} not found in the source")
            self.want(q)
        for name in IMPLICIT_DUNDERS:
            for q in self.src.methods.get(name, []):
                if q.split(".")[0] in MODULES:
                    self.want(q)
        results = {}
        self._fixpoint(results)
        # second phase: the core field functions (parameters = caller-owned arrays holding pre-existing elements)
        if self.with_field_funcs:
            self.phase_arg = True
            for q in self.src.field_funcs:
                self.want(q)
            self._fixpoint(results)
        # discovery order depends on set iteration (hash seed): emit in sorted order so that Gen/WriteSet.lean is reproducible (AUDIT2 §6 item 4)
        self.work = sorted(self.work)
        self.res.functions = list(self.work)
        self.res.argmode = sorted(self.argmode)
        self.res.consumers = sorted(self.consumer)
        for q in self.work:
            fa = results[q]
            self.res.sites += sorted(fa.sites.values(), key=lambda s: (s.line, s.kind, s.target))
            self.res.ext += sorted(fa.ext.values(), key=lambda c: (c.line, c.callee))
        self._regions()
        self.res.notes = sorted(set(self.res.notes))
        return self.res

    def _regions(self):
        """mark the two allow-listed families:
        * getBH_level2: the statement that tiles the paths = the LAST top-level statement before the try whose finally restores
          them (the same reading as gen_Exits); the finally block is marked `restore` during the walk
        * BaseGeo.style getter: lazy materialisation of the private style slots"""
        q = "field_wrap_BH.getBH_level2"
        if q in self.src.funcs:
            fn = self.src.funcs[q][2]
            body = fn.body

            def assigns_path(node):
                return any(isinstance(n, ast.Assign) and any(isinstance(t, ast.Attribute) and t.attr in ("_position", "_orientation") for t in n.targets)
                           for n in ast.walk(node))

            tile_stmt = next((stt for stt in body if not isinstance(stt, ast.Try) and assigns_path(stt)), None)
            try_stmt = next((stt for stt in body if isinstance(stt, ast.Try) and stt.finalbody and any(assigns_path(x) for x in stt.finalbody)), None)
            info = {"tiledIter": "", "restoredIter": "", "iterAssignedOnce": False, "tilingDirectlyBeforeTry": False}
            if tile_stmt is not None:
                lo, hi = tile_stmt.lineno, tile_stmt.end_lineno
                for s in self.res.sites:
                    if s.fn == q and lo <= s.line <= hi and s.region == "other":
                        s.region = "tiling"

                def first_iter(node):
                    for n in ast.walk(node):
                        if isinstance(n, ast.For) and assigns_path(n):
                            it = n.iter
                            if isinstance(it, ast.Call) and getattr(it.func, "id", "") == "zip" and it.args and isinstance(it.args[0], ast.Name) \
                                    and isinstance(n.target, ast.Tuple) and isinstance(n.target.elts[0], ast.Name):
                                # the object written must be the first loop variable
                                objs = {t.value.id for a in ast.walk(n) if isinstance(a, ast.Assign) for t in a.targets
                                        if isinstance(t, ast.Attribute) and t.attr in ("_position", "_orientation") and isinstance(t.value, ast.Name)}
                                if objs == {n.target.elts[0].id}:
                                    return it.args[0].id
                    return ""
                info["tiledIter"] = first_iter(tile_stmt)
                if try_stmt is not None:
                    info["restoredIter"] = next((x for x in (first_iter(f) for f in try_stmt.finalbody) if x), "")
                    info["tilingDirectlyBeforeTry"] = body.index(try_stmt) == body.index(tile_stmt) + 1
                name = info["tiledIter"]
                if name:
                    stores = [n for n in ast.walk(fn) if isinstance(n, ast.Name) and n.id == name and isinstance(n.ctx, ast.Store)]
                    muts = [s for s in self.res.sites if s.fn == q and (s.target == name or s.target.startswith(name + ".") or s.target.startswith(name + "["))]
                    info["iterAssignedOnce"] = len(stores) == 1 and not muts
            self.res.tiling = info
        g = "class_BaseGeo.BaseGeo.style"
        for s in self.res.sites:
            if s.fn == g and (s.target.startswith("self._style") ):
                s.region = "lazyStyle"


def analyse(root=None, overlay=None, with_field_funcs=True):
    root = root or os.environ.get("VERIF_REPO", "/repo")
    overlay = overlay if overlay is not None else os.environ.get("VERIF_WRITESET_OVERLAY") or None
    return Analysis(root, overlay, with_field_funcs).run()


# ----------------------------------------------------------------------------------------------------------------------------
# self-test: seeded impurities the analysis must flag (applied to a scratch COPY of one source file, never to the repo)

VARIANTS = [
    # (name, file, anchor text, replacement, function that must get a flagged site, kinds of which at least one must be flagged)
    ("own-list-extended-in-place", "magpylib/_src/obj_classes/class_Collection.py",
     '        current_sensors = format_obj_input(self, allow="sensors")\n',
     '        current_sensors = format_obj_input(self, allow="sensors")\n'
     '        todo = self.collections\n'
     '        for coll in todo:\n'
     '            todo += coll.collections\n',
     "class_Collection.BaseCollection._validate_getBH_inputs", ("augAssign",)),
    ("asarray-then-in-place-op", "magpylib/_src/fields/field_wrap_BH.py",
     '                ragged_seq[key] = False\n                val = np.array(val, dtype=float)\n',
     '                ragged_seq[key] = False\n                val = np.asarray(val, dtype=float)\n                val *= 1.0\n',
     "field_wrap_BH.getBH_dict_level2", ("augAssign",)),
    ("asarray-handed-to-field-function", "magpylib/_src/fields/field_wrap_BH.py",
     '                ragged_seq[key] = False\n                val = np.array(val, dtype=float)\n',
     '                ragged_seq[key] = False\n                val = np.asarray(val, dtype=float)\n',
     "field_wrap_BH.getBH_dict_level2", ("consume",)),
    ("cache-attribute-on-object", "magpylib/_src/fields/field_wrap_BH.py",
     '    max_path_len = max(path_lengths)\n',
     '    max_path_len = max(path_lengths)\n    for obj in obj_list:\n        obj._cache = max_path_len\n',
     "field_wrap_BH.getBH_level2", ("attrAssign",)),
    ("position-array-resized", "magpylib/_src/fields/field_wrap_BH.py",
     '    check_excitations(src_list)\n',
     '    check_excitations(src_list)\n    for src in src_list:\n        src._position.resize((len(src._position), 3), refcheck=False)\n',
     "field_wrap_BH.getBH_level2", ("methodCall",)),
    ("single-source-stack-is-a-view", "magpylib/_src/fields/field_wrap_BH.py",
     '        out = np.array(out)\n    return np.repeat(out, n_pp, axis=0)\n',
     '        out = np.array(out)\n    if n_pp == 1:\n        return np.asarray(getattr(group[0], prop_name))[np.newaxis]\n    return np.repeat(out, n_pp, axis=0)\n',
     "field_wrap_BH.getBH_level2", ("consume",)),
    ("restore-moved-out-of-finally-region", "magpylib/_src/fields/field_wrap_BH.py",
     '    # sumup over sources\n    if sumup:\n',
     '    for obj in reset_obj:\n        obj._position = obj._position[:1]\n    # sumup over sources\n    if sumup:\n',
     "field_wrap_BH.getBH_level2", ("attrAssign",)),
]


def selftest(root=None):
    """copy file -> patch text -> analyse the copy -> expect a flagged site.  Returns one record per variant:
    {"variant", "status": "flagged" | "MISSED" | "anchor-missing", "sites": [...]}; also checks that a scratch copy WITHOUT a patch
    gives no flagged site (the overlay mechanism itself does not create findings)."""
    import shutil
    import tempfile

    root = root or os.environ.get("VERIF_REPO", "/repo")
    out = []
    base = tempfile.mkdtemp(prefix="c08_writeset_", dir="/tmp")
    try:
        def run(name, rel, text):
            d = os.path.join(base, name)
            os.makedirs(os.path.join(d, os.path.dirname(rel)), exist_ok=True)
            with open(os.path.join(d, rel), "w") as f:
                f.write(text)
            return analyse(root, overlay=d, with_field_funcs=False)  # the variants sit above the core field functions

        rel0 = VARIANTS[0][1]
        res = run("unpatched", rel0, open(os.path.join(root, rel0)).read())
        out.append({"variant": "unpatched-copy", "status": "clean" if not res.flagged() else "FLAGGED-WITHOUT-PATCH",
                    "sites": [repr(s) for s in res.flagged() if s.kind != "consumeDeep"][:5]})
        if [s for s in res.flagged() if s.kind != "consumeDeep"]:
            out[-1]["status"] = "FLAGGED-WITHOUT-PATCH"
        else:
            out[-1]["status"] = "clean"
        for name, rel, anchor, repl, fn, kinds in VARIANTS:
            src = open(os.path.join(root, rel)).read()
            if src.count(anchor) != 1:
                out.append({"variant": name, "status": "anchor-missing", "sites": []})
                continue
            res = run(name, rel, src.replace(anchor, repl))
            hits = [s for s in res.flagged() if s.fn == fn and s.kind in kinds]
            out.append({"variant": name, "status": "flagged" if hits else "MISSED", "sites": [repr(s) for s in hits][:4]})
    finally:
        shutil.rmtree(base, ignore_errors=True)
    return out


def main():
    root = overlay = None
    if "--selftest" in sys.argv:
        bad = 0
        for r in selftest():
            print("SELFTEST", r)
            bad += r["status"] not in ("flagged", "clean")
        sys.exit(1 if bad else 0)
    if "--root" in sys.argv:
        root = sys.argv[sys.argv.index("--root") + 1]
    if "--overlay" in sys.argv:
        overlay = sys.argv[sys.argv.index("--overlay") + 1]
    res = analyse(root, overlay)
    print(f"{len(res.functions)} functions, {len(res.sites)} sites, {len(res.ext)} external calls")
    for f in res.functions:
        print("FUNC", f)
    for s in res.sites:
        print("SITE", s, "ALLOWED" if allowed(s) else "", "" if s.root == "fresh" or allowed(s) else "<<< FLAGGED", sorted(s.objs) if s.root != "fresh" else "")
    for c in res.ext:
        print("EXT ", c)
    for n in res.notes:
        print("NOTE", n)
    print("TILING", res.tiling)


if __name__ == "__main__":
    main()
