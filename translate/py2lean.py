"""Tiny Python-subset -> Lean 4 translator (AST based).

Handles exactly what the integer/boolean helper functions of magpylib need:
  * parameters annotated bool / int (one parameter may be declared "auto-or-int": Option Int)
  * integer expressions  + - * unary-  names, integer literals
  * comparisons < <= > >= == != between integer expressions, `and`, `or`, `not`
  * statements: assignment to a simple name, if / else (no elif needed but supported), return
  * the idiom   if x == "auto": <assign x on every path>      (x : Option Int  ->  x : Int)
  * returns of nested tuples; the empty list literal `[]` is translated to `none` and a tuple
    in the same position to `some (..)` when the function is declared with `opt_first_return`.
Anything else raises Refusal: a refusal is a broken proof obligation, never a silent skip.
"""
import ast
import inspect
import textwrap


class Refusal(Exception):
    pass


BINOPS = {ast.Add: "+", ast.Sub: "-", ast.Mult: "*"}
CMPOPS = {ast.Lt: "<", ast.LtE: "≤", ast.Gt: ">", ast.GtE: "≥", ast.Eq: "==", ast.NotEq: "!="}


class Tr:
    def __init__(self, auto_params=(), opt_first_return=False):
        self.auto_params = set(auto_params)
        self.opt_first_return = opt_first_return
        self.types = {}

    # ---------- expressions
    def expr(self, e):
        if isinstance(e, ast.Constant):
            if isinstance(e.value, bool):
                return "true" if e.value else "false"
            if isinstance(e.value, int):
                return f"({e.value} : Int)"
            raise Refusal(f"constant {e.value!r}")
        if isinstance(e, ast.Name):
            return e.id
        if isinstance(e, ast.BinOp) and type(e.op) in BINOPS:
            return f"({self.expr(e.left)} {BINOPS[type(e.op)]} {self.expr(e.right)})"
        if isinstance(e, ast.UnaryOp) and isinstance(e.op, ast.USub):
            return f"(-{self.expr(e.operand)})"
        if isinstance(e, ast.UnaryOp) and isinstance(e.op, ast.Not):
            return f"(!{self.expr(e.operand)})"
        if isinstance(e, ast.Compare) and len(e.ops) == 1 and type(e.ops[0]) in CMPOPS:
            return f"(decide ({self.expr(e.left)} {self._cmp(e.ops[0])} {self.expr(e.comparators[0])}))"
        if isinstance(e, ast.BoolOp):
            op = " && " if isinstance(e.op, ast.And) else " || "
            return "(" + op.join(self.expr(v) for v in e.values) + ")"
        if isinstance(e, ast.Tuple):
            return "(" + ", ".join(self.expr(v) for v in e.elts) + ")"
        raise Refusal(f"expression {ast.dump(e)}")

    def _cmp(self, op):
        return {"==": "=", "!=": "≠"}.get(CMPOPS[type(op)], CMPOPS[type(op)])

    def ret(self, e):
        """return expression; first component optionally Option-wrapped"""
        if self.opt_first_return:
            if not (isinstance(e, ast.Tuple) and len(e.elts) == 2):
                raise Refusal("return shape")
            first, second = e.elts
            if isinstance(first, ast.List) and not first.elts:
                f = "none"
            elif isinstance(first, ast.Tuple):
                f = f"some {self.expr(first)}"
            else:
                raise Refusal("first return component must be [] or a tuple")
            return f"({f}, {self.expr(second)})"
        return self.expr(e)

    # ---------- statements
    def assigned(self, stmts):
        out = []
        for s in stmts:
            if isinstance(s, ast.Assign):
                for t in s.targets:
                    if not isinstance(t, ast.Name):
                        raise Refusal("assignment target")
                    if t.id not in out:
                        out.append(t.id)
            elif isinstance(s, ast.If):
                for v in self.assigned(s.body) + self.assigned(s.orelse):
                    if v not in out:
                        out.append(v)
            elif isinstance(s, (ast.Return, ast.Expr, ast.Pass)):
                pass
            else:
                raise Refusal(f"statement {type(s).__name__}")
        return out

    def always_returns(self, stmts):
        if not stmts:
            return False
        last = stmts[-1]
        if isinstance(last, ast.Return):
            return True
        if isinstance(last, ast.If):
            return self.always_returns(last.body) and self.always_returns(last.orelse)
        return False

    def has_return(self, stmts):
        return any(isinstance(n, ast.Return) for s in stmts for n in ast.walk(s))

    def is_auto_test(self, test):
        return (
            isinstance(test, ast.Compare)
            and len(test.ops) == 1
            and isinstance(test.ops[0], ast.Eq)
            and isinstance(test.left, ast.Name)
            and test.left.id in self.auto_params
            and isinstance(test.comparators[0], ast.Constant)
            and test.comparators[0].value == "auto"
        )

    def block(self, stmts, defined, tail, ind):
        """translate stmts followed by `tail` (a Lean expression string or None=must return)"""
        pad = "  " * ind
        if not stmts:
            if tail is None:
                raise Refusal("control reaches end without return")
            return pad + tail
        s, rest = stmts[0], stmts[1:]
        if isinstance(s, ast.Expr) and isinstance(s.value, ast.Constant):  # docstring
            return self.block(rest, defined, tail, ind)
        if isinstance(s, ast.Pass):
            return self.block(rest, defined, tail, ind)
        if isinstance(s, ast.Return):
            if s.value is None:
                raise Refusal("bare return")
            return pad + self.ret(s.value)
        if isinstance(s, ast.Assign):
            (t,) = s.targets
            line = f"{pad}let {t.id} := {self.expr(s.value)}\n"
            return line + self.block(rest, defined | {t.id}, tail, ind)
        if isinstance(s, ast.If):
            if self.is_auto_test(s.test):
                x = s.test.left.id
                if s.orelse or self.has_return(s.body) or self.assigned(s.body) != [x]:
                    raise Refusal("auto idiom shape")
                inner = self.block(s.body, defined, x, ind + 2)
                line = (
                    f"{pad}let {x} : Int := match {x} with\n"
                    f"{pad}  | none =>\n{inner}\n"
                    f"{pad}  | some v => v\n"
                )
                self.auto_params = self.auto_params - {x}
                return line + self.block(rest, defined, tail, ind)
            if self.has_return(s.body) or self.has_return(s.orelse):
                if self.always_returns(s.body) and not s.orelse:
                    a = self.block(s.body, defined, None, ind + 1)
                    b = self.block(rest, defined, tail, ind + 1)
                    return f"{pad}if {self.expr(s.test)} then\n{a}\n{pad}else\n{b}"
                if self.always_returns(s.body) and self.always_returns(s.orelse):
                    a = self.block(s.body, defined, None, ind + 1)
                    b = self.block(s.orelse, defined, None, ind + 1)
                    return f"{pad}if {self.expr(s.test)} then\n{a}\n{pad}else\n{b}"
                raise Refusal("mixed return/fallthrough in if")
            w = self.assigned(s.body) + [v for v in self.assigned(s.orelse) if v not in self.assigned(s.body)]
            for v in w:
                if v not in defined:
                    raise Refusal(f"variable {v} assigned in a branch before being defined")
            tup = "(" + ", ".join(w) + ")" if len(w) > 1 else w[0]
            a = self.block(s.body, defined, tup, ind + 2)
            b = self.block(s.orelse, defined, tup, ind + 2)
            line = f"{pad}let {tup} :=\n{pad}  if {self.expr(s.test)} then\n{a}\n{pad}  else\n{b}\n"
            return line + self.block(rest, defined, tail, ind)
        raise Refusal(f"statement {type(s).__name__}")

    def function(self, fn, lean_name, ret_type):
        src = textwrap.dedent(inspect.getsource(fn))
        f = ast.parse(src).body[0]
        if not isinstance(f, ast.FunctionDef):
            raise Refusal("not a function")
        params = []
        for a in f.args.args:
            ann = a.annotation.id if isinstance(a.annotation, ast.Name) else None
            if a.arg in self.auto_params:
                ty = "Option Int"
            elif ann == "bool":
                ty = "Bool"
            elif ann == "int":
                ty = "Int"
            else:
                raise Refusal(f"parameter {a.arg} without bool/int annotation")
            params.append(f"({a.arg} : {ty})")
        body = self.block(f.body, {a.arg for a in f.args.args}, None, 1)
        return f"def {lean_name} {' '.join(params)} : {ret_type} :=\n{body}\n"
