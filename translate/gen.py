"""Regenerate lean/MagpyVerif/Gen/*.lean from /repo's working tree.

Run as:  PYTHONPATH=/repo /venv/bin/python translate/gen.py [--only Name,...]
Prints one line per generated module: `GEN <module> ok|refused <reason>`; exit 1 on a refusal.
Files are rewritten only when their content changes (keeps `lake build` incremental).
"""
import os
import sys
import traceback

HERE = os.path.dirname(os.path.abspath(__file__))
sys.path.insert(0, HERE)
REPO = os.environ.get("VERIF_REPO", "/repo")
sys.path.insert(0, REPO)
GEN_DIR = os.path.join(HERE, "..", "lean", "MagpyVerif", "Gen")

from py2lean import Refusal, Tr  # noqa: E402

HEADER = "-- GENERATED from {src} by /verif/translate/gen.py — do not edit; rewritten on every check run\n"


def write(name, body, src):
    path = os.path.join(GEN_DIR, name + ".lean")
    text = HEADER.format(src=src) + body
    old = open(path).read() if os.path.exists(path) else None
    if old != text:
        with open(path, "w") as f:
            f.write(text)


def gen_PathPad():
    from magpylib._src.obj_classes.class_BaseTransform import path_padding_param

    fn = Tr(auto_params=["start"], opt_first_return=True).function(
        path_padding_param, "pathPaddingParam", "Option (Int × Int) × Int"
    )
    body = "namespace MagpyVerif.Gen\n\n" + fn + "\nend MagpyVerif.Gen\n"
    write("PathPad", body, "magpylib/_src/obj_classes/class_BaseTransform.py:path_padding_param")


GENERATORS = {"PathPad": gen_PathPad}


def main():
    only = None
    if "--only" in sys.argv:
        only = sys.argv[sys.argv.index("--only") + 1].split(",")
    os.makedirs(GEN_DIR, exist_ok=True)
    bad = 0
    for name, g in GENERATORS.items():
        if only and name not in only:
            continue
        try:
            g()
            print(f"GEN {name} ok")
        except Refusal as r:
            bad += 1
            print(f"GEN {name} refused {r}")
        except Exception as e:  # source no longer has the expected shape
            bad += 1
            print(f"GEN {name} refused {type(e).__name__}: {e}")
            traceback.print_exc(file=sys.stderr)
    sys.exit(1 if bad else 0)


if __name__ == "__main__":
    main()
