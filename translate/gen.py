"""Regenerate lean/MagpyVerif/Gen/*.lean from /repo's working tree.

Run as:  PYTHONPATH=/repo /venv/bin/python translate/gen.py [--only Name,...]
Prints one line per generated module: `GEN <module> ok|refused <reason>`; exit 1 on a refusal.
Files are rewritten only when their content changes (keeps `lake build` incremental).
"""
import os
import sys
import traceback

HERE = os.path.dirname(os.path.abspath(__file__))
sys.path.insert(0, HERE)
REPO = os.environ.get("VERIF_REPO", "/repo")
sys.path.insert(0, REPO)
GEN_DIR = os.path.join(HERE, "..", "lean", "MagpyVerif", "Gen")

from py2lean import Refusal, Tr  # noqa: E402

HEADER = "-- GENERATED from {src} by /verif/translate/gen.py — do not edit; rewritten on every check run\n"


def write(name, body, src):
    path = os.path.join(GEN_DIR, name + ".lean")
    text = HEADER.format(src=src) + body
    old = open(path).read() if os.path.exists(path) else None
    if old != text:
        with open(path, "w") as f:
            f.write(text)


def gen_PathPad():
    from magpylib._src.obj_classes.class_BaseTransform import path_padding_param

    fn = Tr(auto_params=["start"], opt_first_return=True).function(
        path_padding_param, "pathPaddingParam", "Option (Int × Int) × Int"
    )
    body = "namespace MagpyVerif.Gen\n\n" + fn + "\nend MagpyVerif.Gen\n"
    write("PathPad", body, "magpylib/_src/obj_classes/class_BaseTransform.py:path_padding_param")


def gen_Exits():
    """control-flow skeleton of getBH_level2: is everything between the in-place path tiling and the
    reset protected by a try/finally whose finally-block restores _position/_orientation?"""
    import ast
    import inspect
    import textwrap

    from magpylib._src.fields import field_wrap_BH

    src = textwrap.dedent(inspect.getsource(field_wrap_BH.getBH_level2))
    fn = ast.parse(src).body[0]

    def assigns_path(node):
        """does this statement (sub)tree assign obj._position / obj._orientation?"""
        for n in ast.walk(node):
            if isinstance(n, ast.Assign):
                for t in n.targets:
                    if isinstance(t, ast.Attribute) and t.attr in ("_position", "_orientation"):
                        return True
        return False

    def uses_slice_restore(node):
        for n in ast.walk(node):
            if isinstance(n, ast.Assign) and isinstance(n.value, ast.Subscript):
                for t in n.targets:
                    if isinstance(t, ast.Attribute) and t.attr in ("_position", "_orientation"):
                        v = n.value.value
                        if isinstance(v, ast.Attribute) and v.attr == t.attr:
                            return True
        return False

    body = fn.body
    tile_idx = [i for i, st in enumerate(body) if assigns_path(st) and not isinstance(st, ast.Try)]
    if not tile_idx:
        raise Refusal("no statement tiling _position/_orientation found in getBH_level2")
    first_tile = tile_idx[0]
    # statements after the tiling statement
    after = body[first_tile + 1:]
    in_finally = False
    unprotected = 0
    slice_restore = False
    restore_seen = False
    for st in after:
        if isinstance(st, ast.Try) and st.finalbody and any(assigns_path(x) for x in st.finalbody):
            in_finally = True
            restore_seen = True
            slice_restore = any(uses_slice_restore(x) for x in st.finalbody)
            break
        if assigns_path(st):  # plain reset statement: everything before it was unprotected
            restore_seen = True
            slice_restore = uses_slice_restore(st)
            break
        # a statement that can raise: contains a Raise or any Call
        if any(isinstance(n, (ast.Raise, ast.Call)) for n in ast.walk(st)):
            unprotected += 1
    if not restore_seen:
        raise Refusal("no statement restoring _position/_orientation found after the tiling block")

    # (audit2) WHAT the restore puts back.  `restoreBySlicing = false` only says "no `obj._position = obj._position[…]`";
    # it does not say that the arrays written back are the ones read off the objects BEFORE the tiling.  A save taken
    # after the tiling loop gives the same three flags and leaves every tiled path in place.  The fourth fact holds iff
    #   * the restore is ONE loop `for v, (p, o) in zip(A, B): v._position = p; v._orientation = o` (nothing else in its body),
    #   * B is a plain name stored exactly once in the whole function, by a TOP-LEVEL statement that comes before the first
    #     tiling statement, of the form `B = [(x._position, x._orientation) for x in A]` (same A, no condition),
    #   * B is read exactly once (by that zip) — no `B.append`, no alias —, and A is stored exactly once, before the save.
    def _names(node, ident, ctx):
        return [n for n in ast.walk(node) if isinstance(n, ast.Name) and n.id == ident and isinstance(n.ctx, ctx)]

    def _restore_loop(stmts):
        loops = [n for st_ in stmts for n in ast.walk(st_) if isinstance(n, ast.For) and assigns_path(n)]
        others = [st_ for st_ in stmts if assigns_path(st_) and not any(l is st_ or l in list(ast.walk(st_)) for l in loops)]
        if len(loops) != 1 or others:
            return None
        lp = loops[0]
        it, tg = lp.iter, lp.target
        if not (isinstance(it, ast.Call) and isinstance(it.func, ast.Name) and it.func.id == "zip" and len(it.args) == 2
                and not it.keywords and all(isinstance(a, ast.Name) for a in it.args)):
            return None
        if not (isinstance(tg, ast.Tuple) and len(tg.elts) == 2 and isinstance(tg.elts[0], ast.Name)
                and isinstance(tg.elts[1], ast.Tuple) and len(tg.elts[1].elts) == 2
                and all(isinstance(e, ast.Name) for e in tg.elts[1].elts)):
            return None
        v, (pn, on) = tg.elts[0].id, [e.id for e in tg.elts[1].elts]
        if len({v, pn, on}) != 3 or lp.orelse:
            return None
        want = {"_position": pn, "_orientation": on}
        seen = {}
        for b in lp.body:
            if not (isinstance(b, ast.Assign) and len(b.targets) == 1 and isinstance(b.targets[0], ast.Attribute)
                    and isinstance(b.targets[0].value, ast.Name) and b.targets[0].value.id == v
                    and b.targets[0].attr in want and isinstance(b.value, ast.Name)
                    and b.value.id == want[b.targets[0].attr] and b.targets[0].attr not in seen):
                return None
            seen[b.targets[0].attr] = True
        if set(seen) != set(want):
            return None
        return it.args[0].id, it.args[1].id

    def _saved_before_tiling():
        if slice_restore:
            return False
        stmts = None
        for st_ in after:
            if isinstance(st_, ast.Try) and st_.finalbody and any(assigns_path(x) for x in st_.finalbody):
                stmts = st_.finalbody
                break
            if assigns_path(st_):
                stmts = [st_]
                break
        got = _restore_loop(stmts or [])
        if got is None:
            return False
        a_name, b_name = got
        if len(_names(fn, b_name, ast.Store)) != 1 or len(_names(fn, b_name, ast.Load)) != 1 or _names(fn, b_name, ast.Del):
            return False
        if len(_names(fn, a_name, ast.Store)) != 1 or _names(fn, a_name, ast.Del):
            return False
        save_idx = [j for j, st_ in enumerate(body) if isinstance(st_, ast.Assign) and len(st_.targets) == 1
                    and isinstance(st_.targets[0], ast.Name) and st_.targets[0].id == b_name]
        a_idx = [j for j, st_ in enumerate(body) if isinstance(st_, ast.Assign) and len(st_.targets) == 1
                 and isinstance(st_.targets[0], ast.Name) and st_.targets[0].id == a_name]
        if len(save_idx) != 1 or len(a_idx) != 1 or not (a_idx[0] < save_idx[0] < first_tile):
            return False
        val = body[save_idx[0]].value
        if not (isinstance(val, ast.ListComp) and len(val.generators) == 1):
            return False
        g = val.generators[0]
        if not (isinstance(g.target, ast.Name) and isinstance(g.iter, ast.Name) and g.iter.id == a_name and not g.ifs
                and not g.is_async):
            return False
        x = g.target.id
        e = val.elt
        if not (isinstance(e, ast.Tuple) and len(e.elts) == 2):
            return False
        for el, attr in zip(e.elts, ("_position", "_orientation")):
            if not (isinstance(el, ast.Attribute) and el.attr == attr and isinstance(el.value, ast.Name) and el.value.id == x):
                return False
        return True

    saved_before = _saved_before_tiling()
    body_txt = (
        "namespace MagpyVerif.Gen.Exits\n\n"
        "/-- the restore of the tiled paths sits in the `finally` of a try that starts right after the tiling -/\n"
        f"def resetInFinally : Bool := {'true' if in_finally else 'false'}\n\n"
        "/-- statements containing a call or a raise between the tiling and an unprotected restore -/\n"
        f"def unprotectedSitesAfterTiling : Nat := {unprotected}\n\n"
        "/-- the restore slices the tiled path (`obj._position[:m0]`) instead of putting the saved arrays back -/\n"
        f"def restoreBySlicing : Bool := {'true' if slice_restore else 'false'}\n\n"
        "/-- (audit2) the restore is ONE loop `for v, (p, o) in zip(A, B): v._position = p; v._orientation = o` and `B` is stored\n"
        "exactly once, by a top-level statement BEFORE the first tiling statement, as `[(x._position, x._orientation) for x in A]`,\n"
        "and read nowhere else: the arrays put back are the ones the objects held before the tiling.  `false` for a save taken\n"
        "after the tiling (which leaves the other three facts as they are) or for any restore of another shape -/\n"
        f"def savedBeforeTiling : Bool := {'true' if saved_before else 'false'}\n\n"
        "end MagpyVerif.Gen.Exits\n"
    )
    write("Exits", body_txt, "magpylib/_src/fields/field_wrap_BH.py:getBH_level2 (AST)")


def gen_Ndim():
    """functional-interface rank table of every registered source class, next to the rank of ONE
    parameter value as the class's own validated attribute stores it"""
    import numpy as np

    sys.path.insert(0, os.path.join(HERE, ".."))
    from magpylib._src.utility import get_registered_sources
    from oracles.sources import params

    reg = get_registered_sources()
    nps = np.random.default_rng(0)
    doc_rank = {"segment_start": 1, "segment_end": 1}  # functional-only parameters: one value is a (3,) point
    rows, ranks = [], []
    for name in sorted(reg):
        cls = reg[name]
        tab = dict(cls._field_func_kwargs_ndim)
        rows.append((name, sorted(tab.items())))
        if name == "CustomSource":
            ranks.append((name, []))
            continue
        known = next((k.__name__ for k in cls.__mro__ if k.__name__ in
                      ("Cuboid", "Cylinder", "CylinderSegment", "Sphere", "Tetrahedron", "TriangularMesh", "Triangle",
                       "Circle", "Polyline", "Dipole")), None)
        if known is None:
            raise Refusal(f"registered source class {name} is not derived from a known class")
        import warnings
        with warnings.catch_warnings():
            warnings.simplefilter("ignore")
            obj = cls(**params(known, nps))
        rk = []
        for p in sorted(tab):
            if hasattr(obj, p) and getattr(obj, p) is not None:
                rk.append((p, int(np.ndim(getattr(obj, p)))))
            elif p in doc_rank:
                rk.append((p, doc_rank[p]))
            else:
                raise Refusal(f"no way to determine the rank of one value of {name}.{p}")
        ranks.append((name, rk))
    fmt = lambda rows: "[\n" + ",\n".join(
        f'  ("{c}", [' + ", ".join(f'("{p}", {n})' for p, n in ps) + "])" for c, ps in rows) + "]"
    body = ("namespace MagpyVerif.Gen.Ndim\n\n"
            "/-- `_field_func_kwargs_ndim`: (class, [(parameter, rank the interface expects of a STACK of values)]) -/\n"
            f"def table : List (String × List (String × Nat)) := {fmt(rows)}\n\n"
            "/-- rank of ONE value of the parameter (np.ndim of the validated attribute of a valid instance) -/\n"
            f"def singleRank : List (String × List (String × Nat)) := {fmt(ranks)}\n\n"
            "end MagpyVerif.Gen.Ndim\n")
    write("Ndim", body, "_field_func_kwargs_ndim of every class in magpylib._src.utility.get_registered_sources()")


def gen_Const():
    """numeric constants: the exported mu_0, and every literal in the package source that denotes mu_0
    (4*pi*1e-7 spelled out, or an import of scipy's mu_0) with file:line"""
    import ast
    import math
    import struct

    import magpylib

    bits = struct.unpack("<Q", struct.pack("<d", float(magpylib.mu_0)))[0]
    root = os.path.join(REPO, "magpylib")
    sites = []  # (file:line, kind) kind: "scipy" | "literal"
    for dp, _, fs in os.walk(root):
        for f in sorted(fs):
            if not f.endswith(".py"):
                continue
            p = os.path.join(dp, f)
            try:
                tree = ast.parse(open(p).read())
            except SyntaxError:
                continue
            rel = os.path.relpath(p, REPO)
            for node in ast.walk(tree):
                if isinstance(node, ast.ImportFrom) and node.module == "scipy.constants" and any(a.name == "mu_0" for a in node.names):
                    sites.append((f"{rel}:{node.lineno}", "scipy"))
                if isinstance(node, ast.BinOp):
                    try:
                        val = eval(compile(ast.Expression(node), "<c>", "eval"), {"np": __import__("numpy"), "pi": math.pi, "math": math})
                    except Exception:
                        continue
                    if isinstance(val, float) and abs(val - 4e-7 * math.pi) < 1e-12 and abs(val - float(magpylib.mu_0)) > 0:
                        sites.append((f"{rel}:{node.lineno}", "literal"))
    sites = sorted(set(sites))
    def row(a, b):
        f, ln = a.rsplit(":", 1)
        return f'("{f}", {ln}, "{b}", {"true" if f.startswith("magpylib/_src/fields/") else "false"})'

    lst = "[" + ", ".join(row(a, b) for a, b in sites) + "]"
    body = ("namespace MagpyVerif.Gen.Const\n\n"
            "/-- bit pattern of the exported `magpylib.mu_0` -/\n"
            f"def mu0Bits : UInt64 := {bits}\n\n"
            "/-- every place in the package where a value for mu_0 enters (file, line, kind, in fields/?): scipy's constant (= the exported one) or a spelled-out 4*pi*1e-7 -/\n"
            f"def mu0Sites : List (String × Nat × String × Bool) := {lst}\n\n"
            "end MagpyVerif.Gen.Const\n")
    write("Const", body, "magpylib package source (AST scan) and magpylib.mu_0")


def _literal_kwargs(call):
    """constant keyword arguments of a call; `range(a, b)` of literals counts as the list it denotes"""
    import ast

    kw = {}
    for k in call.keywords:
        try:
            kw[k.arg] = ast.literal_eval(k.value)
        except Exception:
            v = k.value
            if isinstance(v, ast.Call) and isinstance(v.func, ast.Name) and v.func.id == "range" and not v.keywords:
                try:
                    kw[k.arg] = list(range(*[ast.literal_eval(a) for a in v.args]))
                except Exception:
                    pass
    return kw


def _attr_row(cls, attr, func, kw):
    dims = kw.get("dims")
    dims = list(dims) if isinstance(dims, (tuple, list)) else []
    sm1 = kw.get("shape_m1", 0)
    return (cls, attr, func, dims, -1 if sm1 == "any" else int(sm1 or 0), int(kw.get("length") or 0),
            bool(kw.get("allow_None", False)), bool(kw.get("forbid_negative", False)), bool(kw.get("forbid_negative0", False)),
            bool(kw.get("reshape", False)))


# statement skeleton of the scalar validator: every test and every raise/return in order
def _skeleton(fn):
    import ast

    out = []

    def walk(stmts, depth):
        for st in stmts:
            if isinstance(st, ast.Expr) and isinstance(st.value, ast.Constant):
                continue  # docstring
            if isinstance(st, ast.If):
                out.append("  " * depth + "if " + ast.unparse(st.test))
                walk(st.body, depth + 1)
                if st.orelse:
                    out.append("  " * depth + "else")
                    walk(st.orelse, depth + 1)
            elif isinstance(st, ast.Raise):
                out.append("  " * depth + "raise " + (ast.unparse(st.exc.func) if isinstance(st.exc, ast.Call) else ast.unparse(st.exc)))
            elif isinstance(st, ast.Return):
                out.append("  " * depth + "return " + (ast.unparse(st.value) if st.value is not None else ""))
            elif isinstance(st, ast.Assign) and not (isinstance(st.targets[0], ast.Name) and st.targets[0].id.isupper()):
                v = st.value
                txt = ast.unparse(v.func) + "(...)" if isinstance(v, ast.Call) and len(ast.unparse(v)) > 40 else ast.unparse(v)
                out.append("  " * depth + " = ".join(ast.unparse(t) for t in st.targets) + " = " + txt)
            elif isinstance(st, ast.For):
                out.append("  " * depth + "for " + ast.unparse(st.target) + " in " + ast.unparse(st.iter))
                walk(st.body, depth + 1)
            elif isinstance(st, ast.Try):
                out.append("  " * depth + "try")
                walk(st.body, depth + 1)
                for h in st.handlers:
                    out.append("  " * depth + "except " + (ast.unparse(h.type) if h.type is not None else ""))
                    walk(h.body, depth + 1)
            elif isinstance(st, ast.Expr) and isinstance(st.value, ast.Call):
                out.append("  " * depth + ast.unparse(st.value.func) + "(...)")
    walk(fn.body, 0)
    return out


def _input_checks_facts():
    """facts read from magpylib/_src/input_checks.py and class_Sensor.py (AST) that the hand-written validator model rests on"""
    import ast

    tree = ast.parse(open(os.path.join(REPO, "magpylib", "_src", "input_checks.py")).read())
    fns = {n.name: n for n in tree.body if isinstance(n, ast.FunctionDef)}
    inner = []
    for name in ("check_format_input_anchor", "check_format_input_axis", "check_format_input_angle",
                 "check_format_input_vertices", "check_format_input_cylinder_segment"):
        call = next((n for n in ast.walk(fns[name]) if isinstance(n, ast.Call) and isinstance(n.func, ast.Name)
                     and n.func.id == "check_format_input_vector"), None)
        if call is None:
            raise Refusal(f"{name} no longer calls check_format_input_vector")
        inner.append(_attr_row("input_checks", name, "check_format_input_vector", _literal_kwargs(call)))
    # the geometric conditions of check_format_input_cylinder_segment, as source text
    seg = fns["check_format_input_cylinder_segment"]
    conds = []
    for n in seg.body:
        if isinstance(n, ast.Assign) and len(n.targets) == 1:
            t = n.targets[0]
            if isinstance(t, ast.Name) and t.id.startswith("case"):
                conds.append((t.id, ast.unparse(n.value)))
            if isinstance(t, ast.Tuple):
                conds.append(("unpack", ast.unparse(t) + " = " + ast.unparse(n.value)))
        if isinstance(n, ast.If) and any(isinstance(x, ast.Raise) for x in n.body):
            conds.append(("raise-if", ast.unparse(n.test)))
    if len(conds) < 5:
        raise Refusal("cylinder segment conditions not found")

    def isinstance_types(fn, var):
        for n in ast.walk(fn):
            if isinstance(n, ast.Call) and isinstance(n.func, ast.Name) and n.func.id == "isinstance" and ast.unparse(n.args[0]) == var:
                return ast.unparse(n.args[1])
        raise Refusal(f"no isinstance({var}, ...) in {fn.name}")

    skeleton = _skeleton

    stree = ast.parse(open(os.path.join(REPO, "magpylib", "_src", "obj_classes", "class_Sensor.py")).read())
    scls = next(n for n in stree.body if isinstance(n, ast.ClassDef) and n.name == "Sensor")
    setters = {n.name: n for n in scls.body if isinstance(n, ast.FunctionDef)
               and any(isinstance(d, ast.Attribute) and d.attr == "setter" for d in n.decorator_list)}
    modelled = ("is_array_like", "make_float_array", "none_rows_to_nan", "check_array_shape", "check_format_input_scalar",
                "check_format_input_vector", "check_format_input_vector2", "check_format_input_vertices",
                "check_start_type", "check_degree_type", "check_field_input", "check_getBH_output_type", "check_format_input_anchor",
                "check_format_input_angle", "check_format_input_axis", "check_format_input_orientation")
    for name in modelled:
        if name not in fns:
            raise Refusal(f"input_checks.{name} (modelled statement by statement in Model/Validators.lean) does not exist in the source")
    skel = {name: skeleton(fns[name]) for name in modelled}
    skel["Sensor.pixel"] = skeleton(setters["pixel"])
    skel["Sensor.handedness"] = skeleton(setters["handedness"])
    return inner, conds, skel


def gen_Attr():
    """which validator, with which constant arguments, every attribute setter of the object classes calls"""
    import ast

    files = ["class_BaseGeo.py", "class_BaseExcitations.py", "class_magnet_Cuboid.py", "class_magnet_Cylinder.py",
             "class_magnet_CylinderSegment.py", "class_magnet_Sphere.py", "class_magnet_Tetrahedron.py", "class_misc_Triangle.py",
             "class_current_Circle.py", "class_current_Polyline.py", "class_misc_Dipole.py", "class_Sensor.py"]
    rows = []
    for f in files:
        tree = ast.parse(open(os.path.join(REPO, "magpylib", "_src", "obj_classes", f)).read())
        for cls in [n for n in tree.body if isinstance(n, ast.ClassDef)]:
            for fn in [n for n in cls.body if isinstance(n, ast.FunctionDef)]:
                if not any(isinstance(d, ast.Attribute) and d.attr == "setter" for d in fn.decorator_list):
                    continue
                call = next((n for n in ast.walk(fn) if isinstance(n, ast.Call) and isinstance(n.func, ast.Name)
                             and n.func.id.startswith("check_format_input")), None)
                if call is None:
                    continue
                kw = _literal_kwargs(call)
                rows.append(_attr_row(cls.name, fn.name, call.func.id, kw))
    if len(rows) < 12:
        raise Refusal(f"only {len(rows)} validated setters found")
    b = lambda x: "true" if x else "false"
    fmt = lambda rs_: ",\n".join(f'  ⟨"{c}", "{a}", "{v}", {d}, {m}, {l}, {b(n)}, {b(fn_)}, {b(f0)}, {b(rs)}⟩'
                                  for c, a, v, d, m, l, n, fn_, f0, rs in rs_)
    lst = fmt(sorted(rows))
    inner, conds, skel = _input_checks_facts()
    q = lambda t: '"' + t.replace("\\", "\\\\").replace('"', '\\"') + '"'
    conds_l = ",\n".join(f"  ({q(a)}, {q(c)})" for a, c in conds)
    skel_l = ",\n".join(f"  ({q(k)}, [" + ", ".join(q(x) for x in v) + "])" for k, v in skel.items())
    body = ("namespace MagpyVerif.Gen.Attr\n\n"
            "structure Row where\n  cls : String\n  attr : String\n  validator : String\n  dims : List Nat\n"
            "  /-- required size of the last axis; -1 = any; 0 = not given -/\n  shapeM1 : Int\n  length : Nat\n"
            "  allowNone : Bool\n  forbidNegative : Bool\n  forbidNegative0 : Bool\n  reshape : Bool\n  deriving Repr, DecidableEq\n\n"
            f"def table : List Row := [\n{lst}]\n\n"
            "/-- calls of check_format_input_vector inside the composite validators of input_checks.py (attr = calling function) -/\n"
            f"def inner : List Row := [\n{fmt(inner)}]\n\n"
            "/-- check_format_input_cylinder_segment: the unpacking, the case conditions and the raise condition, as source text -/\n"
            f"def segConds : List (String × String) := [\n{conds_l}]\n\n"
            "/-- control-flow skeleton (tests, assignments, raises, returns in source order) of the validators modelled by hand in Model/Validators.lean -/\n"
            f"def skeleton : List (String × List String) := [\n{skel_l}]\n\n"
            "end MagpyVerif.Gen.Attr\n")
    write("Attr", body, "attribute setters of magpylib/_src/obj_classes/*.py and validators of magpylib/_src/input_checks.py (AST)")


def gen_Defaults():
    """the DEFAULTS tree of defaults_values.py as flat (path, has-value) rows, and the style families"""
    import magpylib._src.defaults.defaults_values as dv

    def walk(t, p=()):
        for k, v in t.items():
            if isinstance(v, dict):
                yield from walk(v, p + (k,))
            else:
                yield p + (k,), v

    rows = list(walk(dv.DEFAULTS))
    if len(rows) < 50:
        raise Refusal("DEFAULTS tree unexpectedly small")
    fams = sorted(dv.DEFAULTS["display"]["style"].keys())
    lst = ",\n".join("  ([" + ", ".join(f'"{x}"' for x in p) + f'], {"true" if v is not None else "false"})' for p, v in rows)
    body = ("namespace MagpyVerif.Gen.Defaults\n\n"
            "/-- every leaf of `DEFAULTS`: key path and whether the default is a value (not None) -/\n"
            f"def leaves : List (List String × Bool) := [\n{lst}]\n\n"
            "/-- style families under display.style -/\n"
            f"def families : List String := [{', '.join(chr(34) + f + chr(34) for f in fams)}]\n\n"
            "end MagpyVerif.Gen.Defaults\n")
    write("Defaults", body, "magpylib/_src/defaults/defaults_values.py:DEFAULTS")


def gen_StyleSchema():
    """class structure, validators and value panel of every property class reachable from DefaultSettings and from the
    style classes of the object classes; DEFAULTS as a tree of panel values (translate/style_schema.py)"""
    import style_schema

    try:
        text, _ = style_schema.lean_text(style_schema.probe())
    except style_schema.Refusal as r:
        raise Refusal(str(r)) from r
    finally:
        import magpylib

        magpylib.defaults.reset()
    write("StyleSchema", text, "magpylib/_src/defaults/defaults_classes.py, defaults_values.py, style.py (reflection + probing of every setter)")


def gen_Units():
    """`_UNIT_PREFIX` (power of ten -> prefix) and, for every prefix p, the decimal exponent k with
    get_unit_factor(p+'m', target_unit='m') = 10^k (to 1e-12 relative; anything else is refused)"""
    import math

    from magpylib._src.utility import _UNIT_PREFIX, get_unit_factor

    rows = []
    for power, pref in sorted(_UNIT_PREFIX.items()) + [(-1, "d"), (-2, "c")]:
        if pref == "":
            continue
        f = float(get_unit_factor(pref + "m", target_unit="m"))
        k = round(math.log10(f))
        if abs(f / 10.0**k - 1) > 1e-12:
            raise Refusal(f"unit factor for prefix {pref!r} is {f!r}, not a power of ten")
        rows.append((power, pref, k))
    lst = ", ".join(f'(({p} : Int), "{a}", ({k} : Int))' for p, a, k in rows)
    body = ("namespace MagpyVerif.Gen.Units\n\n"
            "/-- (power of ten of the prefix, prefix, decimal exponent of the factor returned for '<prefix>m' -> 'm') -/\n"
            f"def table : List (Int × String × Int) := [{lst}]\n\nend MagpyVerif.Gen.Units\n")
    write("Units", body, "magpylib/_src/utility.py:_UNIT_PREFIX, get_unit_factor")


def gen_SensorMesh():
    """the literal template of the Sensor axes glyph (`sensor_mesh._get_default_trace`): the 98 vertices as EXACT dyadic numbers (every double is
    m * 2^-k: the pair (m, k)), the 180 triangles, and the constants of `get_sensor_mesh` that say which face range carries which arrow"""
    import ast
    import inspect
    from fractions import Fraction

    from magpylib._src.display import sensor_mesh

    t = sensor_mesh._get_default_trace()
    n = len(t["x"])
    if not (len(t["y"]) == n and len(t["z"]) == n and len(t["i"]) == len(t["j"]) == len(t["k"])):
        raise Refusal("sensor mesh arrays of different lengths")

    def dy(v):
        f = Fraction(float(v))
        k = f.denominator.bit_length() - 1
        if f.denominator != 1 << k:
            raise Refusal(f"not dyadic: {v!r}")
        return f"(({f.numerator} : Int), {k})"

    verts = ",\n  ".join(f"({dy(x)}, {dy(y)}, {dy(z)})" for x, y, z in zip(t["x"], t["y"], t["z"]))
    faces = ", ".join(f"({int(a)}, {int(b)}, {int(c)})" for a, b, c in zip(t["i"], t["j"], t["k"]))
    src = inspect.getsource(sensor_mesh.get_sensor_mesh)
    tree = ast.parse(src)
    consts = {}
    for node in ast.walk(tree):
        if isinstance(node, ast.Assign) and isinstance(node.targets[0], ast.Tuple) and [getattr(e, "id", None) for e in node.targets[0].elts] == ["N", "N2"]:
            consts["N"], consts["N2"] = (ast.literal_eval(e) for e in node.value.elts)
        if isinstance(node, ast.Assign) and getattr(node.targets[0], "id", None) == "indices":
            consts["indices"] = ast.literal_eval(node.value)
        if isinstance(node, ast.Call) and getattr(node.func, "attr", None) == "from_euler":
            consts["euler"] = (ast.literal_eval(node.args[0]), ast.literal_eval(node.args[1]), [ast.literal_eval(k.value) for k in node.keywords if k.arg == "degrees"])
    if consts.get("indices") != ((0, 12), (12, 68), (68, 124), (124, 180)) or consts.get("euler") != ("y", -90, [True]):
        raise Refusal(f"get_sensor_mesh no longer has the expected constants: {consts}")
    if "x_color, z_color = z_color, x_color" not in src or "x_show, z_show = z_show, x_show" not in src:
        raise Refusal("get_sensor_mesh: the left-handed x/z swap is not found")
    rng = ", ".join(f"({a}, {b})" for a, b in consts["indices"])
    body = ("namespace MagpyVerif.Gen.SensorMesh\n\n"
            "/-- the vertices of `_get_default_trace()`: each coordinate `(m, k)` stands for the double `m * 2^-k` (exact) -/\n"
            f"def verts : List ((Int × Nat) × (Int × Nat) × (Int × Nat)) := [\n  {verts}]\n\n"
            "/-- `zip(i, j, k)` of `_get_default_trace()` -/\n"
            f"def faces : List (Nat × Nat × Nat) := [{faces}]\n\n"
            "/-- `indices` of `get_sensor_mesh`: the face ranges of the centre cube and of the arrows that are coloured x, y, z for a right-handed sensor\n"
            "(for `handedness == \"left\"` the vertices are turned by `from_euler(\"y\", -90, degrees=True)` and the x and z colours / show flags are exchanged) -/\n"
            f"def ranges : List (Nat × Nat) := [{rng}]\n\nend MagpyVerif.Gen.SensorMesh\n")
    write("SensorMesh", body, "magpylib/_src/display/sensor_mesh.py:_get_default_trace, get_sensor_mesh")


def gen_Tol():
    """every float literal and every integer literal above 3 (in source order) and every comparison operator of the kernel functions that are ported by hand
    to Model/Kernels.lean, Model/Polyline.lean, Model/TrimeshSum.lean: thresholds, tolerances, series coefficients.
    A change of any of them in the source changes this table and breaks the `decide` theorems that pin it."""
    import ast
    import importlib
    import inspect
    import textwrap

    targets = [
        ("magpylib._src.fields.field_BH_dipole", ["dipole_Hfield", "BHJM_dipole"]),
        ("magpylib._src.fields.field_BH_sphere", ["magnet_sphere_Bfield", "BHJM_magnet_sphere"]),
        ("magpylib._src.fields.field_BH_polyline", ["current_polyline_Hfield", "BHJM_current_polyline", "current_vertices_field"]),
        ("magpylib._src.fields.field_BH_cuboid", ["magnet_cuboid_Bfield", "BHJM_magnet_cuboid"]),
        ("magpylib._src.fields.field_BH_triangle", ["norm_vector", "solid_angle", "triangle_Bfield", "BHJM_triangle"]),
        ("magpylib._src.fields.field_BH_tetrahedron", ["check_chirality", "point_inside", "BHJM_magnet_tetrahedron"]),
        ("magpylib._src.fields.field_BH_circle", ["current_circle_Hfield", "BHJM_circle"]),
        ("magpylib._src.fields.special_cel", ["cel0", "cel_iter0", "cel_iterv", "cel_iter", "cel"]),
        ("magpylib._src.fields.field_BH_triangularmesh", ["mask_inside_enclosing_box", "mask_inside_trimesh", "lines_end_in_trimesh", "is_facet_inwards", "BHJM_magnet_trimesh"]),
        ("magpylib._src.fields.field_BH_cylinder", ["magnet_cylinder_axial_Bfield", "magnet_cylinder_diametral_Hfield", "BHJM_magnet_cylinder"]),
        ("magpylib._src.utility", ["cart_to_cyl_coordinates", "cyl_field_to_cart"]),
    ]
    opname = {ast.Lt: "<", ast.LtE: "<=", ast.Gt: ">", ast.GtE: ">=", ast.Eq: "==", ast.NotEq: "!="}
    rows = []
    for modname, fns in targets:
        mod = importlib.import_module(modname)
        for fn in fns:
            tree = ast.parse(textwrap.dedent(inspect.getsource(getattr(mod, fn))))
            f = tree.body[0]
            body = f.body[1:] if (f.body and isinstance(f.body[0], ast.Expr) and isinstance(getattr(f.body[0], "value", None), ast.Constant)
                                  and isinstance(f.body[0].value.value, str)) else f.body  # skip the docstring
            nums, cmps = [], []
            for stmt in body:
                for n in ast.walk(stmt):
                    if isinstance(n, ast.Constant) and isinstance(n.value, (int, float)) and not isinstance(n.value, bool):
                        if isinstance(n.value, float) or n.value not in (0, 1, 2, 3):  # array indices / small integer factors are left out
                            nums.append((n.lineno, n.col_offset, repr(n.value)))
                    if isinstance(n, ast.Compare):
                        for o in n.ops:
                            if type(o) in opname:
                                cmps.append((n.lineno, n.col_offset, opname[type(o)]))
            nums.sort()
            cmps.sort()
            rows.append((modname.rsplit(".", 1)[1] + "." + fn, [x[2] for x in nums], [x[2] for x in cmps]))
    q = lambda xs: "[" + ", ".join('"' + x + '"' for x in xs) + "]"
    lst = ",\n  ".join(f'("{name}", {q(nums)}, {q(cmps)})' for name, nums, cmps in rows)
    body = ("namespace MagpyVerif.Gen.Tol\n\n/-- (function, numeric literals in source order, comparison operators in source order) -/\n"
            f"def table : List (String × List String × List String) := [\n  {lst}]\n\nend MagpyVerif.Gen.Tol\n")
    write("Tol", body, "magpylib/_src/fields/*.py (numeric literals and comparison operators of the ported kernels)")


def gen_StyleTemp():
    """control-flow skeleton of utility.style_temp_edit (the context manager that puts the resolved style on obj._style while
    show() builds the traces): is the original read before the first assignment, does the `yield` sit in a `try` whose
    `finally` puts the original back, is anything assigned outside that try?"""
    import ast
    import inspect
    import textwrap

    from magpylib._src import utility

    fn = ast.parse(textwrap.dedent(inspect.getsource(utility.style_temp_edit))).body[0]
    if not isinstance(fn, ast.FunctionDef):
        raise Refusal("style_temp_edit is not a plain function")
    obj = fn.args.args[0].arg

    def assigns_style(node):
        return [n for n in ast.walk(node) if isinstance(n, ast.Assign) and any(
            isinstance(t, ast.Attribute) and t.attr == "_style" and isinstance(t.value, ast.Name) and t.value.id == obj for t in n.targets)]

    def is_orig_read(st):
        return (isinstance(st, ast.Assign) and isinstance(st.value, ast.Call) and getattr(st.value.func, "id", "") == "getattr"
                and len(st.value.args) >= 2 and getattr(st.value.args[0], "id", None) == obj and getattr(st.value.args[1], "value", None) == "_style")

    body = [st for st in fn.body if not (isinstance(st, ast.Expr) and isinstance(st.value, ast.Constant))]
    orig_first = bool(body) and is_orig_read(body[0])
    orig_name = body[0].targets[0].id if orig_first and isinstance(body[0].targets[0], ast.Name) else None
    tries = [st for st in body if isinstance(st, ast.Try)]
    yields_outside = [n for st in body if not isinstance(st, ast.Try) for n in ast.walk(st) if isinstance(n, (ast.Yield, ast.YieldFrom))]
    assigns_outside = [a for st in body[1:] if not isinstance(st, ast.Try) for a in assigns_style(st)]
    restore = False
    yield_in_try = False
    if len(tries) == 1:
        t = tries[0]
        yield_in_try = any(isinstance(n, (ast.Yield, ast.YieldFrom)) for st in t.body for n in ast.walk(st))
        fin = [a for st in t.finalbody for a in assigns_style(st)]
        restore = len(fin) == 1 and isinstance(fin[0].value, ast.Name) and fin[0].value.id == orig_name and not t.handlers
    b = lambda x: "true" if x else "false"  # noqa: E731
    text = ("namespace MagpyVerif.Gen.StyleTemp\n\n"
            "/-- the first statement reads the object's current `_style` into a local -/\n"
            f"def origReadFirst : Bool := {b(orig_first)}\n\n"
            "/-- the single `yield` sits inside a `try` (no `except`) whose `finally` assigns that local back to `obj._style` -/\n"
            f"def restoreInFinally : Bool := {b(restore and yield_in_try and not yields_outside)}\n\n"
            "/-- assignments to `obj._style` outside the try (after the read of the original) -/\n"
            f"def assignsOutsideTry : Nat := {len(assigns_outside)}\n\nend MagpyVerif.Gen.StyleTemp\n")
    write("StyleTemp", text, "magpylib/_src/utility.py:style_temp_edit (AST)")


def gen_KernTrace():
    """concolic trace of the real numpy kernels on one symbolic row per branch (translate/ktrace.py)"""
    import ktrace

    try:
        text, table = ktrace.generate()
    except ktrace.TraceRefusal as r:
        raise Refusal(f"ktrace: {r}") from r
    write("KernTrace", text, "magpylib/_src/fields/field_BH_{dipole,sphere,polyline,cuboid,triangle}.py (executed on symbolic rows)")
    import json

    with open(os.path.join(GEN_DIR, "KernTrace.table.json"), "w") as f:
        json.dump(table, f, indent=0)


def gen_CylSegGen():
    """the CylinderSegment case functions, determine_cases, the assemblers and the dispatch tables, translated from the
    source as it is now (translate/cylseg2lean.py) into the namespace MagpyVerif.Gen.CylSeg.  The reviewed, frozen copy of the
    same translation is lean/MagpyVerif/Model/CylSeg.lean (namespace MagpyVerif.Kern.CylSeg) — the one the driver executes and the
    theorems speak about; `cylseg2lean.cylseg_in_sync()` names the definitions in which the two differ, and the generated
    `sync_*` theorems (`rfl`) make `lake build MagpyVerif.Gen.CylSegGen` fail on the same definitions."""
    import cylseg2lean

    try:
        blocks = cylseg2lean.translate(os.path.join(REPO, cylseg2lean.REL_SRC))
    except cylseg2lean.Refusal as r:
        raise Refusal(str(r))
    text = cylseg2lean.render(blocks, cylseg2lean.GEN_NS)
    text = text.replace("import MagpyVerif.Model.CylSegBase\n", "import MagpyVerif.Model.CylSegBase\nimport MagpyVerif.Model.CylSeg\n", 1)
    # keep only the part after the translator's own header comment (write() puts the GENERATED header)
    text = text.split("\n", 1)[1]
    # the argument record is the frozen model's (a changed `allargs` list then fails to elaborate, and is named by cylseg_in_sync)
    for name, btxt in blocks:
        if btxt.startswith("structure"):
            text = text.replace(btxt, f"open MagpyVerif.Kern.CylSeg ({name})\n", 1)
    end = f"\nend {cylseg2lean.GEN_NS}\n"
    sync = ["", "/-! the regenerated definitions are the frozen model's, definition by definition -/"]
    for name, btxt in blocks:
        if btxt.startswith("structure"):
            continue
        sync.append(f"theorem sync_{name} : @{name} = @MagpyVerif.Kern.CylSeg.{name} := rfl")
    text = text[: -len(end)] + "\n".join(sync) + "\n" + end
    write("CylSegGen", text, cylseg2lean.REL_SRC)


def gen_ExcSync():
    """the polarization / magnetization setters of BaseMagnet and its constructor (class_BaseExcitations.py), statement by
    statement: which validator call fills the attribute, what happens on None, with WHICH operator and WHICH constant
    expression the partner attribute is derived (the expression as a tree: integer and decimal literals, pi, products and
    quotients, or a name bound to scipy's mu_0), the warning threshold; the order of the constructor's statements.  The model
    (Model/Excitation.lean) takes operator, constant and threshold from here, so a changed relation changes the model; the
    statement skeletons are pinned by `decide` theorems in Props/C02.lean."""
    import ast
    import decimal
    import inspect
    import math
    import struct
    import textwrap

    import numpy as np

    import magpylib
    from magpylib._src.obj_classes import class_BaseExcitations as mod

    cls_src = textwrap.dedent(inspect.getsource(mod.BaseMagnet))
    cls = ast.parse(cls_src).body[0]
    line0 = inspect.getsourcelines(mod.BaseMagnet)[1] - 1
    glob = vars(mod)

    def fn(name, deco=None):
        for st in cls.body:
            if isinstance(st, ast.FunctionDef) and st.name == name:
                decos = [ast.unparse(d) for d in st.decorator_list]
                if deco is None and not any(d.endswith(".setter") for d in decos) and (name == "__init__" or "property" in decos):
                    return st
                if deco is not None and deco in decos:
                    return st
        raise Refusal(f"BaseMagnet.{name} ({deco}) not found")

    def cexpr(node):
        """Lean term of type Exc.CExpr for a constant expression"""
        if isinstance(node, ast.Constant) and isinstance(node.value, bool):
            raise Refusal("boolean in the setter constant")
        if isinstance(node, ast.Constant) and isinstance(node.value, int) and node.value >= 0:
            return f"(.nat {node.value})"
        if isinstance(node, ast.Constant) and isinstance(node.value, float) and node.value > 0:
            d = decimal.Decimal(repr(node.value))
            sign, digits, exp = d.as_tuple()
            mant = int("".join(map(str, digits)))
            if exp >= 0:
                mant, exp = mant * 10**exp, 0
            if mant >= 2**53 or 10 ** (-exp) >= 2**53 or float(mant) / float(10 ** (-exp)) != node.value:
                raise Refusal(f"float literal {node.value!r} is not the correctly rounded quotient of two exact integers")
            return f"(.dec {mant} {-exp})"
        if isinstance(node, (ast.Attribute, ast.Name)):
            txt = ast.unparse(node)
            try:
                val = eval(txt, dict(glob, math=math, np=np))  # noqa: S307
            except Exception as e:
                raise Refusal(f"cannot resolve {txt}: {e}") from e
            if txt.split(".")[-1] == "pi" and val == math.pi:
                return ".pi"
            import scipy.constants

            if isinstance(val, float) and val == float(magpylib.mu_0) == scipy.constants.mu_0:
                return ".exported"
            raise Refusal(f"name {txt} in the setter constant is neither pi nor the exported mu_0")
        if isinstance(node, ast.BinOp) and isinstance(node.op, (ast.Mult, ast.Div)):
            return f"(.{'mul' if isinstance(node.op, ast.Mult) else 'div'} {cexpr(node.left)} {cexpr(node.right)})"
        raise Refusal(f"setter constant has an unsupported form: {ast.unparse(node)}")

    def bits_of(node):
        val = eval(compile(ast.Expression(node), "<c>", "eval"), dict(glob, math=math, np=np))  # noqa: S307
        return struct.unpack("<Q", struct.pack("<d", float(val)))[0]

    def is_self_attr(node, attr=None):
        return (isinstance(node, ast.Attribute) and isinstance(node.value, ast.Name) and node.value.id == "self"
                and (attr is None or node.attr == attr))

    facts = {}

    def setter_skeleton(f, own, other):
        """own = attribute the setter stores, other = the derived one"""
        arg = f.args.args[1].arg
        out = []
        for st in f.body:
            if isinstance(st, ast.Expr) and isinstance(st.value, ast.Constant):
                continue  # docstring
            if (isinstance(st, ast.Assign) and len(st.targets) == 1 and is_self_attr(st.targets[0], own) and isinstance(st.value, ast.Call)
                    and getattr(st.value.func, "id", "") == "check_format_input_vector" and len(st.value.args) == 1
                    and getattr(st.value.args[0], "id", None) == arg):
                kw = {k.arg: ast.unparse(k.value) for k in st.value.keywords if k.arg in ("dims", "shape_m1", "allow_None", "length", "reshape", "forbid_negative0")}
                out.append(f"{own} := check_format_input_vector(arg, " + ", ".join(f"{k}={v}" for k, v in sorted(kw.items())) + ")")
            elif (isinstance(st, ast.If) and isinstance(st.test, ast.Compare) and is_self_attr(st.test.left, own) and len(st.test.ops) == 1
                  and isinstance(st.test.ops[0], ast.Is) and isinstance(st.test.comparators[0], ast.Constant) and st.test.comparators[0].value is None
                  and not st.orelse and len(st.body) == 2 and isinstance(st.body[0], ast.Assign) and is_self_attr(st.body[0].targets[0], other)
                  and isinstance(st.body[0].value, ast.Constant) and st.body[0].value.value is None and isinstance(st.body[1], ast.Return) and st.body[1].value is None):
                out.append(f"if {own} is None: {other} := None; return")
            elif (isinstance(st, ast.Assign) and len(st.targets) == 1 and is_self_attr(st.targets[0], other) and isinstance(st.value, ast.BinOp)
                  and is_self_attr(st.value.left, own) and isinstance(st.value.op, (ast.Mult, ast.Div))):
                op = "mul" if isinstance(st.value.op, ast.Mult) else "div"
                facts[own] = (op, cexpr(st.value.right), bits_of(st.value.right), st.lineno + line0, ast.unparse(st.value.right))
                out.append(f"{other} := {own} {op} CONST")
            elif (isinstance(st, ast.If) and isinstance(st.test, ast.Compare) and len(st.test.ops) == 1 and isinstance(st.test.ops[0], ast.Lt)
                  and ast.unparse(st.test.left) == f"np.linalg.norm(self.{own})" and isinstance(st.test.comparators[0], ast.Constant)
                  and isinstance(st.test.comparators[0].value, int) and not st.orelse and len(st.body) == 1
                  and ast.unparse(st.body[0]) == f"self.{own}_low_warning()"):
                facts["threshold"] = st.test.comparators[0].value
                out.append(f"if norm({own}) < THRESHOLD: warn")
            else:
                out.append("other: " + ast.unparse(st).replace("\n", " ")[:120])
        return out

    mag = setter_skeleton(fn("magnetization", "magnetization.setter"), "_magnetization", "_polarization")
    pol = setter_skeleton(fn("polarization", "polarization.setter"), "_polarization", "_magnetization")
    if "_magnetization" not in facts or "_polarization" not in facts:
        raise Refusal("a setter no longer derives the partner attribute by `self._x (*|/) <constant>`")
    # the low-norm warning: which category does the helper raise with
    warn_fn = next((st for st in cls.body if isinstance(st, ast.FunctionDef) and st.name == "_magnetization_low_warning"), None)
    warn_cat = "none"
    if warn_fn is not None:
        for nd in ast.walk(warn_fn):
            if isinstance(nd, ast.Call) and ast.unparse(nd.func) == "warnings.warn" and len(nd.args) >= 2:
                warn_cat = ast.unparse(nd.args[1])
    getters = []
    for name, attr in (("polarization", "_polarization"), ("magnetization", "_magnetization")):
        g = fn(name)
        body = [st for st in g.body if not (isinstance(st, ast.Expr) and isinstance(st.value, ast.Constant))]
        getters.append(f"{name}: " + "; ".join(ast.unparse(st) for st in body))
    # the constructor
    init = fn("__init__")
    ini = []
    for st in init.body:
        txt = ast.unparse(st).replace("\n", " ")
        if isinstance(st, ast.Expr) and isinstance(st.value, ast.Call) and txt.startswith("super().__init__("):
            ini.append("super().__init__")
        elif isinstance(st, ast.Assign) and is_self_attr(st.targets[0]) and isinstance(st.value, ast.Constant) and st.value.value is None:
            ini.append(f"{st.targets[0].attr} := None")
        elif isinstance(st, ast.If):
            def flat(body):
                res = []
                for b in body:
                    if isinstance(b, ast.Assign) and is_self_attr(b.targets[0]) and isinstance(b.value, ast.Name):
                        res.append(f"self.{b.targets[0].attr} = {b.value.id}")
                    elif isinstance(b, ast.If) and not b.orelse and len(b.body) == 1 and isinstance(b.body[0], ast.Raise):
                        exc = b.body[0].exc
                        res.append(f"if {ast.unparse(b.test)}: raise {ast.unparse(exc.func) if isinstance(exc, ast.Call) else ast.unparse(exc)}")
                    else:
                        res.append("other: " + ast.unparse(b).replace("\n", " ")[:100])
                return res
            ini.append(f"if {ast.unparse(st.test)}: " + "; ".join(flat(st.body)) + (" else …" if st.orelse else ""))
        else:
            ini.append("other: " + txt[:120])

    def strs(xs):
        return "[" + ", ".join('"' + x.replace("\\", "\\\\").replace('"', '\\"') + '"' for x in xs) + "]"

    exp_bits = struct.unpack("<Q", struct.pack("<d", float(magpylib.mu_0)))[0]
    num, den = float(magpylib.mu_0).as_integer_ratio()
    m, p = facts["_magnetization"], facts["_polarization"]
    text = ("import MagpyVerif.Model.ExcBase\n"
            "namespace MagpyVerif.Gen.ExcSync\nopen MagpyVerif.Exc\n\n"
            f"/-- magnetization setter (line {m[3]}): `self._polarization = self._magnetization <op> ({m[4]})` -/\n"
            f"def magToPolOp : BinOp := .{m[0]}\n"
            f"def magToPolConst : CExpr := {m[1]}\n"
            f"/-- the value of that expression as Python computes it (bit pattern of the double) -/\n"
            f"def magToPolBits : UInt64 := {m[2]}\n\n"
            f"/-- polarization setter (line {p[3]}): `self._magnetization = self._polarization <op> ({p[4]})` -/\n"
            f"def polToMagOp : BinOp := .{p[0]}\n"
            f"def polToMagConst : CExpr := {p[1]}\n"
            f"def polToMagBits : UInt64 := {p[2]}\n\n"
            "/-- the exported `magpylib.mu_0`: bit pattern and exact value as a quotient of integers -/\n"
            f"def exportedBits : UInt64 := {exp_bits}\n"
            f"def exportedNum : Nat := {num}\n"
            f"def exportedDen : Nat := {den}\n\n"
            "/-- `if np.linalg.norm(self._magnetization) < THRESHOLD: self._magnetization_low_warning()` -/\n"
            f"def warnThreshold : Nat := {facts.get('threshold', 0)}\n"
            f"def warnCategory : String := \"{warn_cat}\"\n\n"
            "/-- the statements of the two setters, of the getters and of `BaseMagnet.__init__`, in source order -/\n"
            f"def magSetter : List String := {strs(mag)}\n"
            f"def polSetter : List String := {strs(pol)}\n"
            f"def getters : List String := {strs(getters)}\n"
            f"def init : List String := {strs(ini)}\n\n"
            "end MagpyVerif.Gen.ExcSync\n")
    write("ExcSync", text, "magpylib/_src/obj_classes/class_BaseExcitations.py:BaseMagnet (AST) and magpylib.mu_0")


def gen_InOut():
    """which core field functions accept the keyword `in_out` (getBH_level1 drops it for all others:
    `if not has_parameter(field_func, "in_out"): kwargs.pop("in_out", None)`), the skeleton of that filter, and how the two
    functions that accept it branch on its value"""
    import ast
    import inspect
    import textwrap

    from magpylib._src.fields import field_wrap_BH
    from magpylib._src.fields.field_BH_tetrahedron import BHJM_magnet_tetrahedron, point_inside
    from magpylib._src.fields.field_BH_triangularmesh import BHJM_magnet_trimesh
    from magpylib._src.utility import get_registered_sources, has_parameter

    rows = []
    for name, c in sorted(get_registered_sources().items()):
        ff = getattr(c, "_field_func", None)
        f = getattr(ff, "__func__", ff)
        if f is None:
            rows.append((name, "none", False))
        else:
            rows.append((name, f.__name__, bool(has_parameter(f, "in_out"))))
    # the level1 filter
    l1 = ast.parse(textwrap.dedent(inspect.getsource(field_wrap_BH.getBH_level1))).body[0]
    filt = [" ".join(ast.unparse(st).split()) for st in l1.body if isinstance(st, ast.If) and "in_out" in ast.unparse(st.test)]
    calls = [" ".join(ast.unparse(st).split()) for st in l1.body if isinstance(st, ast.Assign) and "field_func(" in ast.unparse(st.value)]

    def branches(fn_obj):
        """every test on `in_out` in the function, in source order, with the first statement of its body"""
        f = ast.parse(textwrap.dedent(inspect.getsource(fn_obj))).body[0]
        out = []
        for nd in ast.walk(f):
            if isinstance(nd, ast.If) and "in_out" in ast.unparse(nd.test):
                out.append((nd.lineno, f"if {ast.unparse(nd.test)}: {ast.unparse(nd.body[0]).splitlines()[0][:70]}" + (" [else]" if nd.orelse else "")))
        return [t for _, t in sorted(out)]

    def uses(fn_obj, callee):
        f = ast.parse(textwrap.dedent(inspect.getsource(fn_obj))).body[0]
        res = []
        for nd in ast.walk(f):
            if isinstance(nd, ast.If) and isinstance(nd.test, ast.Compare) and ast.unparse(nd.test.left) == "field":
                for sub in ast.walk(nd):
                    if isinstance(sub, ast.Call) and getattr(sub.func, "id", "") == callee:
                        res.append(f"field {ast.unparse(nd.test.comparators[0])}: {ast.unparse(sub)}")
        return res

    def strs(xs):
        return "[" + ", ".join('"' + x.replace("\\", "\\\\").replace('"', '\\"') + '"' for x in xs) + "]"

    tab = "[" + ", ".join(f'("{a}", "{b}", {"true" if c else "false"})' for a, b, c in rows) + "]"
    text = ("namespace MagpyVerif.Gen.InOut\n\n"
            "/-- registered source class, name of its core field function, does that function have a parameter `in_out` -/\n"
            f"def table : List (String × String × Bool) := {tab}\n\n"
            "/-- the statement of getBH_level1 that removes `in_out` from the keyword arguments, and the call of the field function -/\n"
            f"def level1Filter : List String := {strs(filt)}\n"
            f"def level1Call : List String := {strs(calls)}\n\n"
            "/-- the tests on `in_out` in `point_inside` (Tetrahedron) and in `BHJM_magnet_trimesh`, in source order -/\n"
            f"def pointInsideBranches : List String := {strs(branches(point_inside))}\n"
            f"def tetraUses : List String := {strs(uses(BHJM_magnet_tetrahedron, 'point_inside'))}\n"
            f"def trimeshBranches : List String := {strs(branches(BHJM_magnet_trimesh))}\n\n"
            "end MagpyVerif.Gen.InOut\n")
    write("InOut", text, "magpylib/_src/fields/field_wrap_BH.py:getBH_level1, field_BH_tetrahedron.py, field_BH_triangularmesh.py, utility.get_registered_sources (AST + reflection)")


def gen_AbsLen():
    """absolute-length constructs (rounding, isclose/allclose, atol=, comparisons of non-integer expressions with non-zero literals, fractional float
    literals) in the pose machinery and marshalling sources — scanner and classification table in translate/abslen.py (C12, Props/C12b)"""
    import abslen

    write("AbsLen", abslen.lean_text(abslen.scan(REPO)), "magpylib/_src/obj_classes/class_BaseTransform.py, class_BaseGeo.py, class_Collection.py, utility.py, fields/field_wrap_BH.py (AST scan)")


def gen_WriteSet():
    """mutation sites of every function on the field-computation call path with the class of their root (fresh / parameter /
    global), the calls of functions outside the analysed set, and the translator's own trusted tables (translate/writeset.py)"""
    import writeset

    try:
        res = writeset.analyse(REPO)
    except (KeyError, FileNotFoundError, SyntaxError, RuntimeError) as e:
        raise Refusal(f"writeset: {type(e).__name__}: {e}") from e

    def q(t):
        return '"' + str(t).replace("\\", "\\\\").replace('"', '\\"').replace("\n", " ") + '"'

    def strs(xs, per_line=8):
        xs = list(xs)
        rows = [", ".join(q(x) for x in xs[i:i + per_line]) for i in range(0, len(xs), per_line)]
        return "[" + ",\n   ".join(rows) + "]"

    b = lambda x: "true" if x else "false"  # noqa: E731
    sites = ",\n".join(
        f"  ⟨{q(s_.fn)}, {s_.line}, .{s_.kind}, {q(s_.target)}, {q(s_.attr)}, .{s_.root}, .{s_.region}, {b(s_.writes_arg)}⟩" for s_ in res.sites)
    seen, ext_rows, n_fresh = set(), [], 0
    for c in res.ext:
        if c.args_fresh:
            n_fresh += 1
            continue
        k = (c.fn, c.callee)
        if k in seen:
            continue
        seen.add(k)
        ext_rows.append(f"  ⟨{q(c.fn)}, {c.line}, {q(c.callee)}, false⟩")
    t = res.tiling
    body = (
        "import MagpyVerif.Model.WriteSet\n"
        "namespace MagpyVerif.Gen.WriteSet\nopen MagpyVerif.WriteSet\n\n"
        "/-- the functions analysed: the roots (getB/getH/getJ/getM of every interface) closed under calls, property getters and dunders -/\n"
        f"def functions : List String := {strs(res.functions, 4)}\n\n"
        "/-- of these, the core field functions and what only they call (parameters = caller-owned arrays whose elements pre-exist) -/\n"
        f"def fieldFunctions : List String := {strs(res.argmode, 4)}\n\n"
        "/-- core field functions that write into one of their parameters (every call of one is a `consume` site) -/\n"
        f"def argWriters : List String := {strs(res.consumers, 4)}\n\n"
        "/-- every mutation site (function, line, kind, mutated expression, attribute/method, root class, region, writes a parameter of a core function) -/\n"
        f"def sites : List Site := [\n{sites}]\n\n"
        f"/-- calls of functions outside the analysed set that receive pre-existing values ({n_fresh} further external calls receive fresh values only) -/\n"
        f"def extCalls : List ExtCall := [\n" + ",\n".join(ext_rows) + "]\n\n"
        "/-- constructs the translator could not interpret -/\n"
        f"def notes : List String := {strs(res.notes, 1)}\n\n"
        "/-- getBH_level2: the loop that pads the paths and the loop that restores them run over the same list … -/\n"
        f"def tiledIter : String := {q(t.get('tiledIter', ''))}\n"
        f"def restoredIter : String := {q(t.get('restoredIter', ''))}\n"
        "/-- … which is bound once and never mutated, and the `try` follows the padding statement directly -/\n"
        f"def iterAssignedOnce : Bool := {b(t.get('iterAssignedOnce'))}\n"
        f"def tilingDirectlyBeforeTry : Bool := {b(t.get('tilingDirectlyBeforeTry'))}\n\n"
        "/-! the translator's trusted tables (translate/writeset.py), repeated here so that they are pinned by a theorem -/\n"
        f"def freshDeep : List String := {strs(sorted(writeset.FRESH_DEEP))}\n"
        f"def freshShallow : List String := {strs(sorted(writeset.FRESH_SHALLOW))}\n"
        f"def alias : List String := {strs(sorted(writeset.ALIAS))}\n"
        f"def outFuncs : List String := {strs(sorted(writeset.OUT_FUNCS))}\n"
        f"def mutatingMethods : List String := {strs(sorted(writeset.MUTATING_METHODS))}\n"
        f"def freshDeepMethods : List String := {strs(sorted(writeset.FRESH_DEEP_METHODS))}\n"
        f"def freshShallowMethods : List String := {strs(sorted(writeset.FRESH_SHALLOW_METHODS))}\n"
        f"def aliasMethods : List String := {strs(sorted(writeset.ALIAS_METHODS))}\n"
        f"def exceptionSuffixes : List String := {strs(writeset.EXCEPTION_SUFFIXES)}\n"
        f"def consumers : List String := {strs(sorted(writeset.CONSUMERS))}\n"
        f"def consumeExempt : List String := {strs(writeset.CONSUME_EXEMPT)}\n"
        f"def argNumericParams : List String := {strs(writeset.ARG_NUMERIC_PARAMS)}\n\n"
        "end MagpyVerif.Gen.WriteSet\n")
    write("WriteSet", body, "magpylib/_src/fields/*.py, utility.py, input_checks.py, obj_classes/*.py (AST; translate/writeset.py)")


def _lq(t):
    return '"' + t.replace("\\", "\\\\").replace('"', '\\"').replace("\n", "\\n") + '"'


def _lstrs(xs):
    return "[" + ", ".join(_lq(x) for x in xs) + "]"


def _callees(node):
    """names of all calls inside an expression in evaluation order (arguments before the call they feed)"""
    import ast

    out = []

    def walk(n):
        for ch in ast.iter_child_nodes(n):
            walk(ch)
        if isinstance(n, ast.Call):
            out.append(ast.unparse(n.func))
    if node is not None:
        walk(node)
    return out


def _stmt_tree(stmts, where, methods=None, depth=0, loopvars=None):
    """the statement skeleton of a setter as a Lean `List Stmt` literal; refuses statement kinds the analysis has no rule for.
    `methods`: the FunctionDefs of the setter's class — a private helper of the same class called as a statement (`self._helper(...)`) is
    inlined (one level); `loopvars`: loop variable -> iterable text, an attribute of a loop element gets the iterable into its name"""
    import ast

    methods = methods or {}
    loopvars = loopvars or {}
    rec = lambda body, lv=None: _stmt_tree(body, where, methods, depth, loopvars if lv is None else lv)

    def base_name(t):
        while isinstance(t, (ast.Attribute, ast.Subscript)):
            t = t.value
        return t.id if isinstance(t, ast.Name) else None

    def pure_attr(v):
        while isinstance(v, ast.Attribute):
            v = v.value
        return isinstance(v, ast.Name)

    items = []
    for st in stmts:
        if isinstance(st, ast.Expr) and isinstance(st.value, ast.Constant):
            continue  # docstring
        if isinstance(st, ast.Assign):
            cs = _callees(st.value)
            for t in st.targets:
                is_attr = not (isinstance(t, ast.Name) or (isinstance(t, ast.Tuple) and all(isinstance(e, ast.Name) for e in t.elts)))
                tt = ast.unparse(t)
                if is_attr and base_name(t) in loopvars:
                    b_ = base_name(t)
                    items.append(f".assignElem {_lq(f'{tt} [{b_} in {loopvars[b_]}]')} {_lstrs(cs)}")
                elif is_attr and isinstance(st.value, ast.Name) and len(st.targets) == 1:
                    items.append(f".restore {_lq(tt)} {_lq(st.value.id)}")          # attribute = local
                elif not is_attr and isinstance(t, ast.Name) and isinstance(st.value, ast.Attribute) and pure_attr(st.value) and len(st.targets) == 1:
                    items.append(f".save {_lq(tt)} {_lq(ast.unparse(st.value))}")  # local = attribute (a reference kept for later)
                else:
                    items.append(f".assign {_lq(tt)} {'true' if is_attr else 'false'} {_lstrs(cs)}")
                cs = []
        elif isinstance(st, ast.Expr):
            v = st.value
            if depth == 0 and isinstance(v, ast.Call) and isinstance(v.func, ast.Attribute) and isinstance(v.func.value, ast.Name) \
                    and v.func.value.id == "self" and v.func.attr.startswith("_") and v.func.attr in methods:
                arg_cs = [c for a_ in list(v.args) + [k.value for k in v.keywords] for c in _callees(a_)]
                body = _stmt_tree(methods[v.func.attr].body, f"{where} -> {v.func.attr}", methods, depth + 1, {})
                items.append(f".inline {_lq('self.' + v.func.attr)} {_lstrs(arg_cs)} {body}")
            else:
                items.append(f".expr {_lstrs(_callees(v))}")
        elif isinstance(st, ast.Raise):
            exc = st.exc.func if isinstance(st.exc, ast.Call) else st.exc
            items.append(f".raise {_lq(ast.unparse(exc) if exc is not None else '')}")
        elif isinstance(st, ast.Return):
            items.append(f".ret {_lstrs(_callees(st.value))}")
        elif isinstance(st, ast.If):
            items.append(f".ite {_lstrs(_callees(st.test))} {rec(st.body)} {rec(st.orelse)}")
        elif isinstance(st, ast.For) and not st.orelse:
            lv = dict(loopvars)
            if isinstance(st.target, ast.Name):
                lv[st.target.id] = ast.unparse(st.iter)
            items.append(f".loop {_lstrs(_callees(st.iter))} {rec(st.body, lv)}")
        elif isinstance(st, ast.Try) and len(st.handlers) == 1 and not st.orelse and not st.finalbody and st.handlers[0].name is None:
            h = st.handlers[0]
            items.append(f".tryExcept {rec(st.body)} {_lq(ast.unparse(h.type) if h.type is not None else '')} {rec(h.body)}")
        elif isinstance(st, (ast.Import, ast.ImportFrom, ast.Pass)):
            items.append(f".skip {_lq(type(st).__name__)}")
        else:
            raise Refusal(f"{where}: statement kind {type(st).__name__} has no rule in the setter-form analysis")
    return "[" + ", ".join(items) + "]"


def gen_Setters():
    """every property setter of magpylib/_src/obj_classes/*.py as a statement tree; every __init__ as a table
    (parameter -> how it is consumed); the order of the checks in getBH_level2; which dimension / excitation attribute each
    source class has; the TriangularMesh mode values; statement skeletons of the call-argument validators"""
    import ast
    import glob
    import importlib
    import inspect

    import magpylib
    from magpylib._src.utility import get_registered_sources

    odir = os.path.join(REPO, "magpylib", "_src", "obj_classes")
    setters, ctors, trees, helpers = [], [], {}, {}
    for path in sorted(glob.glob(os.path.join(odir, "class_*.py"))):
        fname = os.path.basename(path)
        tree = ast.parse(open(path).read())
        trees[fname] = tree
        mod = importlib.import_module("magpylib._src.obj_classes." + fname[:-3])
        for cls in [n for n in tree.body if isinstance(n, ast.ClassDef)]:
            real = getattr(mod, cls.name)
            cls_methods = {n.name: n for n in cls.body if isinstance(n, ast.FunctionDef) and not n.decorator_list}
            mod_funcs = {n.name: n for n in tree.body if isinstance(n, ast.FunctionDef)}
            for fn in [n for n in cls.body if isinstance(n, ast.FunctionDef)]:
                if any(isinstance(d, ast.Attribute) and d.attr == "setter" for d in fn.decorator_list):
                    params = [a.arg for a in fn.args.args]
                    if len(params) != 2:
                        raise Refusal(f"setter {cls.name}.{fn.name} does not have the signature (self, value)")
                    setters.append((fname, cls.name, fn.name, params[1], _stmt_tree(fn.body, f"{cls.name}.{fn.name}", cls_methods)))
                    # module-level private functions of the same file that the setter calls by name: their bodies go into `helpers`
                    for node in ast.walk(fn):
                        if isinstance(node, ast.Call) and isinstance(node.func, ast.Name) and node.func.id.startswith("_") and node.func.id in mod_funcs \
                                and node.func.id not in helpers:
                            helpers[node.func.id] = _stmt_tree(mod_funcs[node.func.id].body, f"{fname}:{node.func.id}", {}, 1)
                if fn.name != "__init__":
                    continue
                # ---- constructor: how each named parameter is consumed
                a = fn.args
                params = [x.arg for x in a.posonlyargs + a.args + a.kwonlyargs][1:]
                uses = {p: [] for p in params}
                for node in ast.walk(fn):
                    if isinstance(node, ast.Assign) and len(node.targets) == 1 and isinstance(node.targets[0], ast.Attribute) \
                            and isinstance(node.targets[0].value, ast.Name) and node.targets[0].value.id == "self" \
                            and isinstance(node.value, ast.Name) and node.value.id in uses:
                        attr = node.targets[0].attr
                        prop = inspect.getattr_static(real, attr, None)
                        kind = "setter" if isinstance(prop, property) and prop.fset is not None else "plain"
                        uses[node.value.id].append((kind, attr, ""))
                    elif isinstance(node, ast.Call):
                        f = node.func
                        callee = ast.unparse(f)
                        base = None
                        if isinstance(f, ast.Attribute) and f.attr == "__init__":
                            if isinstance(f.value, ast.Call) and ast.unparse(f.value) == "super()":
                                base = next(b for b in real.__mro__[1:] if "__init__" in b.__dict__)
                                args = list(node.args)
                            elif isinstance(f.value, ast.Name):
                                base = next(b for b in real.__mro__ if b.__name__ == f.value.id)
                                args = list(node.args)[1:]
                        if base is not None:
                            bparams = [p for p in inspect.signature(base.__init__).parameters.values()][1:]
                            pos = [p for p in bparams if p.kind in (p.POSITIONAL_ONLY, p.POSITIONAL_OR_KEYWORD)]
                            for i, arg in enumerate(args):
                                if isinstance(arg, ast.Name) and arg.id in uses:
                                    if i >= len(pos):
                                        raise Refusal(f"{cls.name}.__init__ passes more positional arguments than {base.__name__}.__init__ takes")
                                    uses[arg.id].append(("forward", pos[i].name, base.__name__))
                            for kw in node.keywords:
                                if kw.arg is not None and isinstance(kw.value, ast.Name) and kw.value.id in uses:
                                    uses[kw.value.id].append(("forward", kw.arg, base.__name__))
                        elif callee != "super":
                            for i, arg in enumerate(node.args):
                                if isinstance(arg, ast.Name) and arg.id in uses:
                                    uses[arg.id].append(("call", str(i), callee))
                            for kw in node.keywords:
                                if kw.arg is not None and isinstance(kw.value, ast.Name) and kw.value.id in uses:
                                    uses[kw.value.id].append(("call", kw.arg, callee))
                for p in params:
                    us = list(dict.fromkeys(uses[p]))
                    if not us:
                        us = [("unused", "", "")]
                    for kind, target, via in us:
                        ctors.append((cls.name, p, kind, target, via))
    if len(setters) < 20:
        raise Refusal(f"only {len(setters)} setters found")
    # bases of every class (MRO names), for resolving forwarded parameters
    bases = []
    for fname, tree in trees.items():
        mod = importlib.import_module("magpylib._src.obj_classes." + fname[:-3])
        for cls in [n for n in tree.body if isinstance(n, ast.ClassDef)]:
            real = getattr(mod, cls.name)
            own_init = "__init__" in real.__dict__
            nxt = next((b.__name__ for b in real.__mro__[(1 if own_init else 0):] if "__init__" in b.__dict__ and b is not object), "")
            bases.append((cls.name, own_init, nxt if not own_init else cls.name))
    # the validator call in BaseGeo._init_position_orientation (constructor path of position)
    geo = next(n for n in trees["class_BaseGeo.py"].body if isinstance(n, ast.ClassDef) and n.name == "BaseGeo")
    ipo = next(n for n in geo.body if isinstance(n, ast.FunctionDef) and n.name == "_init_position_orientation")
    pcall = next((n for n in ast.walk(ipo) if isinstance(n, ast.Call) and ast.unparse(n.func) == "check_format_input_vector"), None)
    ocall = next((n for n in ast.walk(ipo) if isinstance(n, ast.Call) and ast.unparse(n.func) == "check_format_input_orientation"), None)
    if pcall is None or ocall is None:
        raise Refusal("_init_position_orientation no longer calls check_format_input_vector / check_format_input_orientation")
    init_pos = _attr_row("BaseGeo", "position", "check_format_input_vector", _literal_kwargs(pcall))
    init_ori = (ast.unparse(ocall.args[0]), _literal_kwargs(ocall).get("init_format", False))
    pset = next(n for n in geo.body if isinstance(n, ast.FunctionDef) and n.name == "orientation"
                and any(isinstance(d, ast.Attribute) and d.attr == "setter" for d in n.decorator_list))
    ocall2 = next(n for n in ast.walk(pset) if isinstance(n, ast.Call) and ast.unparse(n.func) == "check_format_input_orientation")
    set_ori = (ast.unparse(ocall2.args[0]), _literal_kwargs(ocall2).get("init_format", False))

    # ---- getBH_level2: order of the top-level calls and of the first path assignment
    wtree = ast.parse(open(os.path.join(REPO, "magpylib", "_src", "fields", "field_wrap_BH.py")).read())
    wf = {n.name: n for n in wtree.body if isinstance(n, ast.FunctionDef)}
    l2 = wf["getBH_level2"]
    order = []

    def visit(stmts):
        for st in stmts:
            if isinstance(st, (ast.If, ast.For, ast.Try, ast.With)):
                for fld in ("test", "iter"):
                    if hasattr(st, fld):
                        order.extend(_callees(getattr(st, fld)))
                visit(st.body)
                visit(getattr(st, "orelse", []))
                for h in getattr(st, "handlers", []):
                    visit(h.body)
                visit(getattr(st, "finalbody", []))
            else:
                if isinstance(st, ast.Assign):
                    order.extend(_callees(st.value))
                    for t in st.targets:
                        if isinstance(t, ast.Attribute):
                            order.append("assign " + ast.unparse(t))
                elif isinstance(st, (ast.Expr, ast.Return, ast.Raise)):
                    order.extend(_callees(getattr(st, "value", None) or getattr(st, "exc", None)))
    visit(l2.body)
    keep = ("getBH_dict_level2", "format_src_inputs", "check_dimensions", "check_excitations", "check_format_pixel_agg", "check_format_input_observers",
            "getBH_level1", "check_getBH_output_type", "assign obj._position", "assign obj._orientation", "pixel_agg_func", "check_field_input")
    l2order = [x for x in dict.fromkeys(order) if x in keep]
    # calls anywhere in level2 / dict_level2 / level1 that look at `in_out` before the field functions (a validation would show here)
    inout_checks = []
    for name in ("getBH_level2", "getBH_dict_level2", "getBH_level1"):
        for n in ast.walk(wf[name]):
            if isinstance(n, ast.Call) and any(isinstance(a, ast.Name) and a.id == "in_out" for a in n.args):
                inout_checks.append(f"{name}: {ast.unparse(n.func)}")
    truth_tests = []
    for n in ast.walk(l2):
        if isinstance(n, ast.If) and isinstance(n.test, ast.Name) and n.test.id in ("sumup", "squeeze"):
            truth_tests.append("if " + n.test.id)
    # ---- which dimension-like / excitation-like attribute check_dimensions / check_excitations look at, per registered class
    ic_tree = ast.parse(open(os.path.join(REPO, "magpylib", "_src", "input_checks.py")).read())
    icf = {n.name: n for n in ic_tree.body if isinstance(n, ast.FunctionDef)}

    def arg_names(fn):
        for n in ast.walk(fn):
            if isinstance(n, ast.For) and isinstance(n.target, ast.Name) and n.target.id == "arg":
                return list(ast.literal_eval(n.iter))
        raise Refusal(f"{fn.name}: attribute loop not found")
    dim_names, exc_names = arg_names(icf["check_dimensions"]), arg_names(icf["check_excitations"])
    cls_attrs = []
    for name, c in sorted(get_registered_sources().items()):
        has = lambda ns: [n for n in ns if hasattr(c, n)]
        cls_attrs.append((name, has(dim_names), has(exc_names), getattr(c, "_field_func", None) is not None))
    # ---- TriangularMesh mode values
    tm = next(n for n in trees["class_magnet_TriangularMesh.py"].body if isinstance(n, ast.ClassDef) and n.name == "TriangularMesh")
    tmf = {n.name: n for n in tm.body if isinstance(n, ast.FunctionDef)}
    vals = next(ast.literal_eval(n.value) for n in tmf["_validate_mode_arg"].body if isinstance(n, ast.Assign) and ast.unparse(n.targets[0]) == "accepted_arg_vals")
    mode_vals = [repr(v) for v in vals]
    mode_users = sorted(n for n, f in tmf.items() if any(isinstance(c, ast.Call) and ast.unparse(c.func) == "self._validate_mode_arg" for c in ast.walk(f)))
    # ---- skeletons of the call-argument validators modelled in Model/CallArgs.lean
    bs = next(n for n in trees["class_BaseExcitations.py"].body if isinstance(n, ast.ClassDef) and n.name == "BaseSource")
    geof = {n.name: n for n in geo.body if isinstance(n, ast.FunctionDef)}
    skel = {"check_format_pixel_agg": _skeleton(icf["check_format_pixel_agg"]), "validate_field_func": _skeleton(icf["validate_field_func"]),
            "check_dimensions": _skeleton(icf["check_dimensions"]), "check_excitations": _skeleton(icf["check_excitations"]),
            "TriangularMesh._validate_mode_arg": _skeleton(tmf["_validate_mode_arg"]),
            "BaseGeo._process_style_kwargs": _skeleton(geof["_process_style_kwargs"]), "BaseGeo._validate_style": _skeleton(geof["_validate_style"]),
            "point_inside (in_out tests)": [], "BHJM_magnet_trimesh (in_out tests)": []}
    for key, (fpath, fname_) in {"point_inside (in_out tests)": ("field_BH_tetrahedron.py", "point_inside"),
                                 "BHJM_magnet_trimesh (in_out tests)": ("field_BH_triangularmesh.py", "BHJM_magnet_trimesh")}.items():
        t = ast.parse(open(os.path.join(REPO, "magpylib", "_src", "fields", fpath)).read())
        f = next(n for n in t.body if isinstance(n, ast.FunctionDef) and n.name == fname_)
        skel[key] = [("elif " if False else "if ") + ast.unparse(n.test) for n in ast.walk(f) if isinstance(n, ast.If) and "in_out" in ast.unparse(n.test)]

    b = lambda x: "true" if x else "false"
    row = lambda r: f'⟨"{r[0]}", "{r[1]}", "{r[2]}", {list(r[3])}, {r[4]}, {r[5]}, {b(r[6])}, {b(r[7])}, {b(r[8])}, {b(r[9])}⟩'
    body = ("import MagpyVerif.Gen.Attr\n\nnamespace MagpyVerif.Gen.Setters\n\n"
            "/-- statement skeleton of a setter body: call names in evaluation order, assignment targets (attribute / subscript target or local name),\n"
            "raises, returns, branches and loops -/\n"
            "inductive Stmt where\n  | assign (target : String) (isAttr : Bool) (callees : List String)\n"
            "  /-- `<loop element>.attr = …`: the target carries the loop's iterable -/\n  | assignElem (target : String) (callees : List String)\n"
            "  /-- `local = obj.attr` (no call): a reference kept for later -/\n  | save (loc src : String)\n"
            "  /-- `obj.attr = local` -/\n  | restore (target loc : String)\n  | expr (callees : List String)\n"
            "  | raise (exc : String)\n  | ret (callees : List String)\n  | ite (testCallees : List String) (thn els : List Stmt)\n"
            "  | loop (iterCallees : List String) (body : List Stmt)\n"
            "  /-- `try: body / except <excType>: handler` (one handler, no else / finally) -/\n  | tryExcept (body : List Stmt) (excType : String) (handler : List Stmt)\n"
            "  /-- `self._helper(args)` as a statement, helper defined in the same class: its body -/\n  | inline (callee : String) (argCallees : List String) (body : List Stmt)\n"
            "  | skip (what : String)\n  deriving Repr\n\n"
            "structure Setter where\n  file : String\n  cls : String\n  attr : String\n  param : String\n  body : List Stmt\n  deriving Repr\n\n"
            "/-- every `@x.setter` of magpylib/_src/obj_classes/class_*.py -/\n"
            "def setters : List Setter := [\n" + ",\n".join(f"  ⟨{_lq(f)}, {_lq(c)}, {_lq(a)}, {_lq(p)}, {t}⟩" for f, c, a, p, t in setters) + "]\n\n"
            "/-- module-level private functions (`_name`) of the same file that a setter calls: name and statement tree (calls are not followed further;\n"
            "a recursive call appears under the function's own name) -/\n"
            "def helpers : List (String × List Stmt) := [" + ", ".join(f"({_lq(k)}, {v})" for k, v in helpers.items()) + "]\n\n"
            "/-- every named parameter of every `__init__`: (class, parameter, kind, target, via); kind = \"setter\" (`self.<target> = <parameter>` on a property\n"
            "with a setter), \"plain\" (plain attribute), \"forward\" (passed to `<via>.__init__` as its parameter <target>, bound like Python binds the call),\n"
            "\"call\" (argument number / keyword <target> of the call of <via>), \"unused\" -/\n"
            "def ctors : List (String × String × String × String × String) := [\n" + ",\n".join(f"  ({_lq(c)}, {_lq(p)}, {_lq(k)}, {_lq(t)}, {_lq(v)})" for c, p, k, t, v in ctors) + "]\n\n"
            "/-- (class, defines its own __init__, class whose __init__ runs) -/\n"
            "def initOf : List (String × Bool × String) := [" + ", ".join(f"({_lq(c)}, {b(o)}, {_lq(n)})" for c, o, n in bases) + "]\n\n"
            "/-- the call of check_format_input_vector in BaseGeo._init_position_orientation (the constructor's path for `position`) -/\n"
            f"def initPosition : Attr.Row := {row(init_pos)}\n"
            "/-- (argument, init_format) of the check_format_input_orientation call in the constructor path / in the orientation setter -/\n"
            f"def initOrientation : String × Bool := ({_lq(init_ori[0])}, {b(init_ori[1])})\n"
            f"def setterOrientation : String × Bool := ({_lq(set_ori[0])}, {b(set_ori[1])})\n\n"
            "/-- getBH_level2: first occurrence, in source order, of the checks, of the field-function call and of the path assignments -/\n"
            f"def level2Order : List String := {_lstrs(l2order)}\n"
            "/-- calls in getBH_level2 / getBH_dict_level2 / getBH_level1 that receive `in_out` as a positional argument (a validator would show here) -/\n"
            f"def inOutChecks : List String := {_lstrs(inout_checks)}\n"
            "/-- `if sumup:` / `if squeeze:` — the flags are used by truth value only -/\n"
            f"def truthTests : List String := {_lstrs(sorted(set(truth_tests)))}\n\n"
            "/-- names looked at by check_dimensions / check_excitations, in order -/\n"
            f"def dimNames : List String := {_lstrs(dim_names)}\ndef excNames : List String := {_lstrs(exc_names)}\n"
            "/-- registered source class: which of those names it has (hasattr), and whether the class has a field function -/\n"
            "def classAttrs : List (String × List String × List String × Bool) := [" + ", ".join(f"({_lq(n)}, {_lstrs(d)}, {_lstrs(e)}, {b(f)})" for n, d, e, f in cls_attrs) + "]\n\n"
            "/-- TriangularMesh._validate_mode_arg: the accepted values (repr) and the methods that call it -/\n"
            f"def modeValues : List String := {_lstrs(mode_vals)}\ndef modeUsers : List String := {_lstrs(mode_users)}\n\n"
            "/-- statement skeletons of the validators of call arguments modelled in Model/CallArgs.lean -/\n"
            "def skeleton : List (String × List String) := [\n" + ",\n".join(f"  ({_lq(k)}, {_lstrs(v)})" for k, v in skel.items()) + "]\n\n"
            "end MagpyVerif.Gen.Setters\n")
    write("Setters", body, "setters and constructors of magpylib/_src/obj_classes/class_*.py, getBH_level2, input_checks.py (AST + reflection)")


NP_PROBE = r'''
import json, numbers, os, sys, warnings
import numpy as np
sys.stdout = open(os.devnull, "w")
warnings.simplefilter("ignore")
SKIP = {"test", "info", "show_config", "show_runtime", "lookfor", "source", "who", "save", "savetxt", "savez", "savez_compressed", "memmap", "load",
        "loadtxt", "genfromtxt", "fromfile", "seterr", "seterrcall", "setbufsize", "set_printoptions", "errstate", "printoptions", "get_include"}
rows = []
for name in sorted(dir(np)):
    x = np.array([[[(1, 2, 3)] * 2] * 3] * 4)       # the test array of check_format_pixel_agg
    try:
        f = getattr(np, name)
    except BaseException as e:
        rows.append([name, "getattr-raises", type(e).__name__, False, False]); continue
    if not callable(f):
        rows.append([name, "notcallable", "", False, False]); continue
    if name in SKIP:
        rows.append([name, "unprobed", "", False, False]); continue
    try:
        r = f(x)
    except BaseException as e:
        rows.append([name, "raises", type(e).__name__, False, False]); continue
    if not isinstance(r, numbers.Number):
        rows.append([name, "other", "", False, False]); continue
    B = np.arange(2 * 3 * 4 * 5 * 3, dtype=float).reshape(2, 3, 4, 5, 3)
    try:
        r1 = f(B, axis=tuple(range(3 - B.ndim, -1))); a1 = isinstance(r1, np.ndarray) and r1.shape == (2, 3, 4, 3)
    except BaseException:
        a1 = False
    try:
        r2 = f(B, axis=2); a2 = isinstance(r2, np.ndarray) and r2.shape == (2, 3, 5, 3)
    except BaseException:
        a2 = False
    rows.append([name, "number", "", bool(a1), bool(a2)])
sys.__stdout__.write(json.dumps({"version": np.__version__, "rows": rows}))
'''


def gen_NpNames():
    """what `getattr(np, name)(x)` does for every name of the installed numpy on the test array of check_format_pixel_agg, and, for the names
    that return a number, whether they reduce with `axis=` the way getBH_level2 calls them (probed in a fresh interpreter)"""
    import json
    import subprocess

    p = subprocess.run([sys.executable, "-c", NP_PROBE], capture_output=True, text=True, timeout=300)
    if p.returncode != 0:
        raise Refusal(f"numpy probe failed: {p.stderr[-300:]}")
    data = json.loads(p.stdout)
    b = lambda x: "true" if x else "false"
    rows = ",\n".join(f"  ({_lq(n)}, {_lq(k)}, {_lq(e)}, {b(a1)}, {b(a2)})" for n, k, e, a1, a2 in data["rows"])
    body = ("namespace MagpyVerif.Gen.NpNames\n\n"
            f"def numpyVersion : String := {_lq(data['version'])}\n\n"
            "/-- (name, what `getattr(np, name)(x)` does: \"number\" (returns a numbers.Number) | \"other\" (returns something else) | \"notcallable\" |\n"
            "\"raises\" | \"getattr-raises\" | \"unprobed\" (not called by the generator: global side effects), the exception raised,\n"
            "reduces with `axis=(-k,…,-2)` to the expected shape, reduces with `axis=2` to the expected shape) -/\n"
            f"def table : List (String × String × String × Bool × Bool) := [\n{rows}]\n\n"
            "end MagpyVerif.Gen.NpNames\n")
    write("NpNames", body, "the installed numpy (dir(numpy), probed like magpylib/_src/input_checks.py:check_format_pixel_agg does)")


def gen_Handed():
    """the handedness branch of getBH_level2: which literal selects it, which statements it holds (in-place scaling of one
    component of the sensor's own pixel slice) and whether it comes after the back-rotation into the sensor frame"""
    import ast
    import inspect
    import textwrap

    from magpylib._src.fields import field_wrap_BH

    tree = ast.parse(textwrap.dedent(inspect.getsource(field_wrap_BH.getBH_level2)))

    def mentions(node, name):
        return any(isinstance(n, ast.Attribute) and n.attr == name for n in ast.walk(node))

    def num(node):
        if isinstance(node, ast.UnaryOp) and isinstance(node.op, ast.USub):
            return -num(node.operand)
        if isinstance(node, ast.Constant) and isinstance(node.value, int) and not isinstance(node.value, bool):
            return node.value
        raise Refusal(f"handedness branch: not an integer literal: {ast.dump(node)}")

    sites, others, after_rot = [], 0, True
    for loop in ast.walk(tree):
        if not isinstance(loop, (ast.For, ast.While)):
            continue
        for pos, st in enumerate(loop.body):
            if not (isinstance(st, ast.If) and mentions(st.test, "handedness")):
                continue
            t = st.test
            if not (isinstance(t, ast.Compare) and len(t.ops) == 1 and isinstance(t.ops[0], ast.Eq) and isinstance(t.comparators[0], ast.Constant)
                    and isinstance(t.comparators[0].value, str) and mentions(t.left, "handedness")):
                raise Refusal(f"handedness test has an unexpected form: {ast.unparse(t)}")
            lit = t.comparators[0].value
            if st.orelse:
                others += len(st.orelse)
            for b in st.body:
                if (isinstance(b, ast.AugAssign) and isinstance(b.op, ast.Mult) and isinstance(b.target, ast.Subscript)
                        and isinstance(b.target.value, ast.Name) and b.target.value.id == "B" and isinstance(b.target.slice, ast.Tuple)
                        and isinstance(b.target.slice.elts[0], ast.Constant) and b.target.slice.elts[0].value is Ellipsis
                        and isinstance(b.target.slice.elts[-2], ast.Name) and b.target.slice.elts[-2].id == "pix_slice"):
                    sites.append((lit, num(b.target.slice.elts[-1]), num(b.value)))
                else:
                    others += 1
            # every write of the rotated values into B (B[:, :, pix_slice] = ...) of this loop body must come before
            for later in loop.body[pos + 1:]:
                for n in ast.walk(later):
                    if isinstance(n, (ast.Assign, ast.AugAssign)):
                        tg = n.targets if isinstance(n, ast.Assign) else [n.target]
                        if any(isinstance(x, ast.Subscript) and isinstance(x.value, ast.Name) and x.value.id == "B" for x in tg):
                            after_rot = False
    if not sites and not others:
        raise Refusal("no handedness branch found in getBH_level2")
    rows = ", ".join(f'("{l}", {a}, ({f} : Int))' for l, a, f in sites)
    body = ("namespace MagpyVerif.Gen.Handed\n\n"
            "/-- `if sens.handedness == <literal>: B[..., pix_slice, <axis>] *= <factor>` — every such statement of getBH_level2 -/\n"
            f"def flipSites : List (String × Nat × Int) := [{rows}]\n\n"
            "/-- statements under a handedness test that are NOT of that form (else branches included) -/\n"
            f"def otherStmts : Nat := {others}\n\n"
            "/-- no write into `B` follows the handedness branch inside the sensor loop (the flip acts on the rotated values) -/\n"
            f"def flipAfterRotation : Bool := {'true' if after_rot else 'false'}\n\n"
            "end MagpyVerif.Gen.Handed\n")
    write("Handed", body, "magpylib/_src/fields/field_wrap_BH.py:getBH_level2 (AST)")


GENERATORS = {"Handed": gen_Handed, "AbsLen": gen_AbsLen, "KernTrace": gen_KernTrace, "StyleTemp": gen_StyleTemp, "Const": gen_Const, "Units": gen_Units, "SensorMesh": gen_SensorMesh, "Defaults": gen_Defaults, "StyleSchema": gen_StyleSchema, "Attr": gen_Attr, "PathPad": gen_PathPad, "Exits": gen_Exits, "Ndim": gen_Ndim, "Tol": gen_Tol, "CylSegGen": gen_CylSegGen, "ExcSync": gen_ExcSync, "InOut": gen_InOut, "WriteSet": gen_WriteSet, "Setters": gen_Setters, "NpNames": gen_NpNames}


def main():
    only = None
    if "--only" in sys.argv:
        only = sys.argv[sys.argv.index("--only") + 1].split(",")
    os.makedirs(GEN_DIR, exist_ok=True)
    bad = 0
    for name, g in GENERATORS.items():
        if only and name not in only:
            continue
        try:
            g()
            print(f"GEN {name} ok")
        except Refusal as r:
            bad += 1
            print(f"GEN {name} refused {r}")
        except Exception as e:  # source no longer has the expected shape
            bad += 1
            print(f"GEN {name} refused {type(e).__name__}: {e}")
            traceback.print_exc(file=sys.stderr)
    sys.exit(1 if bad else 0)


if __name__ == "__main__":
    main()
