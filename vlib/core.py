"""Check lifecycle shared by all properties (DESIGN.md §3.4).

  1 regenerate Gen/*.lean from /repo           (refusal => broken obligation)
  2 lake build the property's Lean targets       (error   => broken obligation, theorem named)
  3 audit: forbidden tokens, #print axioms       (failure => broken obligation)
  4 correspondence model <-> real code           (diff    => broken correspondence)
  5 oracle sweep on the real code (supporting evidence; budget x10 when 1-4 broke)
  6 report: KNOWN-FINDING / VIOLATION lines, replay files
  7 evidence/<id>.json
Exit 0 iff no VIOLATION line was printed; exit 2 on internal errors / timeouts.
"""
import argparse
import fcntl
import importlib
import json
import os
import random
import re
import subprocess
import sys
import time
import traceback

ROOT = os.path.dirname(os.path.dirname(os.path.abspath(__file__)))
LEAN = os.path.join(ROOT, "lean")
REPO = os.environ.get("VERIF_REPO", "/repo")
PY = sys.executable
ALLOWED_AXIOMS = {"propext", "Classical.choice", "Quot.sound"}
FORBIDDEN = re.compile(
    # `axiom` also behind attributes / modifiers (`private axiom`, `@[simp] axiom`); `decide +native` and the axioms it rests on;
    # `extern` (like implemented_by: replaces compiled code); `sorryAx` spelled out
    r"\b(sorry|sorryAx|admit|native_decide|bv_decide|implemented_by|extern|unsafe|ofReduceBool|ofReduceNat|trustCompiler)\b"
    r"|\+native\b"
    r"|^\s*(?:@\[[^\]]*\]\s*)*(?:(?:private|protected|noncomputable|nonrec)\s+)*axiom\s"
    r"|maxHeartbeats\s+0\b",
    re.M,
)
TRUSTED_BASE = [
    "Lean 4.33.0 kernel; Mathlib v4.33.0 as compiled on this image",
    "axioms: subset of {propext, Classical.choice, Quot.sound} (audited with #print axioms each run)",
    "no sorry/admit/axiom/native_decide/bv_decide/implemented_by/unsafe (grep each run)",
    "translate/gen.py + translate/py2lean.py (generated layer Gen/*.lean)",
    "correspondence harness corr/*.py + Lean driver (differential testing; validates the hand-written model)",
    "Spec/*.lean: reading of the property statement and the docstrings",
]


def strip_comments(src: str) -> str:
    """remove Lean block comments (nested) and line comments"""
    out = []
    i, depth, n = 0, 0, len(src)
    while i < n:
        if src.startswith("/-", i):
            depth += 1
            i += 2
        elif depth and src.startswith("-/", i):
            depth -= 1
            i += 2
        elif depth:
            if src[i] == "\n":
                out.append("\n")
            i += 1
        elif src.startswith("--", i):
            while i < n and src[i] != "\n":
                i += 1
        else:
            out.append(src[i])
            i += 1
    return "".join(out)


class Ctx:
    def __init__(self, pid, tier, seed):
        self.pid, self.tier, self.seed = pid, tier, seed
        self.rng = random.Random(seed * 1000003 + sum(map(ord, pid)))
        self.broken = []  # broken obligations / correspondences
        self.failing = []  # failing inputs on the real code: dict(key, desc, replay)
        self.cov = {}
        self.t0 = time.time()
        self.assumptions = []

    @property
    def thorough(self):
        return self.tier == "thorough"

    def scale(self, quick, thorough):
        return thorough if self.thorough else quick

    def log(self, *a):
        print(f"[{self.pid} {time.time()-self.t0:6.1f}s]", *a, flush=True)


def sh(cmd, cwd=None, timeout=1800, env=None, input=None):
    e = dict(os.environ)
    e.setdefault("MAGPYLIB_VERIF", "1")
    if env:
        e.update(env)
    try:
        p = subprocess.run(cmd, cwd=cwd, capture_output=True, text=True, timeout=timeout, env=e, input=input)
        return p.returncode, p.stdout, p.stderr
    except subprocess.TimeoutExpired as t:
        return 124, (t.stdout or b"").decode() if isinstance(t.stdout, bytes) else (t.stdout or ""), "timeout"


class LakeLock:
    def __enter__(self):
        os.makedirs(os.path.join(LEAN, ".lake"), exist_ok=True)
        self.f = open(os.path.join(LEAN, ".lake", "verif.lock"), "w")
        fcntl.flock(self.f, fcntl.LOCK_EX)
        return self

    def __exit__(self, *a):
        fcntl.flock(self.f, fcntl.LOCK_UN)
        self.f.close()


def regenerate(ctx, gens):
    if not gens:
        return
    rc, out, err = sh([PY, os.path.join(ROOT, "translate", "gen.py"), "--only", ",".join(gens)], env={"VERIF_REPO": REPO})
    for line in out.splitlines():
        if line.startswith("GEN ") and " refused" in line:
            ctx.broken.append({"kind": "translator-refusal", "name": line.split()[1], "detail": line})
    if rc and not ctx.broken:
        ctx.broken.append({"kind": "translator-refusal", "name": ",".join(gens), "detail": (out + err)[-2000:]})
    ctx.cov["generated_modules"] = gens


_DECL_RE = re.compile(
    r"^\s*(?:[^\n]*?\bin\s+)?(?:@\[[^\]]*\]\s*)*(?:(?:private|protected|nonrec|noncomputable)\s+)*(theorem|lemma)\s+([^\s:(\[{]+)")
_KW_RE = re.compile(r"(?<![\w.'])(theorem|lemma)\s+[^\s:(\[{]")


def theorems_in(path, problems=None):
    """fully qualified names of every `theorem` / `lemma` of a Props file.  Tracks nested `namespace … end`
    (sections are scopes too), accepts attributes and modifiers in front of the keyword, and cross-checks the
    number of names found against the number of `theorem`/`lemma` keywords in the comment-stripped source: a
    declaration this parser cannot name is reported in `problems` (⇒ broken obligation) instead of silently
    escaping the `#print axioms` audit."""
    src = strip_comments(open(path).read())
    stack = []  # (kind, name)
    names = []
    for line in src.splitlines():
        m = re.match(r"^\s*(namespace|section|mutual)\b\s*([^\s]*)", line)  # `mutual … end` is a scope too
        if m:
            stack.append((m.group(1), m.group(2)))
            continue
        m = re.match(r"^\s*end\b\s*([^\s]*)", line)
        if m and stack:
            stack.pop()
            continue
        m = _DECL_RE.match(line)
        if m:
            ns = ".".join(n for k, n in stack if k == "namespace" and n)
            nm = m.group(2)
            if nm.startswith("_root_."):
                names.append(nm[len("_root_."):])
            else:
                names.append((ns + "." if ns else "") + nm)
            if problems is not None and re.search(r"\bprivate\s+(theorem|lemma)\b", line):
                problems.append(f"{os.path.basename(path)}: private {m.group(1)} {nm} cannot be audited by name from outside the module")
    n_kw = len(_KW_RE.findall(src))
    if problems is not None and n_kw != len(names):
        problems.append(f"{os.path.basename(path)}: {n_kw} theorem/lemma keywords but {len(names)} names parsed "
                        "(a declaration does not start its own line, or uses a form the audit parser does not know)")
    return names


def enclosing_decl(path, line):
    try:
        lines = open(path).read().splitlines()
    except OSError:
        return None
    for i in range(min(line, len(lines)) - 1, -1, -1):
        m = re.match(r"\s*(?:private\s+|protected\s+|@\[[^\]]*\]\s*)*(theorem|lemma|def|example|instance|abbrev)\s+([^\s:(\[{]+)?", lines[i])
        if m:
            return f"{m.group(1)} {m.group(2) or ''}".strip()
    return None


def lake_build(ctx, targets):
    with LakeLock():
        rc, out, err = sh(["lake", "build"] + targets, cwd=LEAN, timeout=3000)
    if rc:
        txt = out + err
        seen = set()
        for m in re.finditer(r"error: ([^\s:]+\.lean):(\d+):(\d+): (.*)", txt):
            f, ln, msg = m.group(1), int(m.group(2)), m.group(4)
            decl = enclosing_decl(os.path.join(LEAN, f), ln)
            key = (f, decl)
            if key in seen:
                continue
            seen.add(key)
            ctx.broken.append({"kind": "proof-broken", "name": f"{f}:{decl}", "detail": f"{f}:{ln}: {msg[:300]}"})
        if not seen:
            ctx.broken.append({"kind": "build-failed", "name": " ".join(targets), "detail": txt[-1500:]})
    return rc == 0


def lake_build_quiet(targets):
    with LakeLock():
        rc, out, err = sh(["lake", "build"] + targets, cwd=LEAN, timeout=3000)
    return rc == 0


def audit(ctx, props_modules):
    """forbidden-token grep over all project sources + #print axioms over the property theorems"""
    obligations, discharged = [], []
    bad_tokens = []
    for dp, _, fs in os.walk(LEAN):
        if ".lake" in dp:
            continue
        for f in fs:
            if f.endswith(".lean"):
                p = os.path.join(dp, f)
                for m in FORBIDDEN.finditer(strip_comments(open(p).read())):
                    bad_tokens.append(f"{os.path.relpath(p, LEAN)}: {m.group(0).strip()}")
    for b in bad_tokens:
        ctx.broken.append({"kind": "forbidden-token", "name": b, "detail": b})
    names, problems = [], []
    for mod in props_modules:
        found = theorems_in(os.path.join(LEAN, *mod.split(".")) + ".lean", problems)
        if not found:
            problems.append(f"{mod}: no theorem found — nothing would be audited")
        names += found
    for pr in problems:
        ctx.broken.append({"kind": "audit-parse", "name": pr.split(":")[0], "detail": pr})
    if len(set(names)) != len(names):
        dup = sorted({n for n in names if names.count(n) > 1})
        ctx.broken.append({"kind": "audit-parse", "name": ",".join(dup)[:200], "detail": "theorem names parsed twice (namespace tracking lost?)"})
    obligations = names
    os.makedirs(os.path.join(LEAN, "Audit"), exist_ok=True)
    ap = os.path.join(LEAN, "Audit", f"{ctx.pid}.lean")
    with open(ap, "w") as f:
        for mod in props_modules:
            f.write(f"import {mod}\n")
        for n in names:
            f.write(f"#print axioms {n}\n")
    rc, out, err = sh(["lake", "env", "lean", ap], cwd=LEAN, timeout=1200)
    txt = out + err
    if rc != 0:
        # every missing name is reported below as well; this line makes a crash / timeout of the audit run itself visible
        ctx.broken.append({"kind": "audit-run", "name": f"Audit/{ctx.pid}.lean", "detail": f"lean exited {rc}: " + txt[-600:]})
    axioms_used = set()
    for n in names:
        m = re.search(r"'" + re.escape(n) + r"' (does not depend on any axioms|depends on axioms: \[([^\]]*)\])", txt)
        if not m:
            ctx.broken.append({"kind": "audit-missing", "name": n, "detail": "no #print axioms output: " + txt[-400:]})
            continue
        ax = set(a.strip() for a in (m.group(2) or "").replace("\n", " ").split(",") if a.strip())
        axioms_used |= ax
        if ax - ALLOWED_AXIOMS:
            ctx.broken.append({"kind": "axiom", "name": n, "detail": f"uses {sorted(ax - ALLOWED_AXIOMS)}"})
        else:
            discharged.append(n)
    ctx.cov["obligations"] = len(obligations)
    ctx.cov["discharged"] = len(discharged)
    ctx.cov["obligation_names"] = obligations
    ctx.cov["axioms_used"] = sorted(axioms_used)
    ctx.cov["checker_cmd"] = f"cd lean && lake build {' '.join(props_modules)} && lake env lean Audit/{ctx.pid}.lean"
    return obligations, discharged


def leanchecker(ctx, props_modules):
    rc, out, err = sh(["lake", "env", "leanchecker"] + props_modules, cwd=LEAN, timeout=3000)
    ctx.cov["leanchecker"] = "ok" if rc == 0 else "failed"
    if rc:
        ctx.broken.append({"kind": "leanchecker", "name": " ".join(props_modules), "detail": (out + err)[-800:]})


def load_known():
    p = os.path.join(ROOT, "known_findings.json")
    if not os.path.exists(p):
        return {"findings": [], "fixed": []}
    return json.load(open(p))


def write_replay(ctx, name, payload):
    os.makedirs(os.path.join(ROOT, "replays"), exist_ok=True)
    safe = re.sub(r"[^A-Za-z0-9_.-]+", "_", name)[:80]
    p = os.path.join(ROOT, "replays", f"{ctx.pid}_{safe}.json")
    with open(p, "w") as f:
        json.dump(payload, f, indent=1, default=str)
    return os.path.relpath(p, ROOT)


_COUNT_KEYS = ("cases", "rows", "histories", "ops", "meshes", "batches", "instances", "lines", "segfacet_rows", "selfint_rows",
               "soups", "names")  # audit2: `soups` (C13 mesh_unique) and `names` (C18 label) had no recognised count field


def _own_counts(v):
    """(has_count_field, total) over the top level of one statistics dict only"""
    has, tot = False, 0
    if isinstance(v, dict):
        for k, x in v.items():
            if k in _COUNT_KEYS and isinstance(x, int) and not isinstance(x, bool):
                has, tot = True, tot + x
    return has, tot


def _stream_counts(v, depth=0):
    """(has_count_field, total) of a correspondence statistics dict (one level of nesting allowed)"""
    has, tot = False, 0
    if isinstance(v, dict):
        for k, x in v.items():
            if k in _COUNT_KEYS and isinstance(x, int) and not isinstance(x, bool):
                has, tot = True, tot + x
            elif isinstance(x, dict) and depth < 1:
                h2, t2 = _stream_counts(x, depth + 1)
                has, tot = has or h2, tot + t2
    return has, tot


def check_streams(ctx):
    """a check must not pass without having compared anything: with a built driver at least one correspondence stream
    must have run, and no stream may report zero compared items.
    audit2: (a) a dict OF streams (C18: {"forest": …, "label": …, "forestattr": …}, no count field of its own) is checked
    per member — before, one busy member hid an empty one because the totals were added up; (b) a statistics dict in
    which no count field is recognised at all is reported instead of being passed unexamined."""
    if not getattr(ctx, "driver_ok", False):
        return
    streams = {k: v for k, v in ctx.cov.items() if k.startswith("correspondence") and not k.endswith("samples")}
    if not any(isinstance(v, dict) for v in streams.values()):
        ctx.broken.append({"kind": "no-stream", "name": ctx.pid, "detail": "driver built but no correspondence stream statistics recorded"})
    for k, v in streams.items():
        if isinstance(v, str):
            ctx.broken.append({"kind": "empty-stream", "name": k, "detail": v})
        elif isinstance(v, dict):
            has, tot = _stream_counts(v)
            if has and tot == 0:
                ctx.broken.append({"kind": "empty-stream", "name": k, "detail": "stream compared zero items"})
            own_has, _ = _own_counts(v)
            if not own_has:
                members = {kk: _own_counts(vv) for kk, vv in v.items() if isinstance(vv, dict)}
                counted = {kk: c for kk, c in members.items() if c[0]}
                for kk, (_, t) in counted.items():
                    if t == 0:
                        ctx.broken.append({"kind": "empty-stream", "name": f"{k}/{kk}", "detail": "member stream compared zero items"})
                if not counted and v:
                    ctx.broken.append({"kind": "uncounted-stream", "name": k,
                                       "detail": "no recognised count field (" + ", ".join(_COUNT_KEYS) + "): cannot tell whether anything was compared"})


def finish(ctx, level_text=""):
    """print KNOWN-FINDING / VIOLATION lines, write evidence, return exit code"""
    known = [k for k in load_known()["findings"] if k["property"] == ctx.pid]
    known_keys = {k["key"]: k for k in known}
    violations = 0
    reported = set()
    unknown_failing = []
    # deterministic replay of every listed finding of this property (oracles/known.py): printed on every run while it reproduces
    try:
        from oracles import known as known_replays
    except Exception as e:  # noqa: BLE001
        known_replays = None
        if known:
            print(f"note: oracles/known.py could not be imported ({type(e).__name__}: {str(e)[:120]}); listed findings are not replayed")
    for k in known:
        if known_replays is None or any(f["key"] == k["key"] for f in ctx.failing):
            continue
        still, detail = known_replays.replay(ctx.pid, k["key"])
        if still:
            ctx.failing.append({"key": k["key"], "desc": k.get("desc", ""), "replay": detail})
        else:
            print(f"note: listed finding {k['key']} did not reproduce in its fixed replay ({'no replay registered / error' if still is None else 'no longer failing'}: {str(detail)[:160]})")
    for f in ctx.failing:
        if f["key"] in known_keys:
            if f["key"] not in reported:
                print(f"KNOWN-FINDING: property={ctx.pid} {f['key']}: {known_keys[f['key']].get('desc', f.get('desc',''))}")
                reported.add(f["key"])
        else:
            unknown_failing.append(f)
    seen = set()
    for f in unknown_failing:
        if f["key"] in seen:
            continue
        seen.add(f["key"])
        rp = write_replay(ctx, f["key"], {"kind": "failing-input", "property": ctx.pid, "seed": ctx.seed, "tier": ctx.tier, **f,
                                          "broken": ctx.broken})
        print(f"VIOLATION property={ctx.pid} replay={rp}")
        violations += 1
    if ctx.broken and not unknown_failing:
        rp = write_replay(ctx, "broken-obligation", {
            "kind": "broken-obligation" if any(b["kind"] != "correspondence" for b in ctx.broken) else "broken-correspondence",
            "property": ctx.pid, "seed": ctx.seed, "tier": ctx.tier, "broken": ctx.broken,
            "note": "the property is no longer shown to hold: the listed theorem / correspondence stream no longer checks; "
                    "the failing-input search on the real code found no concrete violating input"})
        print(f"VIOLATION property={ctx.pid} replay={rp} no-failing-input-found")
        violations += 1
    for b in ctx.broken:
        print(f"BROKEN {b['kind']} {b['name']}: {str(b['detail'])[:300]}")
    cov = dict(ctx.cov)
    cov.setdefault("obligations", 0)
    cov.setdefault("discharged", 0)
    cov.setdefault("checker_cmd", "cd lean && lake build")
    cov["trusted_base"] = TRUSTED_BASE
    cov["broken"] = ctx.broken
    cov["known_findings_reported"] = sorted(reported)
    ev = {
        "property_id": ctx.pid,
        "tier": ctx.tier,
        "seed": ctx.seed,
        "level": "proof",
        "coverage": cov,
        "assumptions": ctx.assumptions,
        "wall_s": round(time.time() - ctx.t0, 2),
        "violations": violations,
    }
    os.makedirs(os.path.join(ROOT, "evidence"), exist_ok=True)
    with open(os.path.join(ROOT, "evidence", f"{ctx.pid}.json"), "w") as f:
        json.dump(ev, f, indent=1, default=str)
    print(f"{ctx.pid} tier={ctx.tier} seed={ctx.seed} obligations={cov['obligations']} discharged={cov['discharged']} "
          f"broken={len(ctx.broken)} failing={len(ctx.failing)} violations={violations} wall={ev['wall_s']}s")
    return 1 if violations else 0


def main():
    ap = argparse.ArgumentParser()
    ap.add_argument("prop")
    ap.add_argument("--tier", default=os.environ.get("VERIF_TIER", "quick"))
    ap.add_argument("--replay")
    a = ap.parse_args()
    seed = int(os.environ.get("VERIF_SEED", "0"))
    sys.path.insert(0, ROOT)
    sys.path.insert(0, REPO)
    os.environ.setdefault("MAGPYLIB_VERIF", "1")
    mod = importlib.import_module(f"checks.{a.prop}")
    ctx = Ctx(a.prop, a.tier, seed)
    try:
        replay_payload = None
        if a.replay:
            # a replay re-executes: (1) a listed finding's fixed reproducer, if the file names one; otherwise (2) the whole check at
            # the tier and seed recorded in the file (all randomness derives from the seed, so the same cases are generated) and
            # reports whether the recorded failing key / broken obligation shows again.  Exit 1 iff it reproduces.
            replay_payload = json.load(open(a.replay))
            print(json.dumps({k: v for k, v in replay_payload.items() if k != "broken"}, indent=1, default=str)[:3000])
            key = replay_payload.get("key")
            if key:
                try:
                    from oracles import known as known_replays
                    still, detail = known_replays.replay(a.prop, key)
                except Exception as e:  # noqa: BLE001
                    still, detail = None, str(e)
                if still is not None:
                    print(f"REPLAY {a.prop} {key}: fixed reproducer {'still fails' if still else 'no longer fails'}: {str(detail)[:300]}")
                    sys.exit(1 if still else 0)
            ctx = Ctx(a.prop, replay_payload.get("tier", "quick") if replay_payload.get("tier") in ("quick", "thorough") else "quick",
                      int(replay_payload.get("seed", seed)))
        regenerate(ctx, getattr(mod, "GEN", []))
        drv = lake_build_quiet(["driver"])
        ctx.driver_ok = drv
        if not drv:
            # without the driver every correspondence stream is skipped by the checks (`if ctx.driver_ok`): the model would
            # no longer be compared with the code, which must not pass silently (a stale binary is never used either)
            ctx.broken.append({"kind": "driver-build", "name": "driver", "detail": "lake build driver failed: correspondence streams not run"})
        ok = lake_build(ctx, mod.LEAN_TARGETS + ([] if not drv else ["driver"]))
        if ok:
            audit(ctx, mod.PROPS)
            if ctx.thorough:
                leanchecker(ctx, mod.PROPS)
        else:
            ctx.cov["obligations"] = len(sum((theorems_in(os.path.join(LEAN, *m.split(".")) + ".lean") for m in mod.PROPS), []))
            ctx.cov["discharged"] = 0
        try:
            mod.run(ctx, model_ok=ok)
        except Exception as e:  # the real code (or the harness on top of it) raised where the unchanged tree does not
            tb = traceback.format_exc()
            frames = [ln.strip() for ln in tb.splitlines() if ln.strip().startswith("File ")]
            where = next((f for f in reversed(frames) if "/magpylib/" in f), frames[-1] if frames else "")
            ctx.failing.append({"key": f"unexpected-exception:{type(e).__name__}",
                                "desc": f"{type(e).__name__}: {str(e)[:200]} raised at {where[:160]} while the check exercised the real code",
                                "replay": {"traceback_tail": tb[-1500:]}})
        check_streams(ctx)
        if replay_payload is not None:
            want_key = replay_payload.get("key")
            want_broken = {b.get("name") for b in replay_payload.get("broken", [])}
            got_keys = {f["key"] for f in ctx.failing}
            got_broken = {b.get("name") for b in ctx.broken}
            again = (want_key in got_keys) if want_key else bool(want_broken & got_broken)
            print(f"REPLAY {a.prop} seed={ctx.seed}: recorded {'key ' + want_key if want_key else 'broken obligations ' + str(sorted(want_broken))[:200]} "
                  f"{'REPRODUCED' if again else 'did not reproduce'} (failing now: {sorted(got_keys)[:6]}, broken now: {sorted(got_broken)[:6]})")
            sys.exit(1 if again else 0)
        sys.exit(finish(ctx))
    except SystemExit:
        raise
    except Exception:
        traceback.print_exc()
        sys.exit(2)
