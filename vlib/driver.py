"""run lines through the compiled Lean driver (lean/.lake/build/bin/driver)"""
import os
import subprocess

from .core import LEAN

EXE = os.path.join(LEAN, ".lake", "build", "bin", "driver")


def run_driver(lines, timeout=600):
    data = "\n".join(lines) + "\n"
    p = subprocess.run([EXE], input=data, capture_output=True, text=True, timeout=timeout)
    if p.returncode != 0:
        raise RuntimeError(f"driver exited {p.returncode}: {p.stderr[-500:]}")
    out = p.stdout.split("\n")
    if out and out[-1] == "":
        out.pop()
    if len(out) != len(lines):
        raise RuntimeError(f"driver returned {len(out)} lines for {len(lines)} inputs")
    return out
