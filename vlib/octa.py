"""the 24 proper rotations of the cube as integer matrices (exact data for discrete families)"""
import itertools

import numpy as np
from scipy.spatial.transform import Rotation as R


def _all():
    out = []
    for perm in itertools.permutations(range(3)):
        for signs in itertools.product((1, -1), repeat=3):
            m = np.zeros((3, 3), dtype=int)
            for i, (p, s) in enumerate(zip(perm, signs)):
                m[i, p] = s
            if round(np.linalg.det(m)) == 1:
                out.append(m)
    return out


OCTA = _all()
assert len(OCTA) == 24


def snap_matrix(m, tol=1e-6):
    r = np.rint(m)
    if np.max(np.abs(m - r)) > tol:
        raise ValueError(f"rotation matrix not on the integer grid: {m}")
    return r.astype(int)


def snap_vec(v, tol=1e-6):
    r = np.rint(v)
    if np.max(np.abs(v - r)) > tol * max(1.0, float(np.max(np.abs(v)))):
        raise ValueError(f"vector not on the integer grid: {v}")
    return r.astype(int)


def rot_from(mats):
    """scipy Rotation from one (3,3) or a list of integer matrices"""
    a = np.array(mats, dtype=float)
    return R.from_matrix(a)


def fmt_mat(m):
    return " ".join(str(int(x)) for x in np.asarray(m).reshape(-1))


def fmt_vec(v):
    return " ".join(str(int(x)) for x in np.asarray(v).reshape(-1))
