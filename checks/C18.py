"""C18 — copy() yields an equal, fully independent, parentless object"""
from corr import forest_family
from oracles import c18 as oracle

GEN = []
LEAN_TARGETS = ["MagpyVerif.Props.C18"]
PROPS = ["MagpyVerif.Props.C18"]


def run(ctx, model_ok):
    budget = 5 if len(ctx.broken) else 1
    # tie of the tree-level copy model (Forest.copy / stepC) and of the label model to the real code
    st, inv_fail = forest_family.run_stream(ctx, ctx.scale(150, 4000) * budget, ctx.scale(18, 24), want_model=ctx.driver_ok, p_copy=0.25)
    ctx.failing += inv_fail
    lst = forest_family.run_label_stream(ctx, ctx.scale(1500, 40000) * budget, ctx.scale(150, 2000), want_model=ctx.driver_ok)
    forest_samples = st.pop("samples")
    label_samples = lst.pop("samples")
    ctx.cov["correspondence"] = {"forest": st, "label": lst}
    ctx.cov["corr_samples"] = {"forest": forest_samples, "label": label_samples}
    ctx.assumptions += ["the objects of a copied tree are numbered in pre-order of the copy's own _children lists (harness convention; "
                        "the model numbers the clones in pre-order of the original's children lists) — equality of all dumps shows the two orders agree",
                        "labels outside the generated alphabet (Unicode decimal digits, a trailing newline, which Python's `\\d+$` treats specially) are not modelled"]
    fails, ost = oracle.sweep(ctx, ctx.scale(64, 3000) * budget)
    ctx.failing += fails
    ctx.cov["oracle"] = ost
    ctx.cov["evaluations"] = ost["c18_copies"]
    ctx.cov["distinct_nontrivial"] = ost["c18_copies"]
    ctx.cov["rule"] = ("forest stream: seeded histories over 3-8 objects mixing add/remove/parent=/children=/typed setters/`+` with copy() of leaves, flat and nested, owned and free collections, "
                       "later operations addressing the clones (incl. copies of copies), every dump compared with Forest.stepC; label stream: add_iteration_suffix and obj.copy().style.label on generated names "
                       "(letters/digits/underscores, digit runs of width 1-4 with 9/99/999/9999 roll-over, all-digit and empty names, unlabelled originals); oracle: "
                       "copies of every class, sensors, flat and nested collections, with/without parent, lazily created or initialised styles, keyword overrides, "
                       "4 label shapes; each copy followed by mutation of both sides; every case has fresh random geometry/paths")
    ctx.cov["traces_validated_against_impl"] = ost["c18_copies"]
    ctx.cov["samples"] = [ost]
    ctx.cov["not_shown"] = ["attribute equality, same field and absence of shared mutable state in the CPython heap: interpreter-level oracle (reachable-graph walk, np.shares_memory, mutate-and-diff)",
                            "the Forest model has no attributes at all: 'same class' is the only attribute-level fact proved (copy_subtree_iso: kind); geometry, excitation, path, pixels, "
                            "style VALUES of the copy, keyword overrides (copy(position=...), style_label=...) acting on the copy only, and lazily un-initialised styles other than the label rule "
                            "(copy_label_spec) are oracle only",
                            "'any later change to either is invisible to the other' is proved only in the form 'no parent/children/view link crosses between old and new ids' "
                            "(copy_shares_no_node) plus C11-preservation for later tree operations; later path operations / attribute writes are outside the model"]


def replay(ctx, payload):
    import json
    print(json.dumps(payload, indent=1, default=str)[:4000])
    return 0
