"""C18 — copy() yields an equal, fully independent, parentless object"""
from corr import forest_family
from oracles import c18 as oracle

GEN = []
LEAN_TARGETS = ["MagpyVerif.Props.C18"]
PROPS = ["MagpyVerif.Props.C18"]


def run(ctx, model_ok):
    budget = 5 if len(ctx.broken) else 1
    # tie of the tree-level copy model (Forest.copy / stepC) and of the label model to the real code
    st, inv_fail = forest_family.run_stream(ctx, ctx.scale(150, 4000) * budget, ctx.scale(18, 24), want_model=ctx.driver_ok, p_copy=0.25)
    ctx.failing += inv_fail
    lst = forest_family.run_label_stream(ctx, ctx.scale(1500, 40000) * budget, ctx.scale(150, 2000), want_model=ctx.driver_ok)
    # tie of the attributed model (Model/ForestAttr.lean: containers as heap cells, paths, style, copy(**kwargs), later mutations)
    ast, afail = forest_family.run_attr_stream(ctx, ctx.scale(120, 3000) * budget, ctx.scale(16, 22), want_model=ctx.driver_ok)
    ctx.failing += afail
    forest_samples = st.pop("samples")
    label_samples = lst.pop("samples")
    attr_samples = ast.pop("samples")
    ctx.cov["correspondence"] = {"forest": st, "label": lst, "forestattr": ast}
    ctx.cov["corr_samples"] = {"forest": forest_samples, "label": label_samples, "forestattr": attr_samples}
    ctx.assumptions += ["the objects of a copied tree are numbered in pre-order of the copy's own _children lists (harness convention; "
                        "the model numbers the clones in pre-order of the original's children lists) — equality of all dumps shows the two orders agree",
                        "forestattr stream: containers are identified on the real side by id() of the ultimate base array / the Rotation / the style object (all kept alive), numbered by first "
                        "occurrence over the history on both sides; a style object that a REJECTED add/remove creates as a side effect (repr() in the message evaluates obj.style) is shown as a style read "
                        "following the operation (the two commute: they write to different parts of the state)",
                        "values are integer-valued (positions in Z^3, octahedral rotations, integer excitations/dimensions); validity of values (positive dimensions, ...) is C17's subject, the model "
                        "does not validate; `_style_kwargs` and the children lists are represented by value (record field / forest), not as heap cells",
                        "a copy that raises part-way: both sides keep the objects made by deepcopy(self) as (possibly unreferenced) objects; the real ones are obtained by wrapping copy.deepcopy during the call",
                        "labels outside the generated alphabet (Unicode decimal digits, a trailing newline, which Python's `\\d+$` treats specially) are not modelled"]
    fails, ost = oracle.sweep(ctx, ctx.scale(64, 3000) * budget)
    ctx.failing += fails
    ctx.cov["oracle"] = ost
    ctx.cov["evaluations"] = ost["c18_copies"]
    ctx.cov["distinct_nontrivial"] = ost["c18_copies"]
    ctx.cov["rule_forestattr"] = ("forestattr stream: objects of 6 classes constructed from integer specs (paths of length 1-3, style keyword arguments pending for half of them); per history 16-22 operations: "
                                  "tree operations, move/rotate (scalar and vector input, start, anchors) and position= on leaves and populated collections, attribute / scalar / style writes, copy(**kwargs) "
                                  "with position / orientation (None, single rotation, path) / array / scalar / style_label / style property / parent= (None, a collection, a non-collection) / children= (the original's own children, any objects, "
                                  "refused lists) overrides and values the setter rejects (copy raises part-way: the objects made by the deep copy are taken hold of through a deepcopy hook and stay in the comparison, so that "
                                  "'is a half-built copy still referenced' is read off the dump) in random keyword order, orientation= as a direct assignment on leaves and populated collections, of leaves and (nested, owned) collections with realised, pending or absent styles; "
                                  "later operations on both sides; after every operation all values, tree links, *_all views and container identities of all objects are compared; op distribution in correspondence.forestattr")
    ctx.cov["rule"] = ("forest stream: seeded histories over 3-8 objects mixing add/remove/parent=/children=/typed setters/`+` with copy() of leaves, flat and nested, owned and free collections, "
                       "later operations addressing the clones (incl. copies of copies), every dump compared with Forest.stepC; label stream: add_iteration_suffix and obj.copy().style.label on generated names "
                       "(letters/digits/underscores, digit runs of width 1-4 with 9/99/999/9999 roll-over, all-digit and empty names, unlabelled originals); oracle: "
                       "copies of every class, sensors, flat and nested collections, with/without parent, lazily created or initialised styles, keyword overrides, "
                       "4 label shapes; each copy followed by mutation of both sides; every case has fresh random geometry/paths")
    ctx.cov["traces_validated_against_impl"] = ost["c18_copies"]
    ctx.cov["samples"] = [ost]
    ctx.cov["not_shown"] = ["same field (C06 gives: the field is a function of the attribute values that copy_attrs_equal shows equal); whether CPython objects outside the eight modelled "
                            "containers (_position, _orientation, _polarization, _dimension, _moment, _pixel, _style, the _children list object) share state (class-level mutables, _magnetization, mesh caches, nested style sub-objects, custom 3d traces): interpreter-level oracle "
                            "(reachable-graph walk, np.shares_memory, mutate-and-diff) and the per-operation overlap test of the forestattr stream",
                            "PROVED NOW (copy_kw_eq_assignments): copy(**kw) = plain copy + the assignments in keyword order, for every read of every object, any keywords "
                            "(position / orientation incl. None and paths / arrays / scalars / style_label / style properties / parent= / children= / rejected values). SURPRISING but as coded "
                            "(proved / witnessed on literals, compared on every run by the forestattr stream): (i) copy(parent=col) ADDS the copy to col — an override that edits another object; "
                            "(ii) col.copy(children=col.children) MOVES the children away from the original (it is emptied) and the deep-copied children become garbage; a later position= / orientation= "
                            "keyword in the same call then moves / rotates those OLD objects — 'overrides are applied to the copy only' does not hold for children= (copy_kw_frame states what is untouched: "
                            "every tree that contains neither the original nor a named object); (iii) copy(parent=col, position=bad) raises and leaves the half-built, labelled copy as a child of col "
                            "(halfbuilt_copy_reachable_after_parent_kw); without parent= / children= a raising copy leaves no trace (copy_raise_original_unchanged); (iv) a raising copy (e.g. children=[x, x]) "
                            "may create the style object of an OLD object through repr() in the error message (no read changes)",
                            "NOT MODELLED: children= on the copy of a NON-collection and misspelt keywords (copy(positon=...)): setattr creates a plain instance attribute, nothing raises — and a later "
                            "position= then moves the objects of that ad-hoc `children` attribute (getattr(self, 'children', [])); a rejected STYLE keyword value (raises inside the final style.update, after "
                            "all other keywords took effect; partial style update of a half-built copy); `style=` dict keyword; rotate_from_* forms",
                            "`_style_kwargs` dictionaries and `_children` lists as heap cells (represented by value / by the forest; link disjointness is copy_shares_no_node)",
                            # audit2
                            "what is theorem and what is stream in (c): Model copy0 hands every clone a block of fresh addresses BY DEFINITION (that is the assumption 'deepcopy clones every container'); "
                            "copy_heap_disjoint / reachable_wf prove that the model's allocator never hands out an address twice through the label step, the keyword setters and every later operation. "
                            "That the REAL copy() produces new container objects is observed, not proved: forestattr stream (id() of base array / Rotation / style / list after every operation, exact) and the oracle's graph walk",
                            "user writes INTO a container handed out by a getter (`obj.polarization[0] = 5`, `obj.position[...] = ...`: the getters return the stored array / a view of it) are not operations of the model: "
                            "in-place writes exist only for _position (move / rotate without padding) and _style; _orientation, the four array attributes and the list cell are only ever rebound, so for THOSE "
                            "slots later_ops_invisible would hold even if copy() shared them — their independence rests on copy_heap_disjoint (model allocation) + observed identities + np.shares_memory, not on the history theorem",
                            "operations outside the history alphabet AOp: reset_path, rotate_from_*, style= assignment, nested style properties (orientation= IS an operation since the keyword round: AOp.setOri, frame lemma setOri_step; "
                            "setters raising part-way inside copy(**kw) are modelled by copyKwG: copy_bad_value_raises, copy_raise_original_unchanged); classes outside the six modelled "
                            "(Cuboid, Circle, Dipole, Sphere, Sensor, Collection: e.g. Cylinder, CylinderSegment, Tetrahedron, Triangle, TriangularMesh with _faces/_vertices/status caches, Polyline, CustomSource with field_func) are oracle only",
                            "later_ops_invisible needs the whole later history to name objects of ONE side only; histories working on both sides are covered by other_trees_untouched(_reachable) as long as the objects "
                            "stay in different trees (any reachable state, any parent-closed set). Once a clone is put into the same tree as its original (clone added under the original's collection) "
                            "no theorem separates the two any more (operations on the common ancestor legitimately reach both; that a move of the clone alone leaves its sibling original alone is stream only)",
                            "the copied object itself under keywords: copy_attrs_equal is silent (class only) for kw != []; copy_root_unnamed_slots: containers no keyword names read as the original's; "
                            "the value of a named slot, the scalars under scalar keywords and the style under style_* keywords: since the keyword round copy_kw_eq_assignments gives them as 'plain copy, then the assignments in keyword order' "
                            "(every read of every object); the assignment operations themselves (setPos / setOri / setArr / setScal / setStyle) are model functions tied by the stream; "
                            "keywords outside Ov: style=<dict>, nested style_a_b keywords, arbitrary names (setattr creates a plain attribute on the copy, e.g. Sensor.copy(polarization=...))",
                            "'same field' is NOT a theorem: the view compared by copy_attrs_equal has class, path, the four arrays, three scalars and label/opacity/color; real objects also hold _magnetization "
                            "(a separate array kept in sync with _polarization by the two setters), mesh data, vertices, field_func — outside the model, and no theorem connects the view to getB (C06 is about the pipeline model); oracle compares getB of original and copy bitwise"]


def replay(ctx, payload):
    import json
    print(json.dumps(payload, indent=1, default=str)[:4000])
    return 0
