"""C18 — copy() yields an equal, fully independent, parentless object"""
from corr import forest_family
from oracles import c18 as oracle

GEN = []
LEAN_TARGETS = ["MagpyVerif.Props.C18"]
PROPS = ["MagpyVerif.Props.C18"]


def run(ctx, model_ok):
    budget = 5 if len(ctx.broken) else 1
    fails, ost = oracle.sweep(ctx, ctx.scale(64, 3000) * budget)
    ctx.failing += fails
    ctx.cov["oracle"] = ost
    ctx.cov["evaluations"] = ost["c18_copies"]
    ctx.cov["distinct_nontrivial"] = ost["c18_copies"]
    ctx.cov["rule"] = ("copies of every class, sensors, flat and nested collections, with/without parent, lazily created or initialised styles, keyword overrides, "
                       "4 label shapes; each copy followed by mutation of both sides; every case has fresh random geometry/paths")
    ctx.cov["traces_validated_against_impl"] = ost["c18_copies"]
    ctx.cov["samples"] = [ost]
    ctx.cov["not_shown"] = ["attribute equality, same field and absence of shared mutable state in the CPython heap: interpreter-level oracle (reachable-graph walk, np.shares_memory, mutate-and-diff)",
                            "the tree-level copy model is not driven through the correspondence stream"]


def replay(ctx, payload):
    import json
    print(json.dumps(payload, indent=1, default=str)[:4000])
    return 0
