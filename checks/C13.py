from corr import kern_family
from checks import _sym
from oracles import c13 as oracle

GEN = ["Const", "Tol", "CylSegGen"] + _sym.GEN
LEAN_TARGETS = ["MagpyVerif.Props.C13", "MagpyVerif.Gen.CylSegGen"] + _sym.LEAN_TARGETS  # CylSegGen: the regenerated CylinderSegment translation and its `sync_*` theorems against the frozen model
PROPS = ["MagpyVerif.Props.C13"] + _sym.PROPS
NOT_SHOWN = {
 "C01": ["the vertices form of Polyline (current_vertices_field: repeat/reshape/sum over consecutive segments) is not modelled; single segments are proved equal to the Biot-Savart integral",
         "Cuboid, Triangle/Tetrahedron/TriangularMesh closed forms = their surface integrals (iterated one-variable integrals; not formalised)",
         "Circle, Cylinder, CylinderSegment: need Bulirsch cel/el3 (Legendre elliptic integral) theory, absent from Mathlib v4.33",
         "all of the above are checked against numerical quadrature of the defining integral by the oracle (rel. 2e-6 outside, 2e-4 inside)"],
 "C13": ["Cuboid = mesh = tetrahedra; Cylinder = sum of segments; Polyline -> Circle: equalities between different closed forms, oracle only "
         "(proved: Tetrahedron = wrapH of its four Triangle sheets, with an inside test independent of the vertex order). "
         "(audit 2) more precisely: 'tetrahedra = mesh = sheets' IS proved for tetrahedra glued along full faces (tetra_list_glue / tetra_pair_is_mesh: sum of the "
         "Tetrahedra = wrapH of the boundary's sheet sum, H everywhere) UNDER the hypothesis that the mesh's inside test is the disjunction of the tetrahedra's tests; what is "
         "oracle only is the Cuboid CLOSED FORM against any of the three sheet-based representations",
         "partition additivity, PROVED for the Cuboid cut by axis-parallel planes into Cuboids of the same polarization (Lemmas/CuboidSplit.lean, through the C01 surface-charge integral: "
         "parallel faces additive, internal faces cancel, inside the whole <=> inside exactly one part): one cut per axis for the kernel (cuboid_split_x/y/z: every observer off the seven "
         "planes, inside or outside) and for all four fields B/H/J/M of the wrapper bhjmCuboid outside the 1e-15 surface shells of the three bodies (cuboid_split_wrapper_x/y/z); any list of "
         "cuts along x (cuboid_split_x_list) and any n x m x k grid (cuboid_grid_partition) for the kernel cuboidB, observer in none of the grid planes; any grid for all four fields of the "
         "wrapper (cuboid_grid_partition_wrapper) when the observer keeps the distance 1e-15*dim_i/2 from every grid plane of axis i",
         "partition additivity NOT shown: observers in a "
         "cut plane or a face plane (there the parts' closed forms are evaluated on their own surface: the wrapper's surface/edge special cases and the 0/0 of the kernel are conventions, the "
         "oracle samples near but not on them); parts that are rotated or not axis-aligned (not Cuboids); parts with different polarization (then superposition C12, not C13); partitions of "
         "the curved classes (Cylinder into CylinderSegments or stacked Cylinders, CylinderSegment into segments, Sphere): closed forms in elliptic "
         "integrals, whole-vs-parts oracle only (Tetrahedron / TriangularMesh cut along full faces: proved, see the gluing entry below); the shift p - c of the observer stands for `position=c` of an unrotated part (pose handling is C06/C07)",
         "TriangularMesh = wrapH of the sum of its Triangle sheets, per row of any batch, with the inside test as a parameter (trimesh_is_wrapH_of_sheets, about the model the "
         "driver runs); that the ray-casting inside test is the geometric interior is C16 / oracle",
         "TriangularMesh.from_mesh / from_triangles: PROVED (Model/MeshUnique.lean = the two glue lines np.unique(axis=0, return_inverse=True) + reshape, run by the driver and "
         "compared with the real converters by the `mesh-unique` stream; from_mesh_roundtrip: vertices[faces] is the soup corner by corner up to the element type's ==, for every carrier "
         "whose row order is a total preorder with == as symmetric part - reals, rationals, doubles without NaN; from_mesh_roundtrip_real / from_triangles_roundtrip: identity over the "
         "reals; from_mesh_vertex_count: the vertices are the distinct corners, each once; from_mesh_preserves_field: all four outputs of bhjmTrimesh unchanged). NOT shown: WHICH of "
         "several ==-equal rows numpy keeps (they differ in the sign of a zero; numpy's introsort is unstable above 16 rows - bit patterns compared only up to 15 corners, values by == "
         "above); that the float kernel gives the same value for -0.0 and +0.0 corners (it need not: atan2 and division see the sign; observed only); NaN corners (kept as separate "
         "vertices, vertices[faces] == mesh fails there, as the model reports); the validation / re-orientation that the constructor runs afterwards with default arguments (C16)",
         "TriangularMesh.to_TriangleCollection: PROVED at the level of one row (to_triangle_collection_is_sheet_sum: the sum of the children's BHJM_triangle outputs = wrapH with the "
         "inside verdict false: H everywhere, B / J / M outside); that a Collection sums its children and applies its pose is C05/C06, the style copy is not modelled",
         "TriangularMesh.from_ConvexHull: scipy's Qhull is not modelled (which simplices it returns); the constructor then runs the modelled pipeline (C16); oracle only "
         "(mesh-converters, cuboid-mesh-tetra-triangles, glued)",
         "gluing along shared walls: PROVED (trimesh_glue_sheets / trimesh_glue_additive: parts whose common wall carries the same triangles with opposite winding - internal walls "
         "cancel by triangle_field_flip, B/H/J/M add when the inside test of the union is the disjunction and the observer is not inside both; tetra_pair_glue / tetra_pair_is_mesh / "
         "tetra_list_glue: any list of Tetrahedra glued along full faces = the TriangularMesh of the boundary). NOT shown: observers within the on_edge tolerance of a wall's edge "
         "(hypothesis TriOffEdges; there the code's on-edge substitute does not cancel); parts whose common wall is triangulated differently on the two sides, or cut through the "
         "interior of faces, EXCEPT the cut through a point of an edge: Triangle(a,b,c) = Triangle(a,m,c) + Triangle(m,b,c) for m on the edge a b is PROVED for every observer off the "
         "triangle's plane at which the code does not clamp the whole's solid angle, outside the on_edge tolerance of the edges involved (triangle_split_additive: same normal, edge integral "
         "additive over the subdivision in every branch of the cancellation-free form - triangle_edge_integral_split -, the new edge cancels, and the Van Oosterom-Strackee values add: "
         "z(a,m,c) z(m,b,c) = k z(a,b,c) with k > 0 real - solid_angle_factorisation -, hence additive modulo 4 pi off the five closed segments - solid_angle_additive_mod_2pi - and exactly "
         "off the plane - solid_angle_raw_additive); a Tetrahedron cut through a point of one edge into two Tetrahedra, all four fields (tetra_edge_split_additive, inside tests "
         "tetra_inside_edge_split). The clamp |Omega| > 6.2831853 -> 0 does NOT commute with the subdivision: off the plane SolidAngleAdditive <=> the whole is not clamped "
         "(solid_angle_additive_iff), false for an observer 1e-10 above the interior (solid_angle_additive_fails_near_sheet; listed finding representation:triangle-split:clamp-band). "
         "NOT shown for the triangle cut: observers IN the plane of the triangle (proved only in the sector where all three solid angles vanish: solid_angle_additive_coplanar; modulo 4 pi "
         "everywhere off the closed segments), cuts that are not through a vertex and a point of the opposite edge; "
         "that the ray-casting inside test of the glued mesh IS the disjunction of the parts' tests (C16 / oracle `glued`: random convex hull cut by a plane through its centroid, "
         "whole = sum of the two hulls, inside and outside, lengths 1e-6 ... 1e3)",
         "full_ring_is_cylinder_difference / partial_ring_is_segment unfold the `if` of BHJM_cylinder_segment_internal: the object-oriented wrapper BYPASSES the segment formulas at "
         "360 degrees; that the segment closed form at 360 degrees equals the Cylinder closed form is not shown; invariance of a CylinderSegment under phi -> phi + 360 for both angles: "
         "(audit 2: corrected, this sentence was stale) proved for ranges with 0 < phi2 and (360 < phi2 or -360 <= phi1) by cylseg_angles_plus_360_partial - "
         "an arithmetic fact about the prologue's `turns` (both ranges normalise to the same row), see the last entry; otherwise only the helper arctan_k_tan_2 is proved periodic",
         "polyline_split_additive / polyline_reverse_negates are about the unmasked one-segment kernel; for det = 0 the inside test answers 'outside' everywhere (repo fix 657dea6)",
                  "CylinderSegment written one turn further: proved where the prologue maps both ranges to the same representative (`cylseg_angles_plus_360_partial`); for ranges ending at p2 <= 0 it keeps "
         "representatives 2pi apart and equality would need the quasi-periodicity of the incomplete elliptic integrals in their amplitude (shown: a full turn acts ONLY on the amplitudes, "
         "`cylseg_full_turn_acts_on_amplitudes`, `cylseg_arctan_continuation_explicit`); a proper segment plus its complement = full ring: closed forms, oracle only",
         "(audit 2) literal reading of the new theorems. TIE: bhjmTrimesh / bhjmTrimeshRow (trimesh_is_wrapH_of_sheets, trimesh_glue_additive, tetra_pair_is_mesh, "
         "from_mesh_preserves_field, to_triangle_collection_preserves_field) are NOT run against the real BHJM_magnet_trimesh by THIS check: the `trimesh` / `trimesh batch` streams "
         "are wired in checks/C02.py, C06.py, C16.py only (this check runs kern, mesh-unique, cylseg, sym); bhjmCuboid, bhjmTriangle (hence triangleB, solidAngle), bhjmTetra, "
         "bhjmCylSeg are run here. trimesh_glue_additive for J and M restates its hypotheses hin / hdisj (content only in B and H through trimesh_glue_sheets); `inside` and `meshId` are "
         "free parameters in all mesh theorems. Cuboid partitions: real numbers (log of a negative = log|.|: positivity of numpy's log arguments is C15), the kernel versions exclude "
         "the whole PLANES of the faces and cuts, i.e. also observers outside the body in the prolongation of a face, which the property's 'off the cut planes and surfaces' includes "
         "(measure zero; the wrapper versions exclude the 1e-15 shells of those planes); parts are unrotated, centred by the observer shift, side lengths > 0. "
         "from_mesh / from_triangles: the theorems are about the two np.unique glue lines over the reals (RowLaws is proved for the reals only, not for RowCmp.float: for doubles the "
         "driver reports the round-trip verdict per soup and the stream compares it); with the DEFAULT reorient_faces=True the constructor may flip inward triangles, then .mesh != soup "
         "and 'from_mesh(soup).mesh = soup' does not hold - proved/streamed for reorient_faces='skip'. to_TriangleCollection: no model function, no driver command; the theorem's "
         "left-hand side is a transcription of its first two lines. Solid angle: NO theorem says that triangle_Bfield's solid_angle is the geometric solid angle of the triangle; "
         "the theorems are additivity statements about the code's 2*atan2(N, D) (atan2 = Complex.arg, no branch assumed) and about its clamp. tetra_edge_split_additive / "
         "triangle_split_additive: one cut through a vertex and a point of the opposite edge, observer off the planes of the cut faces and outside the clamp band"],
 "C14": ["flux / circulation laws for general surfaces and loops and for the elliptic-integral classes: quadrature oracle only",
         "Mathlib has the divergence theorem for boxes only and no Stokes theorem for general loops"],
}["C13"]


def run(ctx, model_ok):
    _sym.run(ctx, ctx.scale(70, 2000))
    if ctx.driver_ok:
        st = kern_family.run_stream(ctx, ctx.scale(400, 20000))
        ctx.cov["traces_validated_against_impl"] = st["rows"]
        st.pop("samples")
        ctx.cov["correspondence"] = st
    if ctx.driver_ok:
        # the soup -> (vertices, faces) glue of from_mesh / from_triangles (Model/MeshUnique.lean) against the real converters
        from corr import mesh_family
        su = mesh_family.run_unique(ctx, ctx.scale(150, 6000))
        su.pop("samples", None)
        ctx.cov["correspondence_mesh_unique"] = su
    if ctx.driver_ok:
        # (audit2) the mesh theorems of Props/C13 (trimesh_is_wrapH_of_sheets, trimesh_glue_additive, tetra_pair_is_mesh, from_mesh_preserves_field,
        # to_triangle_collection_preserves_field) are about Model/TrimeshSum.bhjmTrimesh / bhjmTrimeshRow: tie that model to BHJM_magnet_trimesh on THIS
        # check's run too (before, only C02 / C06 / C16 ran a trimesh stream)
        from corr import trimesh_family
        ctx.cov["correspondence_trimesh"] = trimesh_family.run_stream(ctx, ctx.scale(60, 2000))
        ctx.cov["correspondence_trimesh_batch"] = trimesh_family.run_batch_stream(ctx, ctx.scale(40, 1200))
    # the CylinderSegment theorems are about Model/CylSeg*.lean: is the frozen translation still what the source says, and does the port agree with the real code?
    from checks import _cylseg
    _cylseg.run(ctx, ctx.scale(300, 10000))
    budget = 10 if len(ctx.broken) else 1
    fails, ost = oracle.sweep(ctx, ctx.scale(42, 2500) * budget)
    ctx.failing += fails
    ctx.cov["oracle"] = ost
    k = [v for v in ost.values() if isinstance(v, int)][0]
    ctx.cov["evaluations"] = k
    ctx.cov["distinct_nontrivial"] = k
    ctx.cov["rule"] = "every case draws a fresh random source (all classes in turn), pose and observers / partition / surface; all are non-trivial (non-zero fields)"
    ctx.cov["samples"] = [ost]
    ctx.cov["not_shown"] = NOT_SHOWN


def replay(ctx, payload):
    import json
    print(json.dumps(payload, indent=1, default=str)[:4000])
    return 0
