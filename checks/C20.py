"""C20 — style settings resolve by precedence and never leak"""
from corr import style_family, stylestate_family
from oracles import c20 as oracle

GEN = ["Defaults", "StyleTemp", "StyleSchema"]
LEAN_TARGETS = ["MagpyVerif.Props.C20", "MagpyVerif.Props.C20b", "MagpyVerif.Props.C20c", "MagpyVerif.Props.C20d"]
PROPS = ["MagpyVerif.Props.C20", "MagpyVerif.Props.C20b", "MagpyVerif.Props.C20c", "MagpyVerif.Props.C20d"]


def run(ctx, model_ok):
    if ctx.driver_ok:
        st, sfails = style_family.run_stream(ctx, ctx.scale(300, 10000))
        ctx.failing += sfails
        ctx.cov["correspondence_samples"] = st.pop("samples")
        ctx.cov["correspondence"] = st
        # histories on the real `magpylib.defaults` and real objects' styles against the state machine Model/StyleState.lean
        sst, ssfails = stylestate_family.run_stream(ctx, ctx.scale(150, 3000))
        ctx.failing += ssfails
        ctx.cov["correspondence_samples"] += sst.pop("samples")
        ctx.cov["correspondence_sstate"] = sst
    budget = 3 if len(ctx.broken) else 1
    fails, ost = oracle.sweep(ctx, ctx.scale(12, 400) * budget)
    ctx.failing += fails
    ctx.cov["oracle"] = ost
    ctx.cov["evaluations"] = ost["c20_leaf_cases"] * 10
    ctx.cov["distinct_nontrivial"] = ost["c20_leaf_cases"]
    ctx.cov["rule"] = ("per style family (magnet, current, sensor, dipole, triangle, triangularmesh) a random sample of leaves with boolean / numeric / colour "
                       "values; per leaf ~10 checks (4 sources, 3 notations, last-wins, 2 leak tests, reset); distinct = (family, leaf) pairs")
    ctx.cov["traces_validated_against_impl"] = ost["c20_leaf_cases"]
    ctx.cov["samples"] = [ost]
    if "correspondence" in ctx.cov:
        ctx.cov["evaluations"] += ctx.cov["correspondence"]["cases"]
        ctx.cov["traces_validated_against_impl"] += ctx.cov["correspondence"]["cases"]
        ctx.cov["rule"] += ("; style stream: random nested / magic-keyword dictionaries (depth <= 4, small key alphabet, both separators, None/int leaves, error shapes) through "
                            "magic_to_dict, linearize_dict, update_nested_dict (4 flag combinations, id()-sharing), MagicProperties.update and get_style's two updates on "
                            "property classes built for random schemas, compared exactly with Model/StyleNested.lean")
    if "correspondence_sstate" in ctx.cov:
        ss = ctx.cov["correspondence_sstate"]
        ctx.cov["evaluations"] += ss["ops"]
        ctx.cov["traces_validated_against_impl"] += ss["histories"]
        ctx.cov["rule"] += ("; sstate stream: random histories (2-12 operations: update on the root or a sub-object in nested / magic / mixed notation with all flag combinations, attribute "
                            "assignment of leaf values, None, dicts, strings, unknown names, method / dunder / private-slot / unknown underscored names, the deprecated alias, deliberately rejected multi-key updates (valid keys next to an unknown name / refused value / the alias), defaults.reset(), display.style.reset(), obj.style = dict / None / "
                            "other.style, reads) on the real magpylib.defaults and on 0-3 real objects of all eight object classes; outcome (exception class) and the full as_dict() of the object "
                            "touched compared exactly after EVERY operation with Model/StyleState.lean run on the regenerated classes / validators / DEFAULTS (Gen/StyleSchema); the real heap is "
                            "checked for property objects shared between objects, and a final reset() against the pristine as_dict(); defaults are reset before and after every history")
    ctx.cov["not_shown"] = ["validators of the concrete style classes (colour, symbol, line-style normalisation) and CPython attribute dispatch: style oracle + mp/resolve streams only "
                            "(the model's `assign` covers plain and sub-object properties, tied by the stream, no theorem about it)",
                            "linearize_dict(magic_to_dict(kw)) is shown equal to kw as a key->value map (lookup equality), not as an ordered list: magic_to_dict groups keys by first segment",
                            "separators of more than one character (the model's split/join take one character; magpylib uses '_' and '.')",
                            "copy independence in the CPython heap: for update_nested_dict modelled with addresses (theorem update_nested_sharing, stream compares id()), "
                            "for style objects oracle only",
                            "enumeration-valued leaves (symbols, line styles) are sampled only through their defaults",
                            "refinement of a whole history to a map path -> value (C20d.reads_refine): proved for every history over the full op set on the defaults and any number of objects in "
                            "which the ACCEPTED operations are: assignments to plain properties (any depth), update() on any receiver in magic / nested / mixed notation (positional dict and keywords, "
                            "either _match_properties) whose argument after magic_to_dict fits the receiver's class, obj.style = dict / None / other.style, display.style.reset(), defaults.reset(), "
                            "reads; rejected operations are unrestricted. NOT covered when accepted: a dict / None / a string assigned to a SUB-OBJECT property (the new object takes constructor "
                            "defaults for the keys the dict lacks: needs the constructor on partial dictionaries), the deprecated alias Magnetization.size, _replace_None_only=True, dicts as values "
                            "of plain properties; for those only reachable_states_wellformed / reachable_states_stable and the sstate stream speak",
                            "effective_style_refines_partial connects get_style's precedence chain to the abstract map at the OBJECT layer only: the family / base default layers are still the "
                            "abstract flat functions of Props/C20 (hypothesis hdef); as_dict(flatten=True) of display.style.<family> and the non-None merge over families are not model functions",
                            "'invalid names are rejected': a theorem for every name that is not a property and not in the regenerated per-class list of non-property names the code still "
                            "lets through (private slots `_color`, `__doc__`, `__module__`, `__dict__`, the frozen flag — witness private_slots_not_rejected; the model reports `shadow` for "
                            "them and makes no claim afterwards); every method / dunder-method name is rejected since repo fix 3fc7703 (method_names_rejected)",
                            "'a rejected operation leaves the state unchanged' is a theorem for every operation (rejected_update_keeps_state since repo fix cea5f08, rejected_op_keeps_world) "
                            "except defaults.reset() itself, which is `display = None` followed by an update and is shown never to raise on reachable worlds (reset_restores); object IDENTITY "
                            "after a rejected update (the same property objects stay in place) is observed on the real heap by the sstate stream, the model has no addresses",
                            "value validation is a regenerated TABLE (every leaf setter probed on None, a dict and a panel of 86 values closed under the setters), not a model of the validators' code; "
                            "values outside the panel are not covered",
                            "sharing through explicit assignment of a property OBJECT (`b.style.path = a.style.path` stores the same Path object in both styles) is not in the model (no addresses); the "
                            "sstate stream checks the real heap for shared property objects after every history of modelled operations",
                            "styles of COPIES (obj.copy()) in the state machine: forest/copy model (C18) and style oracle only",
                            "resolution_precedence is about the flat model Model/StyleTree.getStyle; nested_resolution_matches_flat links the nested model to it only at paths where the object's "
                            "style already has a non-dict value and no keyword/default key is a proper prefix or extension of the path"]


def replay(ctx, payload):
    import json
    print(json.dumps(payload, indent=1, default=str)[:4000])
    return 0
