"""C20 — style settings resolve by precedence and never leak"""
from corr import style_family
from oracles import c20 as oracle

GEN = ["Defaults", "StyleTemp"]
LEAN_TARGETS = ["MagpyVerif.Props.C20", "MagpyVerif.Props.C20b"]
PROPS = ["MagpyVerif.Props.C20", "MagpyVerif.Props.C20b"]


def run(ctx, model_ok):
    if ctx.driver_ok:
        st, sfails = style_family.run_stream(ctx, ctx.scale(300, 10000))
        ctx.failing += sfails
        ctx.cov["correspondence_samples"] = st.pop("samples")
        ctx.cov["correspondence"] = st
    budget = 3 if len(ctx.broken) else 1
    fails, ost = oracle.sweep(ctx, ctx.scale(12, 400) * budget)
    ctx.failing += fails
    ctx.cov["oracle"] = ost
    ctx.cov["evaluations"] = ost["c20_leaf_cases"] * 10
    ctx.cov["distinct_nontrivial"] = ost["c20_leaf_cases"]
    ctx.cov["rule"] = ("per style family (magnet, current, sensor, dipole, triangle, triangularmesh) a random sample of leaves with boolean / numeric / colour "
                       "values; per leaf ~10 checks (4 sources, 3 notations, last-wins, 2 leak tests, reset); distinct = (family, leaf) pairs")
    ctx.cov["traces_validated_against_impl"] = ost["c20_leaf_cases"]
    ctx.cov["samples"] = [ost]
    if "correspondence" in ctx.cov:
        ctx.cov["evaluations"] += ctx.cov["correspondence"]["cases"]
        ctx.cov["traces_validated_against_impl"] += ctx.cov["correspondence"]["cases"]
        ctx.cov["rule"] += ("; style stream: random nested / magic-keyword dictionaries (depth <= 4, small key alphabet, both separators, None/int leaves, error shapes) through "
                            "magic_to_dict, linearize_dict, update_nested_dict (4 flag combinations, id()-sharing), MagicProperties.update and get_style's two updates on "
                            "property classes built for random schemas, compared exactly with Model/StyleNested.lean")
    ctx.cov["not_shown"] = ["validators of the concrete style classes (colour, symbol, line-style normalisation) and CPython attribute dispatch: style oracle + mp/resolve streams only "
                            "(the model's `assign` covers plain and sub-object properties, tied by the stream, no theorem about it)",
                            "linearize_dict(magic_to_dict(kw)) is shown equal to kw as a key->value map (lookup equality), not as an ordered list: magic_to_dict groups keys by first segment",
                            "separators of more than one character (the model's split/join take one character; magpylib uses '_' and '.')",
                            "copy independence in the CPython heap: for update_nested_dict modelled with addresses (theorem update_nested_sharing, stream compares id()), "
                            "for style objects oracle only",
                            "enumeration-valued leaves (symbols, line styles) are sampled only through their defaults",
                            "defaults.reset() restores every default, and sequences of updates AND resets: no model, no theorem (DESIGN §6 names `reset_restores`; it does not exist) — style oracle only",
                            "'invalid names or values are rejected': only an `example` (one unknown property name -> AttributeError in mpUpdate); no theorem that every name outside the schema is rejected, "
                            "value validation not modelled",
                            "'styles of different objects are independent': no theorem (update_nested_sharing is about aliasing between the result and the argument of ONE update_nested_dict call)",
                            "resolution_precedence is about the flat model Model/StyleTree.getStyle; nested_resolution_matches_flat links the nested model to it only at paths where the object's "
                            "style already has a non-dict value and no keyword/default key is a proper prefix or extension of the path"]


def replay(ctx, payload):
    import json
    print(json.dumps(payload, indent=1, default=str)[:4000])
    return 0
