"""C20 — style settings resolve by precedence and never leak"""
from oracles import c20 as oracle

GEN = ["Defaults"]
LEAN_TARGETS = ["MagpyVerif.Props.C20"]
PROPS = ["MagpyVerif.Props.C20"]


def run(ctx, model_ok):
    budget = 3 if len(ctx.broken) else 1
    fails, ost = oracle.sweep(ctx, ctx.scale(12, 400) * budget)
    ctx.failing += fails
    ctx.cov["oracle"] = ost
    ctx.cov["evaluations"] = ost["c20_leaf_cases"] * 10
    ctx.cov["distinct_nontrivial"] = ost["c20_leaf_cases"]
    ctx.cov["rule"] = ("per style family (magnet, current, sensor, dipole, triangle, triangularmesh) a random sample of leaves with boolean / numeric / colour "
                       "values; per leaf ~10 checks (4 sources, 3 notations, last-wins, 2 leak tests, reset); distinct = (family, leaf) pairs")
    ctx.cov["traces_validated_against_impl"] = ost["c20_leaf_cases"]
    ctx.cov["samples"] = [ost]
    ctx.cov["not_shown"] = ["MagicProperties' property machinery (validators, nested object creation), magic_to_dict/linearize inverse, copy independence in the CPython heap: oracle only",
                            "enumeration-valued leaves (symbols, line styles) are sampled only through their defaults"]


def replay(ctx, payload):
    import json
    print(json.dumps(payload, indent=1, default=str)[:4000])
    return 0
