"""C20 — style settings resolve by precedence and never leak"""
from corr import style_family, stylecopy_family, styleeff_family, stylestate_family
from oracles import c20 as oracle

GEN = ["Defaults", "StyleTemp", "StyleSchema"]
LEAN_TARGETS = ["MagpyVerif.Props.C20", "MagpyVerif.Props.C20b", "MagpyVerif.Props.C20c", "MagpyVerif.Props.C20d", "MagpyVerif.Props.C20g", "MagpyVerif.Props.C20f", "MagpyVerif.Props.C20e", "MagpyVerif.Props.C20h"]
PROPS = ["MagpyVerif.Props.C20", "MagpyVerif.Props.C20b", "MagpyVerif.Props.C20c", "MagpyVerif.Props.C20d", "MagpyVerif.Props.C20g", "MagpyVerif.Props.C20f", "MagpyVerif.Props.C20e", "MagpyVerif.Props.C20h"]


def run(ctx, model_ok):
    if ctx.driver_ok:
        st, sfails = style_family.run_stream(ctx, ctx.scale(300, 10000))
        ctx.failing += sfails
        ctx.cov["correspondence_samples"] = st.pop("samples")
        ctx.cov["correspondence"] = st
        # histories on the real `magpylib.defaults` and real objects' styles against the state machine Model/StyleState.lean
        sst, ssfails = stylestate_family.run_stream(ctx, ctx.scale(150, 3000))
        ctx.failing += ssfails
        ctx.cov["correspondence_samples"] += sst.pop("samples")
        ctx.cov["correspondence_sstate"] = sst
        # histories with COPIES (obj.copy(), obj.copy(style_…), style.copy()) on real objects against Model/StyleCopy.lean
        sct, scfails = stylecopy_family.run_stream(ctx, ctx.scale(80, 1500))
        ctx.failing += scfails
        ctx.cov["correspondence_samples"] += sct.pop("samples")
        ctx.cov["correspondence_scopy"] = sct
        # the real get_style after a history against Model/StyleEffective.lean (defaults layers derived from object 0's tree)
        est, efails = styleeff_family.run_stream(ctx, ctx.scale(80, 1500))
        ctx.failing += efails
        ctx.cov["correspondence_samples"] += est.pop("samples")
        ctx.cov["correspondence_seff"] = est
    budget = 3 if len(ctx.broken) else 1
    fails, ost = oracle.sweep(ctx, ctx.scale(12, 400) * budget)
    ctx.failing += fails
    ctx.cov["oracle"] = ost
    ctx.cov["evaluations"] = ost["c20_leaf_cases"] * 10
    ctx.cov["distinct_nontrivial"] = ost["c20_leaf_cases"]
    ctx.cov["rule"] = ("per style family (magnet, current, sensor, dipole, triangle, triangularmesh) a random sample of leaves with boolean / numeric / colour "
                       "values; per leaf ~10 checks (4 sources, 3 notations, last-wins, 2 leak tests, reset); distinct = (family, leaf) pairs")
    ctx.cov["traces_validated_against_impl"] = ost["c20_leaf_cases"]
    ctx.cov["samples"] = [ost]
    if "correspondence" in ctx.cov:
        ctx.cov["evaluations"] += ctx.cov["correspondence"]["cases"]
        ctx.cov["traces_validated_against_impl"] += ctx.cov["correspondence"]["cases"]
        ctx.cov["rule"] += ("; style stream: random nested / magic-keyword dictionaries (depth <= 4, small key alphabet, both separators, None/int leaves, error shapes) through "
                            "magic_to_dict, linearize_dict, update_nested_dict (4 flag combinations, id()-sharing), MagicProperties.update and get_style's two updates on "
                            "property classes built for random schemas, compared exactly with Model/StyleNested.lean")
    if "correspondence_sstate" in ctx.cov:
        ss = ctx.cov["correspondence_sstate"]
        ctx.cov["evaluations"] += ss["ops"]
        ctx.cov["traces_validated_against_impl"] += ss["histories"]
        ctx.cov["rule"] += ("; sstate stream: random histories (2-12 operations: update on the root or a sub-object in nested / magic / mixed notation with all flag combinations, attribute "
                            "assignment of leaf values, None, dicts, strings, unknown names, method / dunder / private-slot / unknown underscored names, the deprecated alias, deliberately rejected multi-key updates (valid keys next to an unknown name / refused value / the alias), defaults.reset(), display.style.reset(), obj.style = dict / None / "
                            "other.style, reads) on the real magpylib.defaults and on 0-3 real objects of all eight object classes; outcome (exception class) and the full as_dict() of the object "
                            "touched compared exactly after EVERY operation with Model/StyleState.lean run on the regenerated classes / validators / DEFAULTS (Gen/StyleSchema); the real heap is "
                            "checked for property objects shared between objects, and a final reset() against the pristine as_dict(); defaults are reset before and after every history")
    if "correspondence_scopy" in ctx.cov:
        sc = ctx.cov["correspondence_scopy"]
        ctx.cov["evaluations"] += sc["ops"]
        ctx.cov["traces_validated_against_impl"] += sc["histories"]
        ctx.cov["rule"] += ("; scopy stream: random histories (3-16 steps, generated while they run) on the real magpylib.defaults and 1-3 real objects in which about a quarter of the steps are "
                            "copies through the public API — b = a.copy(), b = a.copy(style={…}, style_<magic>=value) (accepted and rejected keyword sets), s = X.copy() of a style object or of "
                            "magpylib.defaults — also of objects whose style does not exist yet and of copies; the copy becomes a new object that the following sstate operations (update, attribute "
                            "assignment, style = dict / None / other.style, reads) target, biased to copies and their originals; outcome and full as_dict() of the object touched (for a copy: the new "
                            "object) compared exactly after EVERY step with Model/StyleCopy.lean (driver family scopy); the label a copy is given is read off the real copy and passed to the model, "
                            "a label string outside the value panel is masked as 'txt' on both sides; on the real heap: no property object shared between original and copy right after the copy "
                            "nor between any two objects at the end, and after every step the as_dict() of every other object is unchanged; defaults reset before and after every history")
    if "correspondence_seff" in ctx.cov:
        se = ctx.cov["correspondence_seff"]
        ctx.cov["evaluations"] += se["cases"]
        ctx.cov["traces_validated_against_impl"] += se["cases"]
        ctx.cov["rule"] += ("; seff stream: after a random history as in the sstate stream (on the real magpylib.defaults and 1-3 real objects) the REAL get_style(obj, magpylib.defaults, "
                            "**style_<magic> keywords) — no keyword, keywords of the object's own style, of another family (dropped), an unknown first segment (ValueError), refused values — "
                            "against Model/StyleEffective.getStyleW on the world the state machine reaches: the whole resolved as_dict() and as_dict(flatten=True, separator='_') exactly, or the "
                            "exception class; the model's families come from the regenerated get_families table; defaults reset before and after every history")
    ctx.cov["not_shown"] = ["validators of the concrete style classes (colour, symbol, line-style normalisation) and CPython attribute dispatch: style oracle + mp/resolve streams only "
                            "(the model's `assign` covers plain and sub-object properties, tied by the stream, no theorem about it)",
                            "linearize_dict(magic_to_dict(kw)) is shown equal to kw as a key->value map (lookup equality), not as an ordered list: magic_to_dict groups keys by first segment",
                            "separators of more than one character (the model's split/join take one character; magpylib uses '_' and '.')",
                            "copy independence in the CPython heap: for update_nested_dict modelled with addresses (theorem update_nested_sharing, stream compares id()), "
                            "for style objects the oracle and the heap observations of the sstate / scopy streams only",
                            "enumeration-valued leaves (symbols, line styles) are sampled only through their defaults",
                            "refinement of a whole history to the value read at a plain property (C20g.reads_refine_all_partial, which extends C20d.reads_refine): proved for every history over the "
                            "full op set on the defaults and any number of objects in which the ACCEPTED operations are: attribute assignments of ANY kind at any depth (a value or a dict for a plain "
                            "property; a dict / None / a string for a sub-object property — the constructor on partial dictionaries is characterised leaf by leaf by ctorRead: named parameters with their "
                            "defaults, magic_to_dict, None for what the dict lacks, alias keys last; the deprecated alias Magnetization.size), update() on any receiver in magic / nested / mixed notation "
                            "(positional dict and keywords, either _match_properties, either _replace_None_only) whose argument after magic_to_dict FITS the receiver's class (keys are properties, plain "
                            "properties get non-dict values, sub-objects get fitting dicts; pairwise different keys are proved, not assumed: updArg_wf), obj.style = dict / None / other.style, "
                            "display.style.reset(), defaults.reset(), reads; rejected operations are unrestricted. NOT covered when accepted — exactly: an update (or obj.style = dict) whose argument "
                            "after magic_to_dict, at some level, (1) gives None / a string to a SUB-OBJECT key, (2) gives a dict to a plain property, or (3) uses the alias key `size` (keys that are no "
                            "properties, accepted only with _match_properties=False where they are ignored, ARE covered). For those the update loop is characterised as the fold of the per-leaf setter effects over "
                            "new_dict (Lemmas/StyleLeaf.setAllS_read), but new_dict still contains the rebuilt dictionaries of the current sub-objects, so it is not yet a function of the call alone; "
                            "reachable_states_wellformed / reachable_states_stable and the sstate stream speak for them",
                            "effective_style_refines_partial (C20d) connects get_style's precedence chain to the abstract map at the OBJECT layer only (its defaults layers are the abstract flat "
                            "functions of Props/C20); the DEFAULTS layers are derived from the tree of magpylib.defaults in C20e (Model/StyleEffective.getStyleW, seff stream): "
                            "effective_style_reads(_gen/_exact) and show_keyword_wins hold for every well-formed (= every reachable) world over READS of the world, for show() keywords that fit the "
                            "style class after magic_to_dict, CONDITIONAL on get_style returning: when the two updates raise is not characterised by a theorem (exception classes compared by the seff "
                            "stream only; 'no keywords => never raises' observed, not proved); keywords assigning a dict / None / a string to a sub-object and the style={...} keyword of show() are "
                            "outside the theorems (the latter also outside the model); the composition with the refinement of histories is C20h.effective_style_refines (first non-None of [show keyword, abstract own-style value, abstract family-default values most specific first, abstract base-default value], every value the absStep fold of the history; under CovOp for accepted updates)",
                            "'invalid names are rejected': a theorem for every name that is not a property and not in the regenerated per-class list of non-property names the code still "
                            "lets through (private slots `_color`, `__doc__`, `__module__`, `__dict__`, the frozen flag — witness private_slots_not_rejected; the model reports `shadow` for "
                            "them and makes no claim afterwards); every method / dunder-method name is rejected since repo fix 3fc7703 (method_names_rejected)",
                            "'a rejected operation leaves the state unchanged' is a theorem for every operation (rejected_update_keeps_state since repo fix cea5f08, rejected_op_keeps_world) "
                            "except defaults.reset() itself, which is `display = None` followed by an update and is shown never to raise on reachable worlds (reset_restores); object IDENTITY "
                            "after a rejected update (the same property objects stay in place) is observed on the real heap by the sstate stream, the model has no addresses",
                            "value validation is a regenerated TABLE (every leaf setter probed on None, a dict and a panel of 86 values closed under the setters), not a model of the validators' code; "
                            "values outside the panel are not covered",
                            "sharing through explicit assignment of a property OBJECT (`b.style.path = a.style.path` stores the same Path object in both styles) is not in the model (no addresses); the "
                            "sstate stream checks the real heap for shared property objects after every history of modelled operations",
                            "styles of COPIES: theorems of Props/C20f are about the state machine with copies (Model/StyleCopy: copy = append the same tree value with `label` assigned through its "
                            "setter); that CPython's deepcopy yields an object graph sharing nothing with the original is observed on the real heap by the scopy stream (no addresses in the model); the "
                            "label string BaseGeo.copy computes (add_iteration_suffix) is a parameter of the model operation, not modelled; non-style keywords of copy() (position=…) are C18's",
                            "resolution_precedence is about the flat model Model/StyleTree.getStyle; nested_resolution_matches_flat links the nested model to it only at paths where the object's "
                            "style already has a non-dict value and no keyword/default key is a proper prefix or extension of the path",
                            "(audit2) the model outcome `shadow` is NOT a rejection by the code: `obj.style._opacity = 'bogus'` raises nothing, changes what `style.opacity` / as_dict() "
                            "give and leaves a state in which `style.update()` raises AssertionError. The history theorems (reads_refine, reachable_states_wellformed / _stable, rejected_setattr_keeps_world, "
                            "rejected_op_keeps_world with e = shadow) quantify over such operations too and then speak about the model only (it leaves the world alone); the sstate stream "
                            "UNDOES the real private-slot write before it compares, so it does not test them either. Read those theorems for histories without a `shadow` outcome",
                            "(audit2) in reads_refine / defaults_reads_refine_partial 'accepted' means accepted by the MODEL's own step (annot); the outcome bits are eliminated only for histories of "
                            "leaf assignments, defaults.reset(), obj.style = other.style and reads (leaf_histories_last_valid_assignment_wins: acceptance = the validator row accepts, leaf_assign_outcome); for "
                            "update / obj.style = dict / display.style.reset() no theorem says WHEN they are accepted (only the stream: outcome compared after every operation)",
                            "(audit2) display.style.reset(): no theorem that it is always accepted nor that it restores every style default (reset_restores is about defaults.reset() only); when the model accepts "
                            "it, reads_refine gives the setter's image of DEFAULTS at every leaf DEFAULTS['display']['style'] has; sstate stream: RS operations compared exactly",
                            "(audit2) styles_independent, objects_independent_of_history, style_object_assignment_ignored, rejected_update_keeps_state and the unknown-name theorems (setattr_unknown_name_rejected*) "
                            "restate how the model is BUILT (one tree per object and `setTree w i`; `setStyleObj` returns the world; `updateObj` returns the old state on every error branch; `setAttr` answers "
                            "AttributeError for a name outside props/others): their content is the sstate stream (final trees of all objects, heap_pairs_checked, rejected_updates_heap_checked, odd_names), not the proof",
                            "(audit2) the validator table is probed on a NEW instance of each class: that a leaf setter does not depend on the object's other properties (and the alias / string-shorthand shapes found by "
                            "probing one value) is assumed by the model and tied only by the stream; validators_idempotent / 'every stored leaf is a fixpoint of its validator' are facts about the 86 panel values",
                            "(audit2) precedence over HISTORIES: effective_style_refines_partial requires that no show() keyword is a prefix / extension of the leaf (instances: the empty one and, audit2, one with a two-operation history and a one-key default dictionary, no families); "
                            "'show kwarg > object > family > base' for every leaf is decided on the flat model (resolution_precedence) and sampled by the oracle"]


def replay(ctx, payload):
    import json
    print(json.dumps(payload, indent=1, default=str)[:4000])
    return 0
