"""C08 — field computation never changes objects or inputs, even when it fails"""
from checks import _level2
from oracles import c08 as oracle

GEN = ["Exits"]
LEAN_TARGETS = ["MagpyVerif.Props.C08"]
PROPS = ["MagpyVerif.Props.C08"]


def run(ctx, model_ok):
    _level2.run(ctx, oracle.sweep, 90, 3000, [
        "caller-owned numpy arrays and aliasing (np.shares_memory) are outside the list model: observed by the snapshot oracle",
        "geometry/excitation/pixel/style attributes are not written by getBH_level2 at all (no assignment sites in the AST other than "
        "_position/_orientation): observed by the snapshot oracle"])


replay = _level2.replay
