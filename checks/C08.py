"""C08 — field computation never changes objects or inputs, even when it fails"""
from checks import _level2
from oracles import c08 as oracle

GEN = ["Exits"]
LEAN_TARGETS = ["MagpyVerif.Props.C08"]
PROPS = ["MagpyVerif.Props.C08"]


def run(ctx, model_ok):
    _level2.run(ctx, oracle.sweep, 90, 3000, [
        "caller-owned numpy arrays and aliasing (np.shares_memory) are outside the list model: observed by the snapshot oracle",
        "geometry/excitation/pixel/style attributes are not written by getBH_level2 at all (no assignment sites in the AST other than "
        "_position/_orientation): observed by the snapshot oracle",
        "level2_preserves_state holds by definition of the model's `restore` once the three regenerated flags are true (restore inside a `finally` directly after the tiling, "
        "no raising statement in between, restore from saved arrays): its content is the AST extraction translate/gen.py:gen_Exits, which looks at top-level statements of "
        "getBH_level2 only — that the finally-block restores EVERY tiled object, that no callee (getBH_level1, field functions, check_chirality's in-place vertex swap) writes "
        "object state, and that the inputs checks raising before the tiling leave nothing behind, is observed by the snapshot oracle, not proved; Model/Level2State is not run by the driver. "
        "That each of the three flags is NEEDED is shown by witnesses on Level2State.runFlags (the same transformer with the three facts as arguments and scipy's re-normalisation of the "
        "tiled orientation path as a parameter): without_finally_flag_state_leaks, with_unprotected_site_state_leaks, with_slicing_renormalisation_leaks / "
        "with_slicing_unequal_paths_leak; level2_preserves_state_any_norm is the sufficiency for every re-normalisation, without the equal-lengths hypothesis"])


replay = _level2.replay
