"""C08 — field computation never changes objects or inputs, even when it fails"""
import os
import sys

from checks import _level2
from oracles import c08 as oracle
from oracles import c08_freeze

GEN = ["Exits", "WriteSet"]
LEAN_TARGETS = ["MagpyVerif.Props.C08"]
PROPS = ["MagpyVerif.Props.C08"]


def _write_set(ctx):
    """the write-set analysis as the check sees it: the table of this run (what the Lean theorem `call_path_writes_only_fresh` decides),
    and the translator's self-test: seeded impurities applied to scratch copies under /tmp must be flagged"""
    from vlib.core import REPO, ROOT

    sys.path.insert(0, os.path.join(ROOT, "translate"))
    import writeset

    cov = {}
    try:
        res = writeset.analyse(REPO)
    except Exception as e:  # noqa: BLE001  (gen.py reports the same as a translator refusal)
        ctx.cov["write_set"] = {"error": f"{type(e).__name__}: {e}"}
        return
    flagged = [s for s in res.flagged() if s.kind != "consumeDeep"]
    ext_untrusted = sorted({(c.fn, c.callee) for c in res.ext if not c.args_fresh})
    cov.update({"functions_analysed": len(res.functions), "core_field_functions": len(res.argmode), "mutation_sites": len(res.sites),
                "sites_fresh": sum(s.root == "fresh" for s in res.sites),
                "sites_allowed": [repr(s) for s in res.sites if s.root != "fresh" and (writeset.allowed(s) or s.kind == "consumeDeep")],
                "sites_flagged": [repr(s) for s in flagged], "external_calls": len(res.ext),
                "external_calls_with_preexisting_arguments": [f"{f}: {c}" for f, c in ext_untrusted],
                "argument_writers": res.consumers, "untranslated_constructs": res.notes, "tiling": res.tiling})
    for s in flagged:
        # the Lean theorem over the regenerated table is broken as well; this entry names the site
        ctx.broken.append({"kind": "write-set", "name": f"{s.fn}:{s.line}", "detail": f"mutation site writes into memory that exists before the call: {s!r}"})
    st = writeset.selftest(REPO)
    cov["selftest"] = st
    for r in st:
        if r["status"] in ("MISSED", "FLAGGED-WITHOUT-PATCH"):
            ctx.broken.append({"kind": "write-set-selftest", "name": r["variant"],
                               "detail": f"translator self-test: variant `{r['variant']}` -> {r['status']} (a seeded impurity must be flagged, an unpatched copy must not)"})
    cov["selftest_rule"] = ("each variant: copy ONE source file to a scratch directory under /tmp, patch its text (own list extended in place in "
                            "_validate_getBH_inputs; np.asarray instead of np.array in getBH_dict_level2 with and without a following in-place op; a cache "
                            "attribute set on the objects in getBH_level2; src._position.resize(...); tile_group_property returning a view of the only "
                            "source's array; a second, unprotected write of _position after the try), analyse the copy through the overlay argument, "
                            "expect a flagged site of the expected kind in the expected function; `anchor-missing` = the text to patch is no longer there")
    ctx.cov["write_set"] = cov


def run(ctx, model_ok):
    _level2.run(ctx, oracle.sweep, 90, 3000, [
        "the POINTS-TO CLASSIFICATION of translate/writeset.py is trusted (Model/WriteSet.lean lists it: which numpy / builtin functions and methods return new "
        "memory, which may return a view or their argument, which write in place; python containers vs. arrays; one contents cell per object; the loop in "
        "getBH_dict_level2 that rewrites every value of **kwargs): `call_path_writes_only_fresh` is a decision over the table it produces, "
        "`call_path_preserves_old_heap` takes `DescribedBy table trace` as a hypothesis.  Checked, not proved: the translator's self-test (seeded impurities "
        "must be flagged) and the freeze oracle (every pre-existing numpy array read-only during real calls through all interfaces)",
        "code outside the analysed set: user field functions of a CustomSource; the constructors and numpy / scipy / pandas functions called with fresh "
        "arguments; the eight external callees that receive pre-existing values (Model/WriteSet.lean `trustedCallees`); dunder methods other than "
        "__iter__/__len__/__getitem__/__repr__; in-place methods under names the translator does not list",
        "the lazy `style` getter writes the private slots `_style` / `_style_kwargs` (only reached for output='dataframe'): allowed explicitly, excluded from "
        "the preserved part of the heap; that `obj.style` reads the same before and after is observed by the snapshot oracle, not proved",
        "elements of object-dtype stacks (ragged Polyline vertices / TriangularMesh faces) reach the core field functions by reference (`consumeDeep` site): "
        "harmless because no core field function has a write site rooted in an element of what it is given — same table, same trusted classification",
        "level2_preserves_state holds by definition of the model's `restore` once the three regenerated flags are true (restore inside a `finally` directly after the tiling, "
        "no raising statement in between, restore from saved arrays): its content is the AST extraction translate/gen.py:gen_Exits, which looks at top-level statements of "
        "getBH_level2 only — that the finally-block restores EVERY tiled object is now `restore_covers_every_tiled_object` (same list, bound once, never mutated), that no "
        "callee writes object state is `call_path_writes_only_fresh`; Model/Level2State and the heap of Model/WriteSet are not run by the driver. "
        "That each of the three flags is NEEDED is shown by witnesses on Level2State.runFlags (the same transformer with the three facts as arguments and scipy's re-normalisation of the "
        "tiled orientation path as a parameter): without_finally_flag_state_leaks, with_unprotected_site_state_leaks, with_slicing_renormalisation_leaks / "
        "with_slicing_unequal_paths_leak; level2_preserves_state_any_norm is the sufficiency for every re-normalisation, without the equal-lengths hypothesis",
        "(audit 2) WHAT THE RESTORE PUTS BACK was not extracted before this audit: `restoreBySlicing = false` only means 'the finally does not assign obj._position[…] of the attribute itself', "
        "`restore_covers_every_tiled_object` compares the FIRST zip operand of the two loops only, and the model assumed the rest (`Level2State.restore false orig _ = orig`). "
        "Demonstrated on scratch copies of /repo: moving `reset_obj_orig = [...]` behind the tiling loop regenerated identical three flags and an identical Gen/WriteSet table "
        "(all theorems of Props/C08 checked) while every shorter path stayed tiled after each call. REPAIRED for the path model: translate/gen.py gen_Exits now emits a fourth fact "
        "`Gen.Exits.savedBeforeTiling` (one restore loop `for v, (p, o) in zip(A, B): v._position = p; v._orientation = o`; B stored once, by a top-level statement before the first tiling "
        "statement, as `[(x._position, x._orientation) for x in A]`, read once; six defect variants — save after the tiling at top level / inside the if, restore of another value, second store "
        "of the saved list, save over another list, conditional comprehension — all give `false` with the other three flags unchanged), Level2State.runFlags4 takes it as an argument, "
        "Props/C08 `restore_puts_back_arrays_saved_before_tiling`, `level2_preserves_state_four_facts`, witness `with_save_after_tiling_state_leaks`. "
        "STILL assumed on the heap side: `WriteSet.Heap.restore` resets the temp cells to the entry heap by definition (`heap_restore_is_assumed_not_traced` is the witness, "
        "`call_path_preserves_old_heap_traced` states it as a hypothesis); the fourth fact is syntactic (an alias of the saved list built through a helper function would be refused, not understood)",
        "(audit 2) clause by clause: 'position and orientation paths' — level2_preserves_state(_any_norm) + the three flags, under the assumption above; 'geometry, excitation, "
        "pixels, parent/children' and 'every array passed by the caller' — NO attribute-specific theorem: decided only as 'the regenerated table has no non-fresh write site besides the "
        "eight of preexisting_roots_are_exactly', i.e. under the trusted points-to classification (`DescribedBy` is a hypothesis, never discharged for a real execution; "
        "its only instances are the toy traces of Props/C08); 'style' — NOT preserved at slot level (`_style`, `_style_kwargs` are written by the lazy getter), public reading by oracle only; "
        "'whether the call returns or raises' — every prefix of the write trace (heap) / `compute` failing as a whole (Level2State); "
        "'calling again gives the identical result' — second_call_same_state gives the same OBJECT STATE for the second call, identical RESULT needs a deterministic computation "
        "(no hidden state: the table has no `global` root site) and is observed by the freeze oracle (repeated call compared), not proved",
        "(audit 2) the translator self-test does not fail on `anchor-missing` (the text to patch is gone after a refactoring): then the variant checks nothing; "
        "the seven variants probe seven places of the analysis, they are not a soundness argument. The order of Gen/WriteSet `functions` depends on the hash seed "
        "(set iteration in translate/writeset.py); the pinned lists of Props/C08 do not depend on it"])
    _write_set(ctx)
    budget = 10 if len(ctx.broken) else 1
    fails, fst = c08_freeze.sweep(ctx, ctx.scale(100, 1500) * budget)
    ctx.cov["oracle"].update(fst)
    ctx.failing += fails


replay = _level2.replay
