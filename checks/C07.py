"""C07 — all interfaces to the same computation return the same numbers"""
from oracles import c07 as oracle

GEN = ["Ndim"]
LEAN_TARGETS = ["MagpyVerif.Props.C07"]
PROPS = ["MagpyVerif.Props.C07"]


def run(ctx, model_ok):
    budget = 10 if len(ctx.broken) else 1
    fails, ost = oracle.sweep(ctx, ctx.scale(60, 2500) * budget)
    ctx.failing += fails
    ctx.cov["oracle"] = ost
    ctx.cov["evaluations"] = sum(ost["c07_forms"].values())
    ctx.cov["distinct_nontrivial"] = ost["c07_cases"] * 8
    ctx.cov["rule"] = ("per case: one random source of each class in turn (random pose), 4 far observers, field in B/H/J/M; 8 call forms + core + "
                       "dataframe compared with getX(src, obs); distinct = (case, call form) pairs, every case has a fresh random source")
    ctx.cov["traces_validated_against_impl"] = ost["c07_cases"]
    ctx.cov["samples"] = [ost["c07_forms"]]
    ctx.cov["not_shown"] = ["method wrappers, _validate_getBH_inputs branches, core functions and dataframe assembly are delegation glue: cross-interface oracle only",
                            "the rank of one parameter value is read from a valid instance's attribute by the generator (trusted)"]
    ctx.assumptions += ["np.tile / np.squeeze semantics in getBH_dict_level2 as modelled by DictIface.rows"]


def replay(ctx, payload):
    import json
    print(json.dumps(payload, indent=1, default=str)[:4000])
    return 0
