"""C07 — all interfaces to the same computation return the same numbers"""
from corr import iface_family, level2_family
from oracles import c07 as oracle

GEN = ["Ndim"]
LEAN_TARGETS = ["MagpyVerif.Props.C07"]
PROPS = ["MagpyVerif.Props.C07"]


def run(ctx, model_ok):
    # error_cases / dataframe_order are theorems about Model/Level2 (getBH, dataframe): tie that model
    # to getB(..., output="ndarray"/"dataframe") by the level2 correspondence stream
    if ctx.driver_ok:
        st = level2_family.run_stream(ctx, ctx.scale(120, 3000))
        st.pop("samples", None)
        ctx.cov["correspondence"] = st
        # method_wrappers_agree / observers_as_positions / format_src_flatten_spec / duplicates_are_kept are theorems about
        # Model/Iface (input formatting + method wrappers): tie it to magpylib.getB/getH, src.getB, sens.getB, coll.getB,
        # format_src_inputs, check_format_input_observers and check_duplicates by the iface stream (exact)
        ist = iface_family.run_stream(ctx, ctx.scale(400, 8000))
        ist.pop("samples", None)
        ctx.cov["correspondence_iface"] = ist
    else:
        ctx.cov["correspondence"] = "driver did not build"
    budget = 10 if len(ctx.broken) else 1
    fails, ost = oracle.sweep(ctx, ctx.scale(60, 2500) * budget)
    ctx.failing += fails
    ctx.cov["oracle"] = ost
    ctx.cov["evaluations"] = sum(ost["c07_forms"].values())
    ctx.cov["distinct_nontrivial"] = ost["c07_cases"] * 8
    ctx.cov["rule"] = ("per case: one random source of each class in turn (random pose), 4 far observers, field in B/H/J/M; 8 call forms + core + "
                       "dataframe compared with getX(src, obs); distinct = (case, call form) pairs, every case has a fresh random source")
    ctx.cov["traces_validated_against_impl"] = ost["c07_cases"]
    ctx.cov["samples"] = [ost["c07_forms"]]
    ctx.cov["not_shown"] = ["core functions (magpylib.core.*): cross-interface oracle only; the method wrappers, _validate_getBH_inputs and the input formatting are "
                            "modelled (Model/Iface.lean, iface stream) for CustomSources — check_dimensions / check_excitations of the built-in classes, "
                            "in_out, the string-source route of getBH_level2 and numeric arrays whose last axis is not 3 are not in that model",
                            "dataframe: pandas DataFrame construction and column assignment are assumed as modelled (index list next to value list); labels are modelled by entry/sensor index",
                            "the rank of one parameter value is read from a valid instance's attribute by the generator (trusted)",
                            "functional interface getBH_dict_level2: Model/DictIface.lean (treat / vecLen / rows) is NOT executed by the driver and no stream compares it "
                            "with the real function; classification_correct, dict_interface_tiling and mismatched_lengths_rejected unfold that hand-written model "
                            "(np.squeeze of a length-1 stack, ragged object arrays, position/orientation/observers tiling, the default rank 1 for unknown keys are not in it). "
                            "What ties the functional interface to the code is the regenerated rank table (table_is_rank_plus_one, table_covers_source_classes) and the cross-interface oracle",
                            "method_wrappers_agree: the first two conjuncts hold by definition of the model (srcMethod / sensMethod are defined as the top-level call); "
                            "their content is the iface stream comparing the model with src.getB / sens.getB / coll.getB"]
    ctx.assumptions += ["np.tile / np.squeeze semantics in getBH_dict_level2 as modelled by DictIface.rows"]


def replay(ctx, payload):
    import json
    print(json.dumps(payload, indent=1, default=str)[:4000])
    return 0
