"""C07 — all interfaces to the same computation return the same numbers"""
from corr import dict_family, iface_family, level2_family
from oracles import c07 as oracle

GEN = ["Ndim"]
LEAN_TARGETS = ["MagpyVerif.Props.C07"]
PROPS = ["MagpyVerif.Props.C07"]


def run(ctx, model_ok):
    # error_cases / dataframe_order are theorems about Model/Level2 (getBH, dataframe): tie that model
    # to getB(..., output="ndarray"/"dataframe") by the level2 correspondence stream
    if ctx.driver_ok:
        st = level2_family.run_stream(ctx, ctx.scale(120, 3000))
        st.pop("samples", None)
        ctx.cov["correspondence"] = st
        # method_wrappers_agree / observers_as_positions / format_src_flatten_spec / duplicates_are_kept are theorems about
        # Model/Iface (input formatting + method wrappers): tie it to magpylib.getB/getH, src.getB, sens.getB, coll.getB,
        # format_src_inputs, check_format_input_observers and check_duplicates by the iface stream (exact)
        ist = iface_family.run_stream(ctx, ctx.scale(400, 8000))
        ist.pop("samples", None)
        ctx.cov["correspondence_iface"] = ist
        # classification_correct / dict_interface_tiling / mismatched_lengths_rejected / dict_interface_is_level1_rowwise are theorems
        # about Model/DictIface (getBH_dict_level2): tie it to magpylib.getB/getH("ClassName", observers, **kwargs) by the dict
        # stream (exact): every registered class with its field function swapped from the outside for a recording integer-affine
        # one, a harness-registered test class with random rank tables, and the unpatched classes on valid inputs (shapes only)
        dst = dict_family.run_stream(ctx, ctx.scale(520, 8000))
        dst.pop("samples", None)
        ctx.cov["correspondence_dict"] = dst
    else:
        ctx.cov["correspondence"] = "driver did not build"
    budget = 10 if len(ctx.broken) else 1
    fails, ost = oracle.sweep(ctx, ctx.scale(60, 2500) * budget)
    ctx.failing += fails
    ctx.cov["oracle"] = ost
    ctx.cov["evaluations"] = sum(ost["c07_forms"].values())
    ctx.cov["distinct_nontrivial"] = ost["c07_cases"] * 8
    ctx.cov["rule"] = ("per case: one random source of each class in turn (random pose), 4 far observers, field in B/H/J/M; 8 call forms + core + "
                       "dataframe compared with getX(src, obs); distinct = (case, call form) pairs, every case has a fresh random source")
    ctx.cov["traces_validated_against_impl"] = ost["c07_cases"]
    ctx.cov["samples"] = [ost["c07_forms"]]
    ctx.cov["not_shown"] = ["core functions (magpylib.core.*): cross-interface oracle only; the method wrappers, _validate_getBH_inputs and the input formatting are "
                            "modelled (Model/Iface.lean, iface stream) for CustomSources — check_dimensions / check_excitations of the built-in classes, "
                            "in_out, the string-source route of getBH_level2 and numeric arrays whose last axis is not 3 are not in that model",
                            "dataframe: pandas DataFrame construction and column assignment are assumed as modelled (index list next to value list); labels are modelled by entry/sensor index",
                            "the rank of one parameter value is read from a valid instance's attribute by the generator (trusted)",
                            "functional interface getBH_dict_level2: Model/DictIface.lean is executed by the driver family `dict` and compared with the real function "
                            "by the dict stream (error kind, n, every argument the field function receives, source-frame observers, output shape and values, exact). "
                            "Not in the model: observers / position of rank other than 1 or 2 or with a last axis other than 3 (the code hands them on and numpy "
                            "broadcasting decides), orientation=None, values with an empty axis, dict / str values (KeyError / ValueError leak), the scipy quaternion "
                            "round trip (modelled as tiling the rotations; octahedral rotations only in the stream); the field function is taken to be row-wise "
                            "(dict_interface_is_level1_rowwise is about a row-wise F; row independence of the real field functions is C05/C06); for the unpatched "
                            "classes only accept / reject / output shape are compared on valid-rank inputs (values: cross-interface oracle, floats)",
                            "carrier (AUDIT X1): the driver evaluates Model/Level2, Model/Iface and Model/DictIface at integer matrices (`M3 Int`, inverse = transpose, "
                            "not a group). Only dataframe_index_order, dataframe_order and position_pixels_are_the_positions are stated over an abstract Mathlib `Group G`; "
                            "they are PROVED for the `M3 Int` evaluation under the decidable hypothesis that all rotation matrices of the input are octahedral "
                            "(`*_on_driver_carrier`, via Lemmas/OctaCarrier.lean + Lemmas/OctaIface.lean: `Group Oct`, naturality of every interface function in the "
                            "inclusion `Oct -> M3 Int`); all other C07 theorems use bare operation classes and hold at `M3 Int` verbatim; "
                            "interface_on_driver_carrier_is_group_model / dict_interface_is_level1_rowwise_on_driver_carrier: on octahedral data the driver's getBtop, "
                            "src/sens/coll method forms and getBH_dict_level2 ARE the same models evaluated at the group `Oct`. STILL ASSUMED: scipy `Rotation` on the 24 "
                            "octahedral rotations composes / inverts / applies / compares like these integer matrices (validated exactly by the level2, iface and dict "
                            "streams on sampled inputs, scipy results snapped to the grid); for general rotations scipy is a group action only up to rounding "
                            "(cross-interface float oracle); non-octahedral integer matrices are outside the group-dependent statements",
                            "method_wrappers_agree: the first two conjuncts hold by definition of the model (srcMethod / sensMethod are defined as the top-level call); "
                            "their content is the iface stream comparing the model with src.getB / sens.getB / coll.getB"]
    ctx.assumptions += ["np.tile / np.squeeze / np.array semantics in getBH_dict_level2 as modelled by DictIface.Arr (exercised by the dict stream)"]


def replay(ctx, payload):
    import json
    print(json.dumps(payload, indent=1, default=str)[:4000])
    return 0
