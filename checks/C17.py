"""C17 — malformed inputs are rejected at assignment, valid ones stored faithfully"""
from corr import valid_family
from oracles import c17 as oracle

GEN = ["Attr"]
LEAN_TARGETS = ["MagpyVerif.Props.C17"]
PROPS = ["MagpyVerif.Props.C17"]


def run(ctx, model_ok):
    if ctx.driver_ok:
        st = valid_family.run_stream(ctx, ctx.scale(400, 20000))
        ctx.cov["correspondence"] = st
    budget = 3 if len(ctx.broken) else 1
    fails, ost = oracle.sweep(ctx, ctx.scale(1, 12) * budget)
    ctx.failing += fails
    from oracles import c17_fieldfunc
    ff_fails, ff_stats = c17_fieldfunc.sweep(ctx)
    ctx.failing += ff_fails
    ctx.cov['oracle_field_func'] = ff_stats
    ctx.cov["oracle"] = ost
    ctx.cov["evaluations"] = ost["c17_assignments"]
    ctx.cov["distinct_nontrivial"] = ost["c17_assignments"] // 2
    ctx.cov["rule"] = ("18 (class, attribute) pairs x 60 grammar values (None, scalars, strings, sequences of rank 0-3 and length 0-6, ragged, signed/zero entries, "
                       "segment dimension variants, ndarrays of several dtypes) x {setter, constructor}; distinct = (attribute, value) pairs")
    ctx.cov["traces_validated_against_impl"] = ost["c17_assignments"]
    ctx.cov["samples"] = [ost]
    if "correspondence" in ctx.cov:
        st = ctx.cov["correspondence"]
        ctx.cov["evaluations"] += st["cases"]
        ctx.cov["distinct_nontrivial"] += st["distinct"]
        ctx.cov["traces_validated_against_impl"] += st["cases"]
        ctx.cov["rule"] += ("; valid stream: every validator command (incl. start, degrees, field, output, anchor, angle, axis, orientation) x fixed boundary values, plus random values of the PyVal grammar (None, bool, numpy.bool_, "
                            "complex, strings, objects, int/float/numpy scalars, nested lists/tuples incl. ragged and empty, ndarrays incl. 0-d and empty) "
                            "aimed at each validator's documented shape with one defect; distinct = (validator, result, value) triples")
        ctx.cov["samples"] = st.pop("samples") + ctx.cov["samples"]
    ctx.cov["not_shown"] = ["field_func, style arguments, in_out / check_* mode strings of TriangularMesh: grammar oracle only; pixel_agg (which numpy names are reductions) is not modelled: "
                            "observed — foreign AttributeError / TypeError for bad names (pinned by tests/test_getBH_level2.py), 'any'/'all' refused, 'argmax'/'ndim'/'size' accepted",
                            "np.array(x) / np.array(arr, dtype=float) are assumed external functions (Model/Validators.lean header): non-integer floats, inf, bytes, integers beyond int64, "
                            "Fraction/Decimal (object dtype holding numbers only), object-dtype ndarrays, objects with __array__, nestings deeper than numpy's axis limit are outside the "
                            "modelled grammar (object ndarrays with None rows / None entries are refused by the code for every attribute, Polyline.vertices included: oracle values)",
                            "full-strength 'never a foreign error' is false of the faithful model for check_format_input_vector2 (ValueError, pinned by a test: witness vector2_bad_shape_is_foreign, "
                            "known finding) and check_getBH_output_type (ValueError, pinned by tests/test_getBH_interfaces.py::test_getBH_bad_output_type: output_rejection_is_foreign); "
                            "complex scalars and complex / out-of-range angles were repaired in /repo (scalar_never_foreign, angle_error_is_bad)",
                            "'documented format' in the *_accepts_iff_documented theorems is Spec/ValidSpec.lean; its entry grammar (isEntry) is: numbers (int, float, bool, numpy.bool_, float nan). "
                            "A nan given as a float is accepted everywhere (passes 'no value <= 0', '>= 0' and all five CylinderSegment conditions: cylseg_accepts_nan, scalar_accepts_nan); "
                            "the empty (0,3) anchor was repaired in /repo (anchor_rejects_empty, anchor_accepts_iff_documented at full strength)",
                            "observed, not recorded as findings (oracle `observed_not_recorded`, re-evaluated on every run): bad `pixel_agg` raises AttributeError (pinned by "
                            "tests/test_getBH_level2.py::test_pixel_agg_heterogeneous_pixel_shapes) or TypeError (non-string, 'pi'), 'any'/'all' refused, 'argmax'/'ndim'/'size' accepted; bad `output` raises ValueError "
                            "(pinned); accepted beyond the documented format: anchor=0j, anchor=False, start=True, angle=[], nan floats in every scalar / vector attribute; refused although "
                            "arguably documented: degrees=np.True_, start=1.0; getB observers still coerce None / numeric strings (check_format_input_observers, outside attribute assignment)",
                            "constructor path = setter path (constructors assign through the same setters: valid stream only), and 'no accepted object later fails inside a field computation "
                            "with an internal error' (check_dimensions / check_excitations, nan dimensions reaching the kernels): oracle only",
                            "rejected-assignment theorems are about setters of the form validate-then-assign (setAttrWith); that every real setter has this form is regenerated for Sensor.pixel / "
                            "Sensor.handedness (Attr.skeleton) and observed for the others by the valid stream's state comparison (BaseMagnet.polarization also writes _magnetization)",
                            "start / degrees / anchor / angle / axis / orientation / field / output are modelled as the validator functions; that move, rotate*, getB call them on the argument before "
                            "touching any path is the subject of C09 (path stream incl. rejected calls)"]

def replay(ctx, payload):
    import json
    print(json.dumps(payload, indent=1, default=str)[:4000])
    return 0
